#!/bin/bash
# Build the framework offline from files on disk: regenerate Gen/ from /repo, build the Lean modules of every accepted check.
here="$(cd "$(dirname "${BASH_SOURCE[0]}")" && pwd)"
cd "$here" || exit 2
export PYTHONPATH="${VERIF_REPO:-/repo}:$here" NIPYPE_PYDRA_VERIF=1 PYTHONDONTWRITEBYTECODE=1 NO_ET=1
exec "${VERIF_PYTHON:-/venv/bin/python}" -m harness.build_ready
