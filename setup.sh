#!/bin/bash
# Build the whole framework offline from files on disk: regenerate Gen/ from /repo, build every Lean module.
set -e
here="$(cd "$(dirname "${BASH_SOURCE[0]}")" && pwd)"
cd "$here"
export PYTHONPATH="${VERIF_REPO:-/repo}:$here" NIPYPE_PYDRA_VERIF=1 PYTHONDONTWRITEBYTECODE=1 NO_ET=1
"${VERIF_PYTHON:-/venv/bin/python}" -m harness.extract_all || echo "extract_all reported problems (checks will report them per property)"
cd lean && lake build
