"""C30 — Workflow construction caching and repeated runs are transparent (DESIGN §6 C30, engine WfCache §5.10).

A case is a *history* of operations on a few task instances of generated workflow definitions whose graph shape depends
on non-lazy inputs (`n` chained nodes, optional node `s` if `b`) and, for factory-made classes, on a closure value:

    ["construct", i, lazy]   Workflow.construct(task_i, lazy=lazy)     -> graph view (lazy workflow inputs resolved)
    ["tconstruct", i]        task_i.construct()    (per-instance memo)  -> graph view
    ["run", i, "s"|"f"]      task_i(worker="debug", cache_root=shared|fresh)  -> outputs
    ["set", i, field, v]     task_i.field = v
    ["clear"]                Workflow.clear_cache()
    ["mut", i, v]            task_i.x.append(v)   IN-PLACE mutation of a list input — only in the hand-written histories of
                             corpus/wfcache/mutation.jsonl (see `mutation_stream`), never generated, not in the Lean machine

Parties:  impl  = the history executed in this process on the real code (every op observed);
          model = Lean state machine of the three-level cache + per-instance memo + result store (WfCache/Model.lean with
                  the concrete signature WfCache/Concrete.lean), every op;
          spec  = (a) the same Lean machine without any cache, every op; (b) a FRESH INTERPRETER (child process) that creates
                  the tasks with their current values and performs only the final operation.
spec_ok = impl agrees with (a) on every op and with (b) on the final op.  (a) and (b) must agree with each other, otherwise
the Lean reference does not describe a fresh construction and the check reports a broken tie.
"""

from __future__ import annotations

import json
import subprocess
from concurrent.futures import ThreadPoolExecutor

from harness import core
from harness.engines import wfcache

META = {
    "engine": "WfCache",
    "category": "proof",
    "design_ref": "§6 C30, §5.10",
    "technique": "Lean 4 invariant proof over operation histories (memo transparency) + kernel-evaluated witnesses; "
    "differential execution of histories against the Lean machine and against fresh interpreters",
    "text": "PARTIAL.  Lean theorem C30_partial, for histories of ANY length over any number of task instances, classes and "
    "values, with the workflow constructor, both hash functions, graph execution and graph view uninterpreted: if no input is "
    "assigned in place after the instance memoised its construction (okHist, decidable), classes with equal hash have equal "
    "constructors (ClosureFree), value hashing separates the values (HashInj; C08's subject) and the constructor does not "
    "branch on lazy inputs (LazyParametric), then the machine with Workflow._constructed_cache (exact hit, superset-of-lazy hit "
    "with deepcopy+setattr, miss, clear_cache), the per-instance memo WorkflowTask._constructed and the shared result store "
    "yields, step by step, the observations of the cache-less reference.  Invariant: every cache entry equals the constructor "
    "applied to its key's values (CacheInv); C30_superset is the superset-of-lazy lemma.  The full statement is refuted for the "
    "model by C30_witness_stale (D19: w.construct(); w.x = 10; w() runs the graph built with the old x) and "
    "C30_witness_closure (D28: classes differing only in closure values share a cache entry); C30_witness_lazy_branch shows "
    "why LazyParametric is needed.  Repeated runs over the same node/State objects (which the cache causes): "
    "C30_create_graph_idempotent_Simple_partial proves, on the WfState model, that for every workflow of the class Simple (no "
    "combiner, no scalar splitter, no shared origins) a second _create_graph + run over the state objects left by the first run "
    "gives exactly the first run's result; C30_witness_rerun_partial_zip (D29: second run PydraStateError) and "
    "C30_witness_rerun_name_clash (D39: second run AttributeError) refute the unrestricted statement "
    "(C30_create_graph_not_idempotent); the second-run model is compared with pydra on a sample of C03's generated workflows.  "
    "The Lean machine is tied to pydra by executing generated histories (≤ 6 ops quick, ≤ 8 "
    "thorough; 1–3 definitions incl. factory-made classes and split nodes; lazy sets ⊆ {x, y}; shared and fresh cache roots) "
    "on the real code, in the Lean machine, and — final operation only — in a fresh interpreter.",
    "note": "Trusted: Lean kernel; hand-written Lean machine (tied to workflow.py::Workflow.construct and "
    "compose/workflow.py::WorkflowTask.construct by differential execution only); the concrete Lean interpretation of the "
    "generated definitions; generator reach.  In-place mutation of a mutable input *value* is not an operation of the Lean "
    "machine (its values are immutable): it is exercised by 15 hand-written histories (corpus/wfcache/mutation.jsonl) against a "
    "fresh interpreter only — D40 (the cached graph aliases the caller's list: another task with the old values is served the "
    "mutated list) and the D19 variant (memo + snapshot) are attributed by match rule alone.  Not covered: "
    "constructors that branch on lazy inputs (outside the stated hypothesis), hash collisions (C08).",
    "rule": "case = (definitions, task instances, history of ≤ 6/8 ops); distinct by canonical JSON; non-trivial = the history "
    "contains at least two cache-relevant ops (construct/tconstruct/run) that can interact (same class hash)",
    "assumptions": [
        "value hashing is collision-free on the generated values (C08)",
        "environment parameter measured on every run and passed to the Lean machine: only the first k candidates of the "
        "superset-of-lazy search are given a correct hash (k = 2 on CPython 3.12: Workflow.construct shares an id-keyed hash "
        "memo over temporaries whose ids are reused); C30_partial holds for every k",
        "workflow constructors do not branch on inputs passed as lazy (lazy sets are drawn from {x, y})",
    ],
    "trusted": ["Lean machine WfCache/Model.lean and the concrete signature WfCache/Concrete.lean"],
}

_NS = "PydraModel.WfCache."
OBLIGATIONS = [
    _NS + n
    for n in (
        "construct_sound",
        "C30_partial",
        "C30_superset",
        "C30_witness_stale",
        "C30_witness_closure",
        "C30_witness_lazy_branch",
        "C30_full_statement_false",
        "sigA_closureFree",
        "sigA_hashInj",
        "sigA_lazyParametric",
    )
] + [
    "PydraModel.WfState." + n
    for n in (
        "C30_create_graph_idempotent_Simple_partial",
        "C30_witness_rerun_partial_zip",
        "C30_witness_rerun_name_clash",
        "C30_create_graph_not_idempotent",
    )
]
LEAN_TARGETS = ["PydraModel.Props.C30"]
MODEL_TARGETS = ["PydraModel.WfCache.Model", "PydraModel.WfCache.Concrete", "PydraModel.DriverUtil"]

CORPUS = core.VERIF / "corpus" / "wfcache"

# --------------------------------------------------------------------------------------------------------------------
# match rules of the known findings (predicates on the case)


def set_after_memo(case) -> bool:
    """D19: an input of task i is assigned after task i memoised (or may have memoised) its construction."""
    touched = set()
    for op in case["ops"]:
        if op[0] in ("tconstruct", "run"):
            touched.add(op[1])
        elif op[0] == "set" and op[1] in touched:
            return True
    return False


def closure_clash(case) -> bool:
    """D28: two task instances that take part in the history belong to classes made by the same factory (same source)
    with different closure values."""
    used = {op[1] for op in case["ops"] if op[0] in ("construct", "tconstruct", "run")}
    seen = {}
    for i in used:
        df = case["defs"][case["tasks"][i]["def"]]
        if df["kind"] == "factory":
            ks = seen.setdefault(df["group"], set())
            ks.add(df["k"])
    return any(len(ks) > 1 for ks in seen.values())


def _vals_before(case, i, pos):
    """Input values of task i just before op number `pos` (sets and in-place mutations applied)."""
    v = dict(case["tasks"][i])
    for op in case["ops"][:pos]:
        if op[0] == "set" and op[1] == i:
            v[op[2]] = op[3]
        elif op[0] == "mut" and op[1] == i:
            v["x"] = list(v["x"]) + [op[2]]
    return v


def mut_leak(case) -> bool:
    """D40: the final op constructs/runs task j; an EARLIER construction of a different task i of the same non-split
    definition, with x among the non-lazy inputs, put a graph into the class-level cache that aliases task i's list; the
    list was then mutated in place; no clear_cache since; and task j's values are the ones task i had at that construction
    (so j's request finds i's entry: exact hit, or superset-of-lazy hit when i was constructed with more lazy inputs)."""
    ops = case["ops"]
    last = ops[-1]
    if last[0] not in ("construct", "tconstruct", "run"):
        return False
    j = last[1]
    vj = _vals_before(case, j, len(ops) - 1)
    lazy_j = set(last[2]) if last[0] == "construct" else set()
    if last[0] == "run" and last[2] == "s":
        return False  # a shared root may serve the stored result instead
    for p, op in enumerate(ops[:-1]):
        if op[0] not in ("construct", "tconstruct", "run") or op[1] == j:
            continue
        i = op[1]
        if case["tasks"][i]["def"] != case["tasks"][j]["def"] or case["defs"][case["tasks"][i]["def"]].get("split"):
            continue
        lazy_i = set(op[2]) if op[0] == "construct" else set()
        if "x" in lazy_i or not lazy_j <= lazy_i:  # exact hit: equal lazy sets; superset-of-lazy hit: lazy_j ⊂ lazy_i
            continue
        vi = _vals_before(case, i, p)
        if not isinstance(vi["x"], list) or any(vi[f] != vj[f] for f in wfcache.FIELDS if f not in lazy_i):
            continue
        later = ops[p + 1 : -1]
        if any(o[0] == "clear" for o in later):
            continue
        if any(o[0] == "mut" and o[1] == i for o in later):
            return True
    return False


def mut_after_memo(case) -> bool:
    """D19 by in-place mutation: the final op runs / tconstructs task i of a SPLIT definition (the graph holds a snapshot of
    the list) whose list was mutated in place after the instance memoised its construction."""
    ops = case["ops"]
    last = ops[-1]
    if last[0] not in ("tconstruct", "run") or (last[0] == "run" and last[2] == "s"):
        return False
    i = last[1]
    if not case["defs"][case["tasks"][i]["def"]].get("split"):
        return False
    memo = False
    for op in ops[:-1]:
        if op[0] in ("tconstruct", "run") and op[1] == i:
            memo = True
        elif op[0] == "mut" and op[1] == i and memo:
            return True
    return False


def attribute_mutation(case) -> str | None:
    if mut_leak(case):
        return "D40"
    if mut_after_memo(case):
        return "D19"
    return None


def attribute(case) -> str | None:
    if set_after_memo(case):
        return "D19"
    if closure_clash(case):
        return "D28"
    return None


# --------------------------------------------------------------------------------------------------------------------
# generator


def gen_case(rng, max_ops: int = 6) -> dict:
    nd = rng.choice([1, 2, 2, 3])
    defs = []
    use_factory = rng.random() < 0.4
    for d in range(nd):
        if use_factory and (d > 0 or rng.random() < 0.7):
            g = rng.choice([0, 0, 1])
            defs.append({"kind": "factory", "group": g, "k": rng.choice([0, 1, 2]), "split": g == 1})
        else:
            defs.append({"kind": "plain", "tagc": d, "split": rng.random() < 0.3})
    nt = rng.choice([1, 2, 2, 3])
    tasks = []
    for _ in range(nt):
        d = rng.randrange(nd)
        x = rng.choice([[1, 2], [3], [1, 2, 3]]) if defs[d]["split"] else rng.choice([1, 2, [4, 5]])
        tasks.append({"def": d, "x": x, "y": rng.choice([0, 7]), "n": rng.choice([0, 1, 2]), "b": rng.random() < 0.4})
    if nt >= 2 and rng.random() < 0.5:  # a twin: same class, same values (exact hits across instances)
        tasks[1] = dict(tasks[0])
    ops = []
    nops = rng.choice([k for k in (2, 3, 4, 5, 6, 6, 7, 8) if k <= max_ops])
    for _ in range(nops):
        i = rng.randrange(nt)
        r = rng.random()
        if r < 0.27:
            lz = rng.choice([[], [], ["x"], ["y"], ["x", "y"], ["y", "x"]])
            if rng.random() < 0.04:
                lz = ["n"]  # the constructor needs n: TypeError, cached or not
            ops.append(["construct", i, lz])
        elif r < 0.42:
            ops.append(["tconstruct", i])
        elif r < 0.72:
            ops.append(["run", i, rng.choice(["s", "s", "f"])])
        elif r < 0.92:
            f = rng.choice(["x", "y", "n", "b"])
            d = tasks[i]["def"]
            v = {
                "x": (rng.choice([[1, 2], [9], [3]]) if defs[d]["split"] else rng.choice([1, 2, 10])),
                "y": rng.choice([0, 7, 8]),
                "n": rng.choice([0, 1, 2]),
                "b": rng.random() < 0.5,
            }[f]
            ops.append(["set", i, f, v])
        else:
            ops.append(["clear"])
    # the final op must be observable
    if ops[-1][0] in ("set", "clear"):
        i = rng.randrange(nt)
        ops.append(rng.choice([["run", i, "s"], ["run", i, "f"], ["tconstruct", i], ["construct", i, []]]))
        ops = ops[-max_ops:]
    return {"defs": defs, "tasks": tasks, "ops": ops}


def nontrivial(case) -> bool:
    rel = [op for op in case["ops"] if op[0] in ("construct", "tconstruct", "run")]
    if len(rel) < 2:
        return False
    src = set()
    for op in rel:
        df = case["defs"][case["tasks"][op[1]]["def"]]
        key = ("p", case["tasks"][op[1]]["def"]) if df["kind"] == "plain" else ("f", df["group"])
        if key in src:
            return True
        src.add(key)
    return False


# --------------------------------------------------------------------------------------------------------------------
# running


def fresh_final(cases, chunk: int = 1, workers: int = 8, also_alone=None):
    """Reference (b): a new interpreter performs only the final op on task instances carrying their current values.
    `chunk` cases share one child process (each request starts with `Workflow.clear_cache()`, new classes, new task
    instances, new cache roots); `chunk=1` is one interpreter per case.  `also_alone`: cases that additionally get an
    interpreter of their own in the same pool; then the result is the pair (answers for `cases`, answers for `also_alone`)."""

    def one(group):
        try:
            p = subprocess.run(
                [core.PY, "-m", "harness.engines.wfcache"],
                input="".join(json.dumps(c) + "\n" for c in group),
                capture_output=True,
                text=True,
                timeout=600,
                env=core.impl_env({"PYTHONDONTWRITEBYTECODE": "1"}),
                cwd=str(core.VERIF),
            )
            lines = [l for l in p.stdout.splitlines() if l.strip()]
            if p.returncode != 0 or len(lines) != len(group):
                return [{"child-failed": (p.stderr or p.stdout)[-400:]}] * len(group)
            return [json.loads(l) for l in lines]
        except subprocess.TimeoutExpired:
            return [{"child-failed": "timeout"}] * len(group)

    groups = [cases[k : k + chunk] for k in range(0, len(cases), chunk)] + [[c] for c in (also_alone or [])]
    with ThreadPoolExecutor(max_workers=workers) as ex:
        flat = [r for rs in ex.map(one, groups) for r in rs]
    return (flat[: len(cases)], flat[len(cases) :]) if also_alone is not None else flat


def run_cases(ctx, cases, label="generated"):
    impls = [wfcache.run_history(c, ctx.scratch) for c in cases]
    # fresh interpreters: in chunks (one interpreter serves several cases, cache cleared in between), plus one interpreter
    # of its own for a sample of the cases — the two must give the same answers
    sample = list(range(min(len(cases), ctx.pick(4, 40))))
    refs, own = fresh_final(cases, chunk=max(1, (len(cases) + 7) // 8), also_alone=[cases[k] for k in sample])
    for k, r in zip(sample, own):
        if r != refs[k]:
            ctx.tie_broken.append({"kind": "fresh-interpreter-answers-differ", "case": cases[k], "own": r, "chunked": refs[k]})
    ctx.extra["fresh_interpreters"] = ctx.extra.get("fresh_interpreters", 0) + len(sample) + min(8, len(cases))
    window = wfcache.superset_window(ctx.scratch)
    ctx.extra["superset_window_measured"] = window
    ans = ctx.driver("WfCache", [wfcache.for_driver(c, window) for c in cases])
    for k, (c, i, ref) in enumerate(zip(cases, impls, refs)):
        a = ans[k] if ans is not None else None
        if a is not None and "model" not in a:
            ctx.tie_broken.append({"kind": "driver-rejected-case", "case": c, "detail": a})
            continue
        if isinstance(ref, dict) and "child-failed" in ref:
            raise core.Infra(f"fresh interpreter failed: {ref['child-failed']}")
        model = a["model"] if a else None
        lspec = a["spec"] if a else None
        if a is not None and (a.get("okHist") != (not set_after_memo(c)) or a.get("closureClash") != closure_clash(c)):
            # the match rules exist twice (here and in Lean: okHist / equal source with different closure): they must agree
            ctx.tie_broken.append({"kind": "hypothesis-predicates-disagree", "case": c, "lean": [a.get("okHist"), a.get("closureClash")],
                                   "python": [not set_after_memo(c), closure_clash(c)]})
        if lspec is not None and lspec[-1] != ref:
            # the Lean cache-less reference must describe what a fresh interpreter does
            ctx.tie_broken.append({"kind": "lean-spec-vs-fresh-interpreter", "case": c, "lean_spec_last": lspec[-1], "fresh": ref})
        spec_ok = i[-1] == ref and (lspec is None or i == lspec)
        defect = attribute(c)
        ctx.count(f"ops={len(c['ops'])}")
        ctx.count(f"defs={len(c['defs'])},tasks={len(c['tasks'])}")
        for op in c["ops"]:
            ctx.count("op:" + op[0] + (":lazy" if op[0] == "construct" and op[2] else ""))
        ctx.count("final:" + c["ops"][-1][0])
        ctx.count("hyp:okHist" if not set_after_memo(c) else "hyp:set-after-memo")
        if closure_clash(c):
            ctx.count("hyp:closure-clash")
        ctx.count("impl:agrees-with-fresh" if spec_ok else "impl:differs-from-fresh")
        ctx.judge(
            c,
            i,
            model,
            spec_ok,
            nontrivial=nontrivial(c),
            defect=defect,
            what="observations of every op vs the cache-less Lean reference, final op vs a fresh interpreter",
        )


def mutation_stream(ctx, refs=None):
    """In-place mutation of a list input between the operations (corpus/wfcache/mutation.jsonl: hand-written histories,
    each with the finding it must show or `null` = must agree with a fresh interpreter).  The Lean machine has immutable
    values, so there is no model party here: impl (history in this process) vs the fresh interpreter on the final op; a
    difference is attributed only by the match rules `mut_leak` (D40) / `mut_after_memo` (D19), and the rule computed from
    the history must be the finding the corpus names."""
    recs = load_corpus("mutation.jsonl")
    if not recs:
        return
    cases = [r["case"] for r in recs]
    impls = [wfcache.run_history(c, ctx.scratch) for c in cases]
    if refs is None:
        refs = fresh_final(cases, chunk=max(1, (len(cases) + 7) // 8))
    shown = {}
    for r, c, i, ref in zip(recs, cases, impls, refs):
        if isinstance(ref, dict) and "child-failed" in ref:
            raise core.Infra(f"fresh interpreter failed: {ref['child-failed']}")
        rule = attribute_mutation(c)
        if rule != r["id"]:
            ctx.tie_broken.append({"kind": "mutation-match-rule-vs-corpus", "case": c, "rule": rule, "corpus": r["id"]})
        spec_ok = i[-1] == ref
        ctx.count("mutation:" + ("agrees-with-fresh" if spec_ok else f"differs-from-fresh:{rule}"))
        if not spec_ok and rule is not None:
            shown[rule] = True
        ctx.judge(c, i, None, spec_ok, nontrivial=True, defect=rule,
                  what="in-place mutation history: final op vs a fresh interpreter holding the mutated values")
    ctx.extra["mutation_histories"] = len(cases)
    known = {f["id"] for f in ctx.known()}
    if "D40" in known:
        ctx.finding("D40", bool(shown.get("D40")), "corpus/wfcache/mutation.jsonl: another task with the pre-mutation values is served the mutated list")


def load_corpus(name):
    p = CORPUS / name
    if not p.exists():
        return []
    return [json.loads(l) for l in p.read_text().splitlines() if l.strip()]


PINNED_FINGERPRINT = "77f584724b8dd571"  # sha256 prefix of the source of the modelled functions at the pinned commit


def fingerprint() -> str:
    import hashlib
    import inspect

    from pydra.compose.workflow import WorkflowTask
    from pydra.engine.workflow import Workflow

    h = hashlib.sha256()
    for o in (Workflow.construct, Workflow.clear_cache, WorkflowTask.construct):
        h.update(inspect.getsource(o).encode())
    return h.hexdigest()[:16]


def correspondence(ctx):
    core.assert_repo_loaded()
    try:
        fpr = fingerprint()
    except Exception as e:  # noqa: BLE001
        fpr = f"unavailable:{core.exc_tag(e)}"
    ctx.extra["modelled_source_fingerprint"] = fpr
    changed = fpr != PINNED_FINGERPRINT
    if changed:
        ctx.notes.append("modelled functions differ from the pinned commit: generation budget doubled")
    known = {f["id"] for f in ctx.known()}
    findings = load_corpus("findings.jsonl")
    cases = [r["case"] for r in findings] + [r["case"] for r in load_corpus("regressions.jsonl")]
    n = ctx.pick(32, 700) * (2 if changed else 1)
    cases += [gen_case(ctx.rng, max_ops=ctx.pick(6, 8)) for _ in range(n)]
    before = len(ctx.violations)
    run_cases(ctx, cases)
    # one batch of fresh interpreters (≤ 8 children) for: the witnesses of the known findings, the domain boundary, and the
    # in-place mutation histories
    wit = [r for r in findings if r["id"] in known]
    boundary = load_corpus("boundary.jsonl")
    mut = load_corpus("mutation.jsonl")
    batch = [r["case"] for r in wit] + [r["case"] for r in boundary] + [r["case"] for r in mut]
    fresh = fresh_final(batch, chunk=max(1, (len(batch) + 7) // 8)) if batch else []
    f_wit, f_bnd, f_mut = fresh[: len(wit)], fresh[len(wit) : len(wit) + len(boundary)], fresh[len(wit) + len(boundary) :]
    # the witnesses of the known findings: does the final op still differ from a fresh interpreter?
    for r, f in zip(wit, f_wit):
        i = wfcache.run_history(r["case"], ctx.scratch)[-1]
        ctx.finding(r["id"], i != f, f"final op in the history: {json.dumps(i)[:160]}; fresh interpreter: {json.dumps(f)[:160]}")
    mutation_stream(ctx, f_mut)
    # the domain boundary (not a finding): a constructor branching on a lazy input leaks through the superset path
    for r, f in zip(boundary, f_bnd):
        i = wfcache.run_history(r["case"], ctx.scratch)[-1]
        ctx.extra.setdefault("domain_boundary", {})[r["id"]] = "differs from fresh (as the model's hypothesis LazyParametric predicts)" if i != f else "agrees with fresh"
    del before


def search(ctx):
    run_cases(ctx, [gen_case(ctx.rng, max_ops=8) for _ in range(ctx.pick(60, 500))])


def replay(ctx, rec):
    """Re-run a replay file: a violation record (one case) or a broken-tie record (the cases it names)."""
    recs = [rec] if "case" in rec else [t for t in rec.get("no_longer_checks", []) if isinstance(t.get("case"), dict)]
    cases = [r["case"] for r in recs if "ops" in r["case"]]
    if cases:
        run_cases(ctx, cases, label="replay")
    known = {f["id"] for f in ctx.known()}
    wit = [r for r in load_corpus("findings.jsonl") if r["id"] in known]
    if wit:
        impl_last = [wfcache.run_history(r["case"], ctx.scratch)[-1] for r in wit]
        fresh = fresh_final([r["case"] for r in wit])
        for r, i, f in zip(wit, impl_last, fresh):
            ctx.finding(r["id"], i != f, "replayed witness")
