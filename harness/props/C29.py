"""C29 — Jobs and results survive serialization to worker processes (DESIGN §6 C29, engine Pickle §5.10)."""

from __future__ import annotations

import subprocess
from pathlib import Path

from harness import core
from harness.extractors.pickle_state import extract as extract_pickle_state

META = {
    "engine": "Pickle",
    "category": "proof",
    "design_ref": "§6 C29, §5.10",
    "technique": "Lean 4 theorem over __getstate__/__setstate__ descriptions regenerated from the source (decide on generated data + general round-trip lemma); cloudpickle round trips in fresh interpreters as correspondence",
    "text": "PARTIAL (record level).  Proved in Lean for every object (any attribute map): the __getstate__/__setstate__ pairs of Job, "
    "Submitter, Result, Worker, ConcurrentFuturesWorker, DebugWorker, SlurmWorker, SgeWorker — translated statement by statement from the "
    "current source into Gen/PickleState.lean on every run — return every attribute outside the declared transient list (loop, pool, "
    "scheduler bookkeeping dicts) unchanged and leave transient ones re-created or None (C29_state_roundtrip, C29_transient_recreated; "
    "C29_generated_classes_ok is re-decided against the regenerated data, so an unpaired dumps/loads or a dropped attribute breaks the proof).  "
    "That cloudpickle itself reproduces classes, closures and file objects is the contract of DESIGN §4; it is exercised, not proved: every run "
    "dumps jobs of python / shell / workflow tasks (by-reference and by-value classes) and loads them in fresh interpreters with another "
    "PYTHONHASHSEED, comparing checksum, outputs and the result read back by the parent, and compares cf-worker runs with debug-worker runs.",
    "note": "Trusted: Lean kernel; the AST translator harness/extractors/pickle_state.py; cloudpickle round-trip contract (dec(enc v) = v); "
    "the transient-attribute list is part of the specification (Props/C29.lean).",
    "rule": "case = (object kind, attribute None-pattern) for the state round trip, or (task kind, inputs, worker, by-value?) for the process round "
    "trip; distinct by canonical JSON; non-trivial = process round trips of by-value classes, workflows or tasks with container inputs",
    "assumptions": ["cloudpickle.loads(cloudpickle.dumps(v)) reproduces v (sampled on every run, not proved)"],
    "trusted": ["AST translator of __getstate__/__setstate__ (harness/extractors/pickle_state.py)"],
}

_NS = "PydraModel.Pickle."
OBLIGATIONS = [
    _NS + n
    for n in (
        "C29_roundtrip_of_check",
        "C29_transient_of_check",
        "C29_generated_classes_ok",
        "C29_state_roundtrip",
        "C29_transient_recreated",
        "C29_witness_unpaired",
        "follow_heapRT",
        "C29_stable_of_generated",
        "C29_deep_roundtrip",
        "C29_witness_worker_recreated",
    )
]
LEAN_TARGETS = ["PydraModel.Props.C29"]
MODEL_TARGETS = ["PydraModel.Pickle.Model", "PydraModel.Pickle.Deep", "PydraModel.Gen.PickleState", "PydraModel.DriverUtil"]
EXTRACTORS = [extract_pickle_state]


# ---------------------------------------------------------------------------------- part A: state round trip


def _attrs_of(obj) -> dict:
    import attrs

    if attrs.has(type(obj)):
        return {a.name: getattr(obj, a.name, None) for a in attrs.fields(type(obj))}
    return dict(obj.__dict__)


def _same(name, a, b) -> bool:
    if a is b:
        return True
    if name == "task":
        return type(a).__name__ == type(b).__name__ and a._checksum == b._checksum
    try:
        r = a == b
        if isinstance(r, bool) and r:
            return True
    except Exception:
        return False
    # objects without __eq__ of their own (Audit, Messenger, …): same class and structurally equal state
    if type(a) is type(b) and type(a).__eq__ is object.__eq__ and hasattr(a, "__dict__"):
        da, db = vars(a), vars(b)
        return da.keys() == db.keys() and all(_same(k, da[k], db[k]) for k in da)
    if type(a) is type(b) and isinstance(a, (list, tuple)) and len(a) == len(b):
        return all(_same(name, x, y) for x, y in zip(a, b))
    return False


def state_roundtrip(obj) -> tuple[dict, dict]:
    """(None-pattern of the attributes before, kind of each attribute after setstate(getstate))"""
    before = _attrs_of(obj)
    for v in before.values():
        if isinstance(v, dict) and not v:
            v["__verif__"] = 1  # so that a re-created empty dict is distinguishable from the old one
    state = obj.__getstate__()
    new = type(obj).__new__(type(obj))
    new.__setstate__(dict(state))
    after = _attrs_of(new)
    kinds = {}
    for a, v in before.items():
        if a not in after:
            kinds[a] = "absent"
        elif after[a] is None:
            kinds[a] = "none"
        elif v is not None and _same(a, v, after[a]):
            kinds[a] = "same"
        else:
            kinds[a] = "fresh"
    return {a: ("none" if v is None else "value") for a, v in before.items()}, kinds


def objects_for_state_roundtrip(ctx):
    from pydra.engine.job import Job
    from pydra.engine.submitter import Submitter
    from pydra.workers import cf, debug, sge, slurm

    from harness.engines import pickle_tasks as T

    root = ctx.scratch / "stateA"
    root.mkdir(exist_ok=True)
    objs = []
    for wname in ("debug", "cf"):
        sub = Submitter(worker=wname, cache_root=root / wname)
        objs.append(("Submitter", f"Submitter[{wname}]", sub))
        objs.append(("Job", f"Job[Add,{wname}]", Job(task=T.Add(a=1, b=2), submitter=sub, name="main")))
        objs.append(("Job", f"Job[SumProd,{wname}]", Job(task=T.SumProd(xs=[1, 2, 3]), submitter=sub, name="main")))
        objs.append(("Job", f"Job[AddTwice,{wname}]", Job(task=T.AddTwice(x=1, y=2), submitter=sub, name="main")))
        sub.close()
    objs.append(("DebugWorker", "DebugWorker", debug.DebugWorker()))
    w = cf.ConcurrentFuturesWorker(n_procs=1)
    objs.append(("ConcurrentFuturesWorker", "CFWorker", w))
    objs.append(("SlurmWorker", "SlurmWorker", slurm.SlurmWorker(sbatch_args="-N1", poll_delay=0)))
    try:
        objs.append(("SgeWorker", "SgeWorker", sge.SgeWorker()))
    except Exception as e:  # not constructible here: recorded, not gated
        ctx.notes.append(f"SgeWorker() not constructible: {core.exc_tag(e)}")
    # results: successful and errored
    ok = T.Add(a=2, b=3)(cache_root=root / "res", worker="debug")
    from pydra.engine.result import Result

    objs.append(("Result", "Result[ok]", Result(cache_dir=root / "res", outputs=ok, runtime=None, errored=False, task=T.Add(a=2, b=3))))
    objs.append(("Result", "Result[err]", Result(cache_dir=root / "res", outputs=None, runtime=None, errored=True, task=T.Add(a=2, b=3))))
    objs.append(("Result", "Result[bare]", Result(cache_dir=root / "res")))
    return objs, [w]


def part_a(ctx):
    objs, to_close = objects_for_state_roundtrip(ctx)
    cases, impls = [], []
    for cls, label, obj in objs:
        pattern, kinds = state_roundtrip(obj)
        cases.append({"part": "state", "class": cls, "object": label, "attrs": pattern})
        impls.append(kinds)
    for w in to_close:
        w.close()
    ans = ctx.driver("Pickle", [{"class": c["class"], "attrs": c["attrs"]} for c in cases])
    for k, (c, kinds) in enumerate(zip(cases, impls)):
        model = None
        if ans is not None:
            if "kinds" not in ans[k]:
                ctx.tie_broken.append({"kind": "model-driver", "detail": ans[k]})
            else:
                model = {a: ans[k]["kinds"].get(a) for a in kinds}
        transient = {"loop", "pool", "error"} | {a for a in kinds if c["class"] == "SgeWorker" and a not in ("poll_delay", "qsub_args", "write_output_files", "max_job_array_length", "indirect_submit_host", "max_threads", "poll_for_result_file", "default_threads_per_task", "polls_before_checking_evicted", "collect_jobs_delay", "default_qsub_args", "max_mem_free")}
        # the property: everything that is not transient survives (same value, or None stays None)
        spec_ok = all(k in ("same", "none") and (k != "none" or c["attrs"][a] == "none") for a, k in kinds.items() if a not in transient)
        ctx.count("state:" + c["class"])
        ctx.judge(c, kinds, model, spec_ok, nontrivial=False, what="__setstate__(__getstate__(obj)) attribute by attribute")


# ---------------------------------------------------------------------------------- part A': object-graph round trip

MODELLED = ("Job", "Submitter", "Result", "Worker", "ConcurrentFuturesWorker", "DebugWorker", "SlurmWorker", "SgeWorker")
SGE_KEPT = ("poll_delay", "qsub_args", "write_output_files", "max_job_array_length", "indirect_submit_host", "max_threads",
            "poll_for_result_file", "default_threads_per_task", "polls_before_checking_evicted", "collect_jobs_delay",
            "default_qsub_args", "max_mem_free")


def transient_of(cls: str, attrs) -> set:
    """mirror of `transient` in Props/C29.lean"""
    if cls in ("Submitter", "Worker", "DebugWorker"):
        return {"loop"}
    if cls == "ConcurrentFuturesWorker":
        return {"loop", "pool"}
    if cls == "SlurmWorker":
        return {"loop", "error"}
    if cls == "SgeWorker":
        return {"loop", "error"} | {a for a in attrs if a not in SGE_KEPT}
    return set()


def flatten(root):
    """heap description for the model driver + attribute paths (object 0 = root)"""
    heap, paths, stable = [], [], []

    def visit(o, prefix, ok):
        i = len(heap)
        heap.append(None)
        attrs = {}
        items = _attrs_of(o)
        tr = transient_of(type(o).__name__, items)
        for a, v in items.items():
            ok_a = ok and a not in tr
            paths.append(prefix + [a])
            stable.append(ok_a)
            if type(v).__name__ in MODELLED and ok_a:
                attrs[a] = {"ref": visit(v, prefix + [a], ok_a)}
            else:
                attrs[a] = "none" if v is None else "value"
        heap[i] = {"class": type(o).__name__, "attrs": attrs}
        return i

    visit(root, [], True)
    return heap, paths, stable


_MISSING = object()


def _get(o, path):
    for a in path:
        if o is _MISSING or o is None:
            return _MISSING
        d = _attrs_of(o)
        o = d.get(a, _MISSING) if a in d else getattr(o, a, _MISSING)
    return o


def graph_roundtrip(ctx, label, obj, via):
    """pickle the whole object (every nested __getstate__/__setstate__ runs) and compare path by path"""
    import pickle

    import cloudpickle as cp

    heap, paths, stable = flatten(obj)
    new = cp.loads(cp.dumps(obj)) if via == "cloudpickle" else pickle.loads(pickle.dumps(obj))
    kinds = []
    for p in paths:
        b, a = _get(obj, p), _get(new, p)
        if a is _MISSING:
            kinds.append("absent")
        elif a is None:
            kinds.append("none")
        elif type(b).__name__ in MODELLED:
            kinds.append("same" if type(a) is type(b) else "fresh")
        elif b is not None and b is not _MISSING and _same(p[-1], b, a):
            kinds.append("same")
        else:
            kinds.append("fresh")
    case = {"part": "graph", "object": label, "via": via, "heap": heap, "paths": [".".join(p) for p in paths]}
    ans = ctx.driver("Pickle", [{"heap": heap, "paths": paths}])
    model = None
    if ans is not None:
        if "kinds" not in ans[0]:
            ctx.tie_broken.append({"kind": "model-driver", "detail": ans[0]})
        else:
            model = ans[0]["kinds"]
    # transient values re-created equal to the old ones ({} for {}) cannot be told apart by value: compare stable paths
    # exactly and transient ones up to same/fresh
    def norm(ks):
        return None if ks is None else [k if st or k not in ("same", "fresh", "none") else "recreated-or-none" for k, st in zip(ks, stable)]

    before_none = [_get(obj, p) is None for p in paths]
    spec_ok = all(k == "same" or (k == "none" and bn) for k, st, bn in zip(kinds, stable, before_none) if st)
    ctx.count("graph:" + label.split("[")[0] + ":" + via)
    ctx.judge(case, dict(zip(case["paths"], norm(kinds))), None if model is None else dict(zip(case["paths"], norm(model))), spec_ok,
              nontrivial=True, what="pickle round trip of the object graph, attribute path by attribute path")


def part_a_deep(ctx):
    from pydra.engine.job import Job
    from pydra.engine.submitter import Submitter
    from pydra.workers import cf, debug, slurm

    from harness.engines import pickle_tasks as T

    root = ctx.scratch / "graphA"
    root.mkdir(exist_ok=True)
    rng = ctx.rng
    made = []
    # submitters handed an already configured Worker INSTANCE (worker_kwargs is then empty), by name + kwargs, and
    # a worker re-configured after the submitter was built
    n1, n2 = rng.choice([2, 3, 5]), rng.choice([2, 3, 5])
    pd, sa = rng.choice([3, 7, 11]), rng.choice(["--partition=long", "-N2 --mem=1G", "-q"])
    specs = [
        ("cf-instance", lambda: Submitter(worker=cf.ConcurrentFuturesWorker(n_procs=n1), cache_root=root / "a")),
        ("cf-kwargs", lambda: Submitter(worker="cf", cache_root=root / "b", n_procs=n2)),
        ("slurm-instance", lambda: Submitter(worker=slurm.SlurmWorker(poll_delay=pd, sbatch_args=sa), cache_root=root / "c")),
        ("slurm-kwargs", lambda: Submitter(worker="slurm", cache_root=root / "d", poll_delay=pd, sbatch_args=sa)),
        ("debug-instance", lambda: Submitter(worker=debug.DebugWorker(), cache_root=root / "e")),
    ]
    for label, mk in specs:
        sub = mk()
        made.append(sub)
        if label == "cf-kwargs":
            sub.worker.n_procs = n2 + 1  # configuration changed after construction must travel too
        graph_roundtrip(ctx, f"Submitter[{label}]", sub, "cloudpickle")
        for task, tl in ((T.Add(a=1, b=2), "Add"), (T.AddTwice(x=1, y=2), "AddTwice")):
            job = Job(task=task, submitter=sub, name="main")
            if rng.random() < 0.5:
                job.checksum
            graph_roundtrip(ctx, f"Job[{tl},{label}]", job, rng.choice(["cloudpickle", "pickle"]))
    for sub in made:
        sub.close()


# ---------------------------------------------------------------------------------- part B: process round trip


def gen_process_cases(ctx, n):
    rng = ctx.rng
    cases = []
    kinds = ["Add", "SumProd", "Describe", "ReadLen", "Echo", "AddTwice", "MulDyn", "WfDyn", "MulFile", "WfFile"]
    for i in range(n):
        k = kinds[i % len(kinds)] if i < len(kinds) else rng.choice(kinds)
        c = {"part": "process", "task": k, "worker": rng.choice(["debug", "cf"]), "seed": rng.randint(1, 4000),
             # the submitter always reads job.checksum before handing a job to a worker, which memoises it
             # in the pickled state; `memo: False` pickles a job whose identity has not been computed yet
             "memo": rng.random() < 0.6}
        if k == "Add":
            c["inputs"] = {"a": rng.randint(-5, 50), "b": rng.randint(0, 9)}
        elif k == "SumProd":
            c["inputs"] = {"xs": [rng.randint(0, 9) for _ in range(rng.randint(0, 4))], "k": rng.choice([0.5, 1.5, 2.25])}
        elif k == "Describe":
            c["inputs"] = {"d": {rng.choice("abcxyz"): rng.randint(0, 9) for _ in range(rng.randint(0, 3))}, "t": [rng.randint(0, 9), rng.choice(["u", "vv", ""])], "flag": rng.random() < 0.5}
        elif k == "ReadLen":
            c["inputs"] = {"size": rng.randint(0, 64)}
        elif k == "Echo":
            c["inputs"] = {"text": rng.choice(["hello", "a-b", "x1", "Zz"])}
        elif k == "AddTwice":
            c["inputs"] = {"x": rng.randint(0, 9), "y": rng.randint(0, 9)}
        else:
            c["inputs"] = {"n": rng.randint(2, 6), "x": rng.randint(0, 9)}
        cases.append(c)
    return cases


def build_task(ctx, c, idx):
    from harness.engines import pickle_tasks as T

    i = c["inputs"]
    k = c["task"]
    if k == "Add":
        return T.Add(**i)
    if k == "SumProd":
        return T.SumProd(**i)
    if k == "Describe":
        return T.Describe(d=i["d"], t=tuple(i["t"]), flag=i["flag"])
    if k == "ReadLen":
        f = ctx.scratch / f"in{idx}.bin"
        f.write_bytes(b"x" * i["size"])
        return T.ReadLen(f=f)
    if k == "Echo":
        return T.Echo(text=i["text"])
    if k == "AddTwice":
        return T.AddTwice(**i)
    Mul, Wf = T.by_value_classes(i["n"], srcdir=ctx.scratch if k.endswith("File") else None)
    return Mul(a=i["x"]) if k.startswith("Mul") else Wf(x=i["x"])


def canon_outputs(outs):
    import attrs

    if outs is None:
        return None
    d = {}
    for a in attrs.fields(type(outs)):
        if a.name.startswith("_"):  # _cache_dir / _node: location of the run, not an output
            continue
        v = getattr(outs, a.name)
        d[a.name] = str(v) if isinstance(v, Path) or type(v).__module__.startswith("fileformats") else v
    for drop in ("stderr",):
        d.pop(drop, None)
    return repr(sorted(d.items()))


def part_b(ctx, n, fixed=None):
    import cloudpickle as cp

    from pydra.engine.job import Job
    from pydra.engine.result import load_result
    from pydra.engine.submitter import Submitter

    base = ctx.evaluations * 100
    for idx, c in enumerate((fixed or []) + gen_process_cases(ctx, n), start=base):
        task = build_task(ctx, c, idx)
        root = ctx.scratch / f"proc{idx}"
        ref_root = ctx.scratch / f"ref{idx}"
        obs = {}
        # reference: in-process run, no serialization, separate cache
        ref = task(cache_root=ref_root, worker="debug")
        with Submitter(worker=c["worker"], cache_root=root) as sub:
            job = Job(task=task, submitter=sub, name="main")
            if c["memo"]:
                job.checksum
            pkl = ctx.scratch / f"job{idx}.pkl"
            with open(pkl, "wb") as f:
                cp.dump(job, f)
            parent_checksum = job.checksum
        outp = ctx.scratch / f"out{idx}.pkl"
        p = subprocess.run(
            [core.PY, "-m", "harness.engines.pickle_child", str(pkl), str(outp), str(core.REPO)],
            env=core.impl_env({"PYTHONHASHSEED": c["seed"]}),
            capture_output=True,
            text=True,
            timeout=600,
        )
        if p.returncode != 0 or not outp.exists():
            obs = {"child": "crashed", "stderr": p.stderr[-500:]}
        else:
            child = cp.load(open(outp, "rb"))
            if "exception" in child:
                obs = {"child": child["exception"]}
            else:
                back = load_result(parent_checksum, [root])
                obs = {
                    "child": "ok",
                    "checksum_equal": child["checksum"] == parent_checksum,
                    "identity_kept": child["uid"] == job.uid and child["name"] == job.name and child["cache_root"] == str(job.cache_root),
                    "outputs_equal_reference": canon_outputs(cp.loads(child["outputs"])) == canon_outputs(ref) if child["outputs"] else False,
                    "readback_equal": back is not None and not back.errored and canon_outputs(back.outputs) == canon_outputs(cp.loads(child["outputs"])) if child["outputs"] else False,
                }
        want = {"child": "ok", "checksum_equal": True, "identity_kept": True, "outputs_equal_reference": True, "readback_equal": True}
        ctx.count("process:" + c["task"] + (":memo" if c["memo"] else ":nomemo"))
        # match rule of known finding D35: class pickled by value (source not retrievable in the other process) and
        # identity not computed before pickling -> the function is hashed by bytecode instead of source there
        d35 = c["task"] in ("MulDyn", "WfDyn")
        spec_want = want
        if d35:  # what the model of bytes_repr_function's two branches (source / bytecode) predicts
            if c["memo"]:
                want = {"child": "RuntimeError:hash-changed"}
                if str(obs.get("child", "")).startswith("RuntimeError: Input field hashes have changed"):
                    obs = {"child": "RuntimeError:hash-changed"}
            else:
                want = dict(want, checksum_equal=False, readback_equal=False)
        ctx.judge(c, obs, want, obs == spec_want, defect="D35" if d35 else None, nontrivial=c["task"] not in ("Add", "Echo"),
                  what="cloudpickle round trip of a Job into a fresh interpreter")


def part_c(ctx, n):
    """public path: the cf worker (jobs pickled to pool processes) must give what the debug worker gives"""
    for idx, c in enumerate(gen_process_cases(ctx, n)):
        c = dict(c, part="cf-vs-debug")
        c.pop("worker")
        task = build_task(ctx, c, 1000 + idx)
        a = task(cache_root=ctx.scratch / f"cfA{idx}", worker="debug")
        b = build_task(ctx, c, 1000 + idx)(cache_root=ctx.scratch / f"cfB{idx}", worker="cf", n_procs=2)
        dirs_a = sorted(p.name for p in (ctx.scratch / f"cfA{idx}").iterdir() if p.is_dir() and "-" in p.name and not p.name.endswith(".lock"))
        dirs_b = sorted(p.name for p in (ctx.scratch / f"cfB{idx}").iterdir() if p.is_dir() and "-" in p.name and not p.name.endswith(".lock"))
        obs = {"outputs_equal": canon_outputs(a) == canon_outputs(b), "same_job_identities": dirs_a == dirs_b}
        want = {"outputs_equal": True, "same_job_identities": True}
        ctx.count("cf-vs-debug:" + c["task"])
        ctx.judge(c, obs, want, obs == want, nontrivial=True, what="cf worker vs debug worker")


D35_WITNESS = {"part": "process", "task": "MulDyn", "worker": "debug", "seed": 7, "memo": True, "inputs": {"n": 3, "x": 4}}


def correspondence(ctx):
    core.assert_repo_loaded()
    part_a(ctx)
    part_a_deep(ctx)
    if any(f["id"] == "D35" for f in ctx.known()):
        before = len(ctx.violations), ctx.attributed.get("D35", 0)
        part_b(ctx, 0, fixed=[D35_WITNESS])
        ctx.finding("D35", ctx.attributed.get("D35", 0) > before[1], "by-value class without retrievable source, fresh interpreter")
    part_b(ctx, ctx.pick(10, 60))
    part_c(ctx, ctx.pick(4, 24))


def search(ctx):
    part_a_deep(ctx)
    part_b(ctx, ctx.pick(24, 80))
    part_c(ctx, ctx.pick(8, 24))


def replay(ctx, rec):
    correspondence(ctx)
