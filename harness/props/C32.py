"""C32 — Task definitions survive dictionary round trips (DESIGN §6 C32, engine Roundtrip §5.7).

Implementation: `pydra.utils.general.unstructure` / `structure` on generated python and shell task classes (every C31
definition, plus shell definitions with argstr / position / sep / help / allowed_values metadata).  Model:
lean/PydraModel/Roundtrip (driver Drivers/Roundtrip.lean).  Oracle: the recreated class must have the same fields
attribute by attribute, the same xor groups / name / executor, the same rule behaviour on every assignment, the same
command line (shell) or outputs (python), and the dictionary must remain usable (second `structure`).
"""

from __future__ import annotations

import copy
import json

from harness import core
from harness.engines import rules as R

META = {
    "engine": "Roundtrip",
    "category": "proof",
    "design_ref": "§6 C32, §5.7",
    "technique": "Lean 4 theorem (structure ∘ unstructure = id on field records, for any number of fields/attributes; class "
    "defaults regenerated from the interpreter and checked by decide; argv preservation through the Argv engine's commandArgs) "
    "+ differential correspondence attribute by attribute",
    "text": "Lean theorems over a model of unstructure / filter_out_defaults / structure and the parts of define they go through "
    "(field classes shell.arg/out/outarg, python.arg/out as attribute lists; types, callables, converters, enums as opaque atoms): "
    "C32_field_roundtrip — for any class table with distinct attribute names and any field, re-applying the class defaults to the "
    "filtered dictionary gives the field back, provided every attribute value survives the dictionary form; "
    "C32_value_survives_iff — exactly which values do (everything except a non-trivial `requires`); C32_roundtrip_general — for "
    "every well-formed definition structure(unstructure d) is either refused by the reference check or equals roundDef d; "
    "C32_roundtrip_partial — = d for every definition (any number of inputs, outputs, outargs) whose requirement sets survive "
    "(decidable hypothesis SerOKDef); C32_cmdline_preserved — the argument vector built by the Argv engine's commandArgs (C22) "
    "from the recreated definition equals the original's for all values and append_args; C32_only_requires_can_change / "
    "C32_cmdline_preserved_whenever_structured — outside SerOKDef (D53) only the `requires` attribute can differ, so the argv is "
    "preserved whenever structure returns; C32_rules_preserved; C32_dict_reusable (structure is a pure function of the dictionary "
    "since the repair of D54; C32_old_shallow_* document the former behaviour); witnesses C32_witness_requires, "
    "C32_witness_requires_silent (D53).  The table of Field-class defaults (Gen/FieldDefaults.lean) is regenerated from "
    "attrs.fields of the running interpreter on every run; C32_defaults_table_ok / _shape are closed by decide on it.  "
    "Correspondence: definitions of the C31 generator, shell definitions with argstr/position/sep/help/allowed_values, and "
    "definitions of the C22 generator (int/float/path/list/MultiInputObj fields, outargs with path_template, templated argstrs, "
    "multi-word executables): unstructure keys per field, structure outcome, attribute-by-attribute comparison of the recreated "
    "fields, xor / name / executor, the ORDER of input and output fields (in the dictionary and in the recreated class), rule violations on every assignment, positions assigned by shell.define, a "
    "second structure of the same dictionary (unchanged dictionary, same result), the argv of the model's Argv view vs the argv "
    "handed to subprocess; cmdline (shell) and outputs (python) of original vs recreated class.",
    "note": "Trusted: Lean kernel; hand-written model of unstructure/structure/define (tied by the correspondence); the encoding of "
    "attribute values as atoms (types by str(), callables by qualified name); Python `==` on attribute values is modelled as "
    "structural equality; the Argv engine's model of _command_args (its own property C22).  Class-style (decorated class) "
    "definitions, workflow definitions and custom filter / value_serializer arguments are outside the generator.",
    "rule": "case = one generated task definition (python or shell; C31 generator: ≤ 5 fields with requirement sets and xor groups, "
    "python tasks with 1–3 outputs declared in non-alphabetical order and bound positionally from the returned tuple; "
    "metadata generator: argstr, position, sep, help, allowed_values; C22 generator: ≤ 6 fields incl. outargs); distinct by "
    "canonical JSON of the definition without its class name; non-trivial = has at least one rule or non-default metadata "
    "attribute; every assignment (≤ 243) of each C31-style definition is used to compare rule behaviour of original and "
    "recreated class",
    "assumptions": [
        "definitions are built by python.define / shell.define from a function / an executable and keyword dictionaries",
        "Python == on the attribute values used here agrees with structural equality (str, int, bool, None, lists of str, enums, types)",
        "field defaults are None, bool or str, as in the C22/C31 generators the property quantifies over; container- and "
        "bytes-valued defaults are outside (observed on the unchanged tree and recorded in the evidence as "
        "out_of_quantifier_observations: unstructure's value serializer turns a dict default into the list of its keys, a bytes "
        "default into a list of ints, tuple/set defaults into lists, so structure raises TypeError for a `dict`/`bytes`-typed field "
        "or silently changes the default of an untyped one)",
    ],
    "trusted": ["model of unstructure / structure / define written by hand (Roundtrip/Model.lean)", "Argv engine's model of ShellTask._command_args (Argv/Model.lean)"],
}

_NS = "PydraModel.Roundtrip."
OBLIGATIONS = [
    _NS + n
    for n in (
        "C32_defaults_table_ok",
        "C32_defaults_table_shape",
        "C32_filter_exact",
        "C32_field_roundtrip",
        "C32_value_survives_iff",
        "C32_roundtrip_partial",
        "C32_roundtrip_no_requires",
        "C32_observations_preserved",
        "C32_rules_preserved",
        "C32_roundtrip_general",
        "C32_cmdline_preserved",
        "C32_only_requires_can_change",
        "C32_cmdline_preserved_whenever_structured",
        "C32_dict_reusable",
        "C32_old_shallow_python_dict_consumed",
        "C32_old_shallow_shell_dict_kept",
        "C32_witness_requires",
        "C32_witness_requires_silent",
        "C32_witness_python_twice",
        "C32_full_statement_fails",
    )
]
LEAN_TARGETS = ["PydraModel.Props.C32"]
MODEL_TARGETS = ["PydraModel.Roundtrip.ArgvView", "PydraModel.DriverUtil"]
EXTRACTORS = [R.extract_field_defaults]


# --------------------------------------------------------------------------------------------------
# observing the implementation


def user_fields(cls):
    """(input fields, output fields) that `unstructure` serialises."""
    from pydra.compose.base import Out
    from pydra.utils.general import get_fields

    ins = [
        f
        for f in get_fields(cls)
        if not isinstance(f, Out) and f.name not in cls.BASE_ATTRS and f.name != cls._executor_name
    ]
    outs = [f for f in get_fields(cls.Outputs) if f.name not in cls.Outputs.BASE_ATTRS]
    return ins, outs


def encode_field(f) -> dict:
    import attrs

    return {
        "name": f.name,
        "attrs": [[a.name, R.encode_val(a.name, getattr(f, a.name))] for a in attrs.fields(type(f)) if a.name != "name"],
    }


def field_diffs(orig: list, new: list) -> list:
    import attrs

    out = []
    newd = {f.name: f for f in new}
    for f in orig:
        g = newd.get(f.name)
        if g is None:
            out.append([f.name, "<missing>"])
            continue
        if type(f) is not type(g):
            out.append([f.name, "<class>"])
            continue
        for a in attrs.fields(type(f)):
            if a.name != "name" and getattr(f, a.name) != getattr(g, a.name):
                out.append([f.name, a.name])
    for g in new:
        if g.name not in {f.name for f in orig}:
            out.append([g.name, "<extra>"])
    return out


def executor_of(cls):
    from pydra.utils.general import get_fields

    return {f.name: f for f in get_fields(cls)}[cls._executor_name].default


def shape_same(cls, cls2) -> bool:
    i1, o1 = user_fields(cls)
    i2, o2 = user_fields(cls2)
    return (
        cls._task_type() == cls2._task_type()
        and cls.__name__ == cls2.__name__
        and executor_of(cls) == executor_of(cls2)
        and cls._xor == cls2._xor
        and [f.name for f in i1] == [f.name for f in i2]
        and [f.name for f in o1] == [f.name for f in o2]
    )


def behaviour_same(ctx, d, cls, cls2, asgs, limit) -> bool:
    """cmdline (shell) / outputs (python) of original and recreated class on assignments both accept."""
    n = 0
    marker = ctx.scratch / "marker32.txt"
    for i, a in enumerate(asgs):
        if n >= limit:
            break
        t1, t2 = R.instantiate(cls, a), R.instantiate(cls2, a)
        if t1._rule_violations() or t2._rule_violations():
            continue
        n += 1
        if d["flavor"] == "shell":
            if t1.cmdline != t2.cmdline:
                return False
        else:
            p1 = R.probe_submission(cls, a, ctx.scratch / "c32" / f"{d['name']}_{i}_a", "call", marker)
            p2 = R.probe_submission(cls2, a, ctx.scratch / "c32" / f"{d['name']}_{i}_b", "call", marker)
            if (p1["exc"], p1["out"]) != (p2["exc"], p2["out"]) or p1["exc"] is not None:
                return False
    ctx.count("behaviour-compared", n)
    return True


def argv_behaviour_same(case, cls, cls2) -> bool:
    """cmdline of original and recreated class for the values of a C22-generator case"""
    from harness.engines import argv as A

    kwargs = {f["name"]: A._py_value(f, v) for f, v in zip(case["fields"], case["values"]) if not (v is None and not f["optional"])}
    if case["append"]:
        kwargs["append_args"] = list(case["append"])
    res = []
    for c in (cls, cls2):
        try:
            res.append(c(**kwargs).cmdline)
        except Exception as e:  # noqa: BLE001
            res.append({"error": core.exc_tag(e)})
    return res[0] == res[1]


def impl_case(ctx, d: dict, argv_case: dict | None = None) -> tuple[dict, dict, bool]:
    """-> (observable, model query, behaviour_same).  `argv_case`: a case of the C22 generator (harness/engines/argv.py);
    the class is then built by that engine's `build_class`, and the argument vector is observed too."""
    from pydra.utils.general import structure, unstructure

    if argv_case is not None:
        from harness.engines import argv as A

        cls = A.build_class(argv_case)
    else:
        cls = R.build(d, ctx.scratch / "mods")
    ins, outs = user_fields(cls)
    asgs = R.assignments(d) if argv_case is None else []
    effs = [R.effective(d, a) for a in asgs]
    ex = executor_of(cls)
    query = {
        "op": "roundtrip",
        "flavor": d["flavor"],
        "name": cls.__name__,
        "executor": R.encode_val("executor", ex),
        "inputs": [encode_field(f) for f in ins],
        "outputs": [encode_field(f) for f in outs],
        "xor": [sorted(g, key=str) for g in sorted(map(list, cls._xor), key=lambda g: sorted(map(str, g)))],
        "assignments": [{k: ({"unset": True} if v == R.UNSET else v) for k, v in e.items()} for e in effs],
    }
    if argv_case is not None:
        mq = A.model_query(argv_case)
        query["values"] = {f["name"]: v for f, v in zip(mq["fields"], mq["values"])}
        query["append"] = mq["append"]
    dct = unstructure(cls)
    obs = {
        "unstructured": {
            "inputs": {n: sorted(v) for n, v in dct["inputs"].items()},
            "outputs": {n: sorted(v) for n, v in dct["outputs"].items()},
        },
        # field ORDER is part of the dictionary form (dicts are ordered) and of what the round trip must preserve:
        # python tasks bind a returned tuple to the outputs by position
        "order": {"inputs": list(dct["inputs"]), "outputs": list(dct["outputs"])},
    }
    before = copy.deepcopy(dct)
    behaviour = True
    try:
        cls2 = structure(dct)
    except Exception as e:  # noqa: BLE001
        obs.update(structure=core.exc_tag(e), diffs=[], shape_same=None, dict_mutated=None, second=None, second_diffs=[], rules_diff=None)
        return obs, query, False
    i2, o2 = user_fields(cls2)
    obs["structure"] = "ok"
    obs["diffs"] = sorted(field_diffs(ins, i2) + field_diffs(outs, o2))
    obs["shape_same"] = shape_same(cls, cls2)
    try:
        obs["dict_mutated"] = not (dct == before)
    except Exception:  # noqa: BLE001 - comparing foreign objects may raise: then it certainly changed
        obs["dict_mutated"] = True
    nd = 0
    for a in asgs:
        v1 = R.canon_violations(R.instantiate(cls, a)._rule_violations())
        v2 = R.canon_violations(R.instantiate(cls2, a)._rule_violations())
        nd += v1 != v2
    obs["rules_diff"] = nd
    if argv_case is not None:
        behaviour = argv_behaviour_same(argv_case, cls, cls2)
        obs["argv"] = A.run_impl(argv_case, ctx.scratch, want_cmdline=False)["argv"]
    else:
        behaviour = behaviour_same(ctx, d, cls, cls2, asgs, ctx.pick(2, 5))
    try:
        cls3 = structure(dct)
        i3, o3 = user_fields(cls3)
        obs["second"] = "ok"
        obs["second_diffs"] = sorted(field_diffs(ins, i3) + field_diffs(outs, o3))
    except Exception as e:  # noqa: BLE001
        obs["second"] = core.exc_tag(e)
        obs["second_diffs"] = []
    if d["flavor"] == "shell":
        obs["positions"] = [getattr(f, "position") for f in ins] + [getattr(f, "position") for f in outs if hasattr(f, "path_template")]
    return obs, query, behaviour


def model_obs(ans: dict, pos: dict | None) -> dict | None:
    if ans is None or "error" in ans or not ans.get("wf"):
        return None
    failed = ans["structure"] != "ok"
    m = {
        "unstructured": {k: {n: sorted(v) for n, v in ans["unstructured"][k].items()} for k in ("inputs", "outputs")},
        "order": ans["order"],
        "structure": ans["structure"],
        "diffs": sorted(ans["diffs"]),
        "shape_same": ans["shape_same"],
        "dict_mutated": None if failed else ans["dict_mutated"],
        "second": ans["second"],
        "second_diffs": sorted(ans["second_diffs"]),
        "rules_diff": ans["rules_diff"],
    }
    if pos is not None and not failed:
        m["positions"] = pos["positions"]
    if "argv" in ans:
        from harness.engines import argv as A

        r = ans["argv"]
        m["argv"] = r["ok"] if "ok" in r else {"error": A.MODEL_ERR.get(r["err"], r["err"])}
        if ans["argv_roundtripped"] != ans["argv"]:  # contradicts C32_cmdline_preserved_whenever_structured
            m["argv"] = {"model-argv-changed": ans["argv_roundtripped"]}
    return m


def mangled_requires(d: dict) -> bool:
    """match rule of D53: some field has a requirement set that the dictionary form does not give back (anything but
    the empty set and the single unconditional requirement on a field called `requirements`)"""
    return any(rs not in ([], [["requirements", None]]) for f in d["fields"] for rs in f.get("requires", []))


def canon_key(d: dict) -> str:
    return json.dumps({k: v for k, v in d.items() if k != "name"}, sort_keys=True, default=str)


def argv_def(case: dict, name: str) -> dict:
    """a C22-generator case as a definition record of this module (fields only carry what the positions query needs)"""
    return {
        "flavor": "shell", "name": name, "empty": False, "xor": [], "argv_case": case,
        "fields": [{"name": f["name"], "kind": "argv:" + f["kind"], "requires": [], "position": f["position"]} for f in case["fields"]],
    }  # fmt: skip


def run_defs(ctx, defs: list[dict]):
    rows = []
    q = []
    for d in defs:
        obs, query, behaviour = impl_case(ctx, d, d.get("argv_case"))
        rows.append((d, obs, behaviour))
        q.append(query)
        if d["flavor"] == "shell":
            q.append({"op": "positions", "fields": [{"name": f["name"], "position": f.get("position")} for f in d["fields"]]})
        if "argv_case" in d:
            ctx.count("c22-generator")
            ctx.count("c22:outarg" if any(f["out"] for f in d["argv_case"]["fields"]) else "c22:no-outarg")
        ctx.count(f"flavor={d['flavor']}")
        n_out = len(obs["order"]["outputs"])
        if n_out >= 2:
            ctx.count("outputs>=2" + (":non-alphabetical" if obs["order"]["outputs"] != sorted(obs["order"]["outputs"]) else ""))
        ctx.count("requires" if any(f.get("requires") for f in d["fields"]) else "no-requires")
        ctx.count(f"structure:{obs['structure']}")
        if obs["structure"] == "ok":
            ctx.count(f"second:{obs['second']}")
        for f in d["fields"]:
            for k in ("argstr", "position", "sep", "help", "allowed_values"):
                if f.get(k) is not None:
                    ctx.count(f"meta:{k}")
    ans = ctx.driver("Roundtrip", q)
    k = 0
    for d, obs, behaviour in rows:
        a = pos = None
        if ans is not None:
            a = ans[k]
            k += 1
            if d["flavor"] == "shell":
                pos = ans[k]
                k += 1
        model = model_obs(a, pos)
        if a is not None and model is None:
            ctx.tie_broken.append({"kind": "model-driver", "detail": f"definition rejected by the model: {json.dumps(a)[:400]}", "case": d})
        if model is not None and a["ser_ok"] == mangled_requires(d):
            # the match rule of D53 is the negation of the Lean hypothesis `SerOKDef` of C32_roundtrip_partial
            ctx.tie_broken.append({"kind": "match-rule-vs-lean-SerOKDef", "case": d, "lean_ser_ok": a["ser_ok"]})
        if model is not None and "positions" not in model:
            obs = {k_: v for k_, v in obs.items() if k_ != "positions"}
        if model is not None and "argv" in obs and "argv" not in model:
            obs = {k_: v for k_, v in obs.items() if k_ != "argv"}
        spec_ok = (
            obs["structure"] == "ok"
            and obs["diffs"] == []
            and obs["shape_same"] is True
            and obs["rules_diff"] == 0
            and behaviour
            # the dictionary form is not consumed by its use (D54, repaired: regression demand)
            and obs["second"] == "ok"
            and obs["second_diffs"] == []
            and obs["dict_mutated"] is False
        )
        defect = None
        if not spec_ok:
            if mangled_requires(d):
                defect = "D53"
        meta = "argv_case" in d or any(f.get(k_) is not None for f in d["fields"] for k_ in ("argstr", "position", "sep", "help", "allowed_values"))
        nontrivial = bool(d["xor"]) or any(f.get("requires") for f in d["fields"]) or meta
        ctx.judge({"def": d}, obs, model, spec_ok, nontrivial=nontrivial, defect=defect, key=canon_key(d), what="unstructure/structure")


# --------------------------------------------------------------------------------------------------
# corpus

_F = lambda n, k, **kw: {"name": n, "kind": k, "requires": [], **kw}  # noqa: E731
W53 = {
    "flavor": "shell", "name": "W53", "empty": False, "xor": [],
    "fields": [_F("alpha", "optstr", requires=[[["beta", None]]], argstr="-a"), _F("beta", "optstr", argstr="-b")],
}  # fmt: skip
W53S = {
    "flavor": "shell", "name": "W53S", "empty": False, "xor": [],
    "fields": [_F("alpha", "optstr", requires=[[["beta", None]]], argstr="-a"), _F("beta", "optstr", argstr="-b"),
               _F("requirements", "optstr", argstr="-r")],
}  # fmt: skip
W53P = {
    "flavor": "python", "name": "W53P", "empty": False, "xor": [],
    "fields": [_F("alpha", "optstr", requires=[[["beta", ["x", "y"]]]]), _F("beta", "optstr")],
}  # fmt: skip
W54 = {
    "flavor": "python", "name": "W54", "empty": False, "xor": [["alpha", "flag"]],
    "fields": [_F("alpha", "optstr"), _F("flag", "bool")],
}  # fmt: skip
SHELL_OK = {
    "flavor": "shell", "name": "WOK", "empty": False, "xor": [["alpha", "flag", None]],
    "fields": [
        _F("alpha", "optstr", argstr="--alpha={alpha}", position=2, help="the first option", sep=","),
        _F("flag", "bool", argstr="-f", position=-1),
        _F("mode", "strd", argstr="-m", allowed_values=["d", "x", "y"]),
    ],
}  # fmt: skip


# field order (seeded change C32r2: outputs listed alphabetically by unstructure): several outputs declared in
# non-alphabetical order; python binds the returned tuple by position
ORDER_PY = {
    "flavor": "python", "name": "WORD", "empty": False, "xor": [], "outputs": ["zeta", "alpha", "mid"], "typed_outputs": False,
    "fields": [_F("tag", "optstr"), _F("flag", "bool")],
}  # fmt: skip
ORDER_PY_T = dict(ORDER_PY, name="WORDT", typed_outputs=True, outputs=["result", "count"])
ORDER_SH = {
    "flavor": "shell", "name": "WORDS", "empty": False, "xor": [],
    "fields": [_F("tag", "optstr", argstr="-t"), _F("zeta", "outopt", argstr="--zeta"), _F("alpha_out", "outopt", argstr="--alpha-out")],
}  # fmt: skip


def check_findings(ctx):
    """replay the witnesses of the known findings on the implementation"""
    from pydra.utils.general import structure, unstructure

    known = {f["id"] for f in ctx.known()}

    def attempt(d):
        cls = R.build(dict(d, name=d["name"] + "_probe"), ctx.scratch / "mods")
        dct = unstructure(cls)
        out = []
        for _ in range(2):
            try:
                out.append(("ok", structure(dct)))
            except Exception as e:  # noqa: BLE001
                out.append((core.exc_tag(e), None))
        return cls, out

    _, r53 = attempt(W53)
    cls_s, r53s = attempt(W53S)
    silent = False
    if r53s[0][0] == "ok":
        f1 = {f.name: f for f in user_fields(cls_s)[0]}
        f2 = {f.name: f for f in user_fields(r53s[0][1])[0]}
        silent = f1["alpha"].requires != f2["alpha"].requires
    _, r54 = attempt(W54)
    if "D53" in known:
        ctx.finding(
            "D53",
            r53[0][0] != "ok" and silent,
            f"structure(unstructure(T)) with alpha requiring beta -> {r53[0][0]}; with an extra field named 'requirements' -> "
            f"{r53s[0][0]}, requires changed: {silent}",
        )
    # D54 (repaired in the tree: structure() deep-copies): regression — the second use of the dictionary must succeed
    if "D54" in known:
        ctx.finding("D54", r54[0][0] == "ok" and r54[1][0] != "ok", f"python task: first structure -> {r54[0][0]}, second on the same dict -> {r54[1][0]}")
    elif not (r54[0][0] == "ok" and r54[1][0] == "ok"):
        ctx.violations.append({"kind": "regression-D54", "detail": f"python task: first structure -> {r54[0][0]}, second on the same dict -> {r54[1][0]}", "case": {"def": W54}})

def corpus(ctx):
    check_findings(ctx)
    run_defs(ctx, [W53, W53S, W53P, W54, SHELL_OK, ORDER_PY, ORDER_PY_T, ORDER_SH])
    cdir = core.VERIF / "corpus" / "rules"
    for f in sorted(cdir.glob("*.jsonl")):
        for line in f.read_text().splitlines():
            if line.strip():
                rec = json.loads(line)
                if rec.get("property") == "C32":
                    run_defs(ctx, [rec["def"]])


def gen_defs(ctx, n: int, tag: str) -> list[dict]:
    from harness.engines import argv as A

    out = []
    for i in range(n):
        name = f"R{tag}_{ctx.seed}_{i}"
        r = ctx.rng.random()
        if r < 0.25:  # the C22 generator's definitions (int/float/path/list/MultiInputObj fields, outargs, templated argstrs)
            case = A.gen_case(ctx.rng, word=A.safe_word, allow_bad_def=0.0)
            if case["fields"]:
                out.append(argv_def(case, name))
                continue
        r = ctx.rng.random()
        if r < 0.30:
            d = R.gen_meta_def(ctx.rng, name, with_requires=False)
        elif r < 0.40:
            d = R.gen_meta_def(ctx.rng, name, with_requires=True)
        else:
            d = R.gen_rules_def(ctx.rng, "python" if ctx.rng.random() < 0.5 else "shell", name)
            if ctx.rng.random() < 0.5:  # half of the C31 definitions without requirement sets: the round trip proper
                for f in d["fields"]:
                    f["requires"] = []
            for f in d["fields"]:
                if ctx.rng.random() < 0.3:
                    f["help"] = ctx.rng.choice(["the first option", "a flag", "x"])
        out.append(d)
    return out


def out_of_quantifier_observations(ctx):
    """Recorded, not judged: container / bytes defaults are not produced by the C22/C31 generators (META assumptions)."""
    from pydra.compose import python
    from pydra.utils.general import structure, unstructure

    src = (
        "def OOQ(a: dict = {'k': 1, 'j': 2}, b: bytes = b'ab', c: tuple = (1, 2), e=(1, 2)):\n"
        "    return (a, b, c, e)\n"
    )
    path = ctx.scratch / "mods" / "verif_rules_ooq.py"
    path.parent.mkdir(parents=True, exist_ok=True)
    path.write_text(src)
    import importlib.util

    spec = importlib.util.spec_from_file_location("verif_rules_ooq", path)
    mod = importlib.util.module_from_spec(spec)
    spec.loader.exec_module(mod)
    obs = {}
    try:
        cls = python.define(mod.OOQ, outputs=["out"])
        dct = unstructure(cls)
        obs["unstructured_defaults"] = {n: repr(v.get("default")) for n, v in dct["inputs"].items()}
        try:
            structure(dct)
            obs["structure"] = "ok"
        except Exception as e:  # noqa: BLE001
            obs["structure"] = core.exc_tag(e)
    except Exception as e:  # noqa: BLE001
        obs["error"] = core.exc_tag(e)
    ctx.extra["out_of_quantifier_observations"] = obs


def correspondence(ctx):
    core.assert_repo_loaded()
    corpus(ctx)
    out_of_quantifier_observations(ctx)
    run_defs(ctx, gen_defs(ctx, ctx.pick(36, 600), "c"))


def search(ctx):
    run_defs(ctx, gen_defs(ctx, ctx.pick(150, 600), "s"))


def replay(ctx, rec):
    check_findings(ctx)
    run_defs(ctx, [rec["case"]["def"]])  # a C22-generator case travels inside the record ("argv_case")
