"""C10 — Concurrent submitters of one job share a single execution (DESIGN §6 C10, engine JobProto §5.4).

Correspondence device (iii): 2–4 REAL processes (forked from the zygote) submit the same task into one cache root.
Their progress is gated at the guarded hook points by the token files of pydra/utils/verif_hooks.py (`gates/`,
`waiting/`, `release/`), so an interleaving — when each submitter starts, which waiting submitter moves on to its next
hook point — is imposed step by step; the only thing the harness does not choose (which of several blocked
submitters gets a freed lock) is observed and recorded.  The concrete event sequence is then replayed on the Lean
interleaving model (`interleave` of the driver: `gstep` of JobProto/Conc.lean on the GENERATED skeleton) and the
status of every process after every event, the execution counter and every submitter's result are compared.
Synchronisation is by files and process exits only (never by sleeping); every wait has a generous watchdog.
Also: ungated races (k processes started at once), checked against the property only.
"""

from __future__ import annotations

import shutil
import time
from pathlib import Path

from harness import core
from harness.engines import jobproto as jp
from harness.extractors import job_skeleton
from harness.extractors.job_skeleton import extract_job_skeleton
from harness.props.C12 import py_positions

META = {
    "engine": "JobProto",
    "category": "proof",
    "design_ref": "§6 C10, §5.4",
    "technique": "Lean 4: invariant by induction over interleavings (any number of processes, single-action granularity, "
    "process deaths) for mutual exclusion and lock discipline; decidable syntactic predicate LockDiscipline evaluated on the "
    "skeleton REGENERATED from Job.run / Job.run_async; exactly-once by induction over serialized calls; "
    "gated multi-process replays on the real code",
    "text": "Lean theorems, unbounded in the number of processes and the length of the interleaving: C10_mutex / C10_marker — "
    "for programs that touch lock markers only through `with` blocks, at most one live process is inside the job lock and "
    "it is the one the marker names (lock contract of DESIGN §4); C10_access_locked — for programs satisfying the decidable "
    "predicate LockDiscipline every write to the job directory and every load of the cached result happens inside the job "
    "lock; C10_discipline — LockDiscipline holds for the generated Job.run and Job.run_async (evaluated on the current "
    "source); C10_once (+_async) — any number of submitters in any order, no rerun, body succeeds, no crash: the body is "
    "entered exactly once and every submitter returns the same complete good result; C10_no_partial — a load never yields "
    "a partial result.  C10_once is stated for serialized calls (withLock-shaped programs); the reduction from the "
    "fine-grained interleaving to the serialized one rests on the first two theorems and is not mechanised.",
    "note": "Trusted: Lean kernel; AST skeleton extractor; hand-written action semantics and interleaving semantics "
    "(JobProto/Conc.lean); lock contract of filelock 3.32.6 SoftFileLock (sampled by the replays).",
    "rule": "case = (number of submitters, result pre-existing?, gate set, sequence of start/release/acquired events) or an "
    "ungated race (k, worker, task); distinct by canonical JSON; non-trivial = >= 2 submitters",
    "assumptions": [
        "filelock.SoftFileLock 3.32.6: atomic exclusive create; a live holder's marker is never broken (no lifetime configured)",
        "the fine-grained interleaving can be serialized (Lipton reduction) — argued from C10_mutex + C10_access_locked, not mechanised",
    ],
    "trusted": ["hand-written interleaving semantics (JobProto/Conc.lean) and harness/extractors/job_skeleton.py"],
}

_NS = "PydraModel.JobProto."
OBLIGATIONS = [
    _NS + n
    for n in (
        "C10_mutex",
        "C10_marker",
        "C10_access_locked",
        "C10_discipline",
        "C10_once",
        "C10_once_async",
        "C10_no_partial",
        "C10_small_big",
        "CheckC10.callGood_run",
        "CheckC10.callGood_async",
        "CheckC10.discipline_run",
        "CheckC10.discipline_async",
        "mutexInv_run",
        "discInv_run",
        "serial_once",
    )
]
LEAN_TARGETS = ["PydraModel.Props.C10", "Drivers.JobProto"]
MODEL_TARGETS = ["PydraModel.JobProto.Conc", "PydraModel.Gen.JobSkeleton", "PydraModel.DriverUtil", "Drivers.JobProto"]
EXTRACTORS = [extract_job_skeleton]

GATES_QUICK = ["run.lock_acquired", "run.will_execute", "run.body.before", "run.save.before", "run.save.after",
               "run.cwd_restored", "run.lock_released"]  # fmt: skip
INSIDE_LAST = "run.cwd_restored"  # the last hook point inside `with <job lock>:`
OUTSIDE = "run.lock_released"  # the hook point after the lock has been released


def all_run_gates(sk) -> list[str]:
    out = []
    for a in job_skeleton.flatten(sk["run"]):
        if a[0] == "vp" and a[1].startswith("run.") and a[1] not in out:
            out.append(a[1])
    return out


class Mismatch(Exception):
    """the real processes did not behave as the gating protocol expects (reported as a broken tie / violation)"""


class Replay:
    """drives n real submitters through an interleaving"""

    def __init__(self, ctx, zy, n: int, pre: bool, gates: list[str], num: int):
        self.ctx, self.zy, self.n, self.gates = ctx, zy, n, gates
        self.base = ctx.scratch / f"il{num}"
        for d in ("ctl", "cache", "v"):
            (self.base / d).mkdir(parents=True)
        self.spec = {"task": "py", "x": 1, "ctl": str(self.base / "ctl"), "cache": str(self.base / "cache"), "worker": "debug"}
        self.G = jp.Gates(self.base / "v")
        self.pre = pre
        if pre:
            r = zy.run({**self.spec, "env": {}})
            if r["hang"] or (r["report"] or {}).get("outcome") != "ok":
                raise core.Infra(f"could not create the pre-existing result: {r}")
            Path(self.spec["ctl"], "execs.log").unlink()
        self.G.gate(*gates)
        self.h: dict[int, dict] = {}  # index -> zygote handle
        self.state: dict[int, str] = {}  # index -> "blocked" | "waiting:<point>" | "ended"
        self.tag: dict[int, str] = {}
        self.holder: int | None = None
        self.events: list[dict] = []
        self.status_log: list[list[str]] = []
        self.results: dict[int, dict] = {}

    # -- observation ---------------------------------------------------------------------------------------------
    def _finished(self, i: int) -> bool:
        return Path(self.h[i]["out"]).exists()

    def _await(self, i: int, timeout=jp.WATCHDOG):
        """wait until submitter i waits at a gate (-> point) or has finished (-> None)"""
        pid = self.h[i]["pid"]
        deadline = time.time() + timeout
        while time.time() < deadline:
            for tag in self.G.waiting():
                tp, _, rest = tag.partition(".")
                if tp == str(pid):
                    self.tag[i] = tag
                    return rest.rsplit(".", 1)[0]
            if self._finished(i):
                return None
            time.sleep(0.003)
        raise Mismatch(f"submitter {i} neither reached a gate nor finished within {timeout:.0f} s")

    def _collect(self, i: int):
        r = self.zy.wait(self.h[i], jp.WATCHDOG)
        self.results[i] = r
        self.state[i] = "ended"

    def _settle(self, i: int):
        point = self._await(i)
        if point is None:
            self._collect(i)
        else:
            self.state[i] = f"waiting:{point}"
        return point

    def _lock_freed(self):
        """the holder has left the lock: one of the blocked submitters (if any) gets it — observe which"""
        self.holder = None
        blocked = [i for i, s in self.state.items() if s == "blocked"]
        if not blocked:
            return
        deadline = time.time() + jp.WATCHDOG
        while time.time() < deadline:
            for i in blocked:
                pid = self.h[i]["pid"]
                for tag in self.G.waiting():
                    if tag.startswith(f"{pid}."):
                        self.tag[i] = tag
                        point = tag.partition(".")[2].rsplit(".", 1)[0]
                        if point != "run.lock_acquired":
                            raise Mismatch(f"submitter {i} passed the lock without stopping at run.lock_acquired ({point})")
                        self.state[i] = f"waiting:{point}"
                        self.holder = i
                        self.events.append({"ev": "acquired", "pid": i})
                        self._log()
                        return
            time.sleep(0.003)
        raise Mismatch(f"the lock was released but none of the blocked submitters {blocked} acquired it")

    def _log(self):
        self.status_log.append([self.state.get(i, "notStarted") for i in range(self.n)])

    # -- operations ----------------------------------------------------------------------------------------------
    def start(self, i: int):
        self.h[i] = self.zy.spawn({**self.spec, "env": {"NIPYPE_PYDRA_VERIF_DIR": str(self.base / "v"),
                                                        "NIPYPE_PYDRA_VERIF_GATE_TIMEOUT": str(int(jp.WATCHDOG * 3))}})  # fmt: skip
        self.events.append({"ev": "start", "pid": i})
        if self.holder is None:
            point = self._settle(i)
            if point is not None:
                if point != "run.lock_acquired":
                    raise Mismatch(f"submitter {i} first stopped at {point}")
                self.holder = i
        else:
            self.state[i] = "blocked"  # the lock is held by a submitter that waits at a gate
        self._log()

    def release(self, i: int):
        was = self.state[i]
        self.events.append({"ev": "release", "pid": i})
        self.G.release(self.tag[i])
        point = self._settle(i)
        self._log()
        inside_before = i == self.holder
        if inside_before and (point is None or point == OUTSIDE):
            self._lock_freed()
        return was

    def waiting(self) -> list[int]:
        return [i for i, s in self.state.items() if s.startswith("waiting:")]

    def finish(self):
        guard = 0
        while any(s != "ended" for s in self.state.values()):
            guard += 1
            if guard > 400:
                raise Mismatch("the submitters did not all finish")
            w = self.waiting()
            if not w:
                raise Mismatch(f"nobody is waiting at a gate but not everybody has finished: {self.state}")
            # prefer the holder, so that blocked submitters get their turn
            self.release(self.holder if self.holder in w else w[0])

    def observe(self) -> dict:
        chk = jp.checksum(self.spec)
        o = jp.observe(self.spec["cache"], chk, self.spec["ctl"])
        subs = []
        for i in range(self.n):
            r = self.results.get(i)
            rep = (r or {}).get("report") or {}
            subs.append({"outcome": rep.get("outcome") if r and not r["hang"] else "hang", "outputs": rep.get("outputs"),
                         "cwd": rep.get("cwd"), "msg": (rep.get("msg") or "")[-200:]})  # fmt: skip
        return {"execs": o["execs"], "result": o["result"], "jobLock": o["jobLock"], "info": o["info"], "submitters": subs}

    def cleanup(self):
        for i, h in self.h.items():
            if self.state.get(i) != "ended":
                try:
                    self.zy.kill(h)
                except Exception:
                    pass
        shutil.rmtree(self.base, ignore_errors=True)


def run_interleaving(ctx, zy, case: dict, num: int) -> dict:
    """case = {"n", "pre", "gates", "plan": [("start"|"step", …)] or None (random from case["seed"])}"""
    import random

    rng = random.Random(case["seed"])
    rp = Replay(ctx, zy, case["n"], case["pre"], case["gates"], num)
    err = None
    try:
        to_start = list(range(case["n"]))
        budget = case.get("steps", 40)
        rp.start(to_start.pop(0))
        while to_start and budget > 0:
            budget -= 1
            w = rp.waiting()
            if to_start and (not w or rng.random() < 0.45):
                rp.start(to_start.pop(0))
            elif w:
                rp.release(rng.choice(w))
        for i in to_start:
            rp.start(i)
        rp.finish()
    except Mismatch as e:
        err = str(e)
    obs = rp.observe() if err is None else {"mismatch": err, "state": dict(rp.state)}
    out = {"events": rp.events, "status": rp.status_log, "obs": obs, "mismatch": err}
    rp.cleanup()
    return out


def model_query(case: dict, run: dict) -> dict:
    return {"op": "interleave", "prog": "run", "n": case["n"], "dir": bool(case["pre"]), "result": "ok" if case["pre"] else "absent",
            "gates": case["gates"], "events": run["events"]}  # fmt: skip


def compare_views(case, run, ans):
    """-> (impl observable, model observable): statuses after the events where the model has nobody 'running', and the
    final observables"""
    exp = jp.expected_outputs({"task": "py", "x": 1})
    impl_st, model_st = [], []
    for k, st in enumerate(run["status"]):
        m = ans["status"][k] if k < len(ans["status"]) else ["?"]
        if "running" in m:
            continue  # a blocked submitter is about to take the freed lock: compared after the `acquired` event
        impl_st.append(st)
        model_st.append([("ended" if s.startswith("ended:") else s) for s in m])
    o = run["obs"]
    impl = {"status": impl_st, "execs": o["execs"], "result": o["result"], "lock_free": o["jobLock"] == "free", "info": o["info"],
            "submitters": [{"ok": s["outcome"] == "ok" and s["outputs"] == exp, "cwd": s["cwd"]} for s in o["submitters"]]}  # fmt: skip
    model = {"status": model_st, "execs": ans["execs"], "result": ans["result"], "lock_free": ans["jobLock"] is None,
             "info": sum(1 for p in ans["procs"] if p["info"]),
             "submitters": [{"ok": p["ended"] == "returning" and p["resVar"] == "ok", "cwd": p["cwd"]} for p in ans["procs"]]}  # fmt: skip
    return impl, model


def once_ok(pre: bool, obs: dict, n: int) -> tuple[bool, str]:
    exp = jp.expected_outputs({"task": "py", "x": 1})
    want = 0 if pre else 1
    if obs["execs"] != want:
        return False, f"the task body ran {obs['execs']} times for {n} submitters (expected {want})"
    for i, s in enumerate(obs["submitters"]):
        if s["outcome"] != "ok":
            return False, f"submitter {i}: {s['outcome']} {s['msg']}"
        if s["outputs"] != exp:
            return False, f"submitter {i} returned {s['outputs']}"
    if obs["result"] != "ok":
        return False, f"result file is {obs['result']}"
    return True, ""


# ------------------------------------------------------------------------------------------------------------------
# ungated races


def run_race(ctx, zy, case: dict, num: int) -> dict:
    b = ctx.scratch / f"race{num}"
    for d in ("ctl", "cache"):
        (b / d).mkdir(parents=True)
    spec = {"task": case["task"], "x": 1, "ctl": str(b / "ctl"), "cache": str(b / "cache"), "worker": case["worker"]}
    if case["pre"]:
        r = zy.run({**spec, "env": {}})
        if r["hang"]:
            raise core.Infra("race: could not create the pre-existing result")
        for f in (b / "ctl").glob("execs.log"):
            f.unlink()
    if case.get("slow"):
        (b / "ctl" / "gate_body").touch()
    hs = [zy.spawn({**spec, "env": {}}) for _ in range(case["n"])]
    if case.get("slow") and not case["pre"]:
        # wait (on a file, not on time) until a body has been entered, give the others the chance to contend, let it go
        deadline = time.time() + jp.WATCHDOG
        while not (b / "ctl" / "waiting_body").exists() and time.time() < deadline:
            time.sleep(0.003)
    (b / "ctl" / "release_body").touch()
    rs = [zy.wait(h, jp.WATCHDOG) for h in hs]
    chk = jp.checksum(spec)
    o = jp.observe(spec["cache"], chk, spec["ctl"])
    subs = [{"outcome": ((r["report"] or {}).get("outcome") if not r["hang"] else "hang"), "outputs": (r["report"] or {}).get("outputs"),
             "cwd": (r["report"] or {}).get("cwd"), "msg": ((r["report"] or {}).get("msg") or "")[-200:]} for r in rs]  # fmt: skip
    shutil.rmtree(b, ignore_errors=True)
    return {"execs": o["execs"], "result": o["result"], "jobLock": o["jobLock"], "info": o["info"], "submitters": subs}


def race_ok(case, obs) -> tuple[bool, str]:
    exp = jp.expected_outputs({"task": case["task"], "x": 1})
    want = 0 if case["pre"] else 1
    if obs["execs"] != want:
        return False, f"the task body ran {obs['execs']} times for {case['n']} submitters (expected {want})"
    for i, s in enumerate(obs["submitters"]):
        if s["outcome"] != "ok" or s["outputs"] != exp:
            return False, f"submitter {i}: {s['outcome']} {s['outputs']} {s['msg']}"
    return True, ""


# ------------------------------------------------------------------------------------------------------------------


def gen_cases(ctx, big: bool):
    sk = jp.safe_skeletons(ctx)
    allg = all_run_gates(sk) if sk is not None else list(GATES_QUICK)
    ils = []
    plan = [(2, False), (2, True), (3, False)] if not big else [(2, False)] * 6 + [(2, True)] * 3 + [(3, False)] * 6 + [(3, True)] * 2 + [(4, False)] * 4
    for n, pre in plan:
        gates = GATES_QUICK if (not big or ctx.rng.random() < 0.5) else allg
        ils.append({"kind": "interleaving", "n": n, "pre": pre, "gates": gates, "seed": ctx.rng.randrange(10**9), "steps": 12 if not big else 40})
    races = [{"kind": "race", "n": 3, "pre": False, "task": "py", "worker": "debug", "slow": True}]
    if big:
        for n in (2, 3, 4):
            for pre in (False, True):
                for slow in (False, True):
                    races.append({"kind": "race", "n": n, "pre": pre, "task": "py", "worker": "debug", "slow": slow})
        races += [{"kind": "race", "n": 3, "pre": False, "task": "wf", "worker": "debug", "slow": True},
                  {"kind": "race", "n": 2, "pre": False, "task": "wf", "worker": "cf", "slow": True},
                  {"kind": "race", "n": 3, "pre": False, "task": "sh", "worker": "debug", "slow": False},
                  {"kind": "race", "n": 2, "pre": False, "task": "py", "worker": "cf", "slow": True}]  # fmt: skip
    return ils, races


def run_all(ctx, ils, races):
    core.assert_repo_loaded()
    zy = jp.Zygote(ctx.scratch)
    try:
        if not getattr(ctx, "_skel_done", False):
            sk = jp.safe_skeletons(ctx)
            jp.validate_skeleton(ctx, zy, None if sk is None else py_positions(sk["run"]))
            ctx._skel_done = True
        runs = [run_interleaving(ctx, zy, c, k) for k, c in enumerate(ils)]
        robs = [run_race(ctx, zy, c, k) for k, c in enumerate(races)]
    finally:
        zy.close()
    good = [(c, r) for c, r in zip(ils, runs) if r["mismatch"] is None]
    ans = ctx.driver("JobProto", [model_query(c, r) for c, r in good]) if good else []
    k = 0
    for c, r in zip(ils, runs):
        case = {**c, "events": r["events"]}
        ctx.count(f"interleaving:n={c['n']}/pre={c['pre']}/gates={len(c['gates'])}")
        ctx.count("events", len(r["events"]))
        if r["mismatch"] is not None:
            # the processes did not follow the gating protocol: the correspondence does not check on this case
            ctx.tie_broken.append({"kind": "gating-protocol", "case": case, "detail": r["mismatch"], "obs": r["obs"]})
            continue
        ok, why = once_ok(c["pre"], r["obs"], c["n"])
        impl, model = None, None
        if ans is not None:
            a = ans[k]
            if "error" in a:
                impl, model = {"events": len(r["events"])}, {"error": a["error"]}
            else:
                impl, model = compare_views(c, r, a)
        k += 1
        ctx.judge(case, impl if impl is not None else r["obs"], model, ok, what=why or "gated interleaving of real submitters",
                  key=f"il/{c['n']}/{c['pre']}/{len(c['gates'])}/" + ",".join(f"{e['ev'][0]}{e['pid']}" for e in r["events"]))  # fmt: skip
    for c, o in zip(races, robs):
        ok, why = race_ok(c, o)
        ctx.count(f"race:{c['task']}/{c['worker']}/n={c['n']}/pre={c['pre']}")
        ctx.judge(c, {"execs": o["execs"], "ok": [s["outcome"] for s in o["submitters"]]}, None, ok, what=why or "ungated race")


def correspondence(ctx):
    import json

    ils, races = gen_cases(ctx, not ctx.quick)
    p = core.VERIF / "corpus" / "jobproto" / "c10_interleavings.jsonl"
    corpus = [json.loads(line)["case"] for line in p.read_text().splitlines() if line.strip()]
    run_all(ctx, corpus + ils, races)


def search(ctx):
    ils, races = gen_cases(ctx, True)
    run_all(ctx, ils, races)


def replay(ctx, rec):
    c = rec["case"]
    c = {k: v for k, v in c.items() if k != "events"}
    if c.get("kind") == "race":
        run_all(ctx, [], [c])
    else:
        run_all(ctx, [c], [])
