"""C10 — Concurrent submitters of one job share a single execution (DESIGN §6 C10, engine JobProto §5.4).

Correspondence device (iii): 2–4 REAL processes (forked from the zygote) submit the same task into one cache root.
Their progress is gated at the guarded hook points by the token files of pydra/utils/verif_hooks.py (`gates/`,
`waiting/`, `release/`), so an interleaving — when each submitter starts, which waiting submitter moves on to its next
hook point — is imposed step by step; the only thing the harness does not choose (which of several blocked
submitters gets a freed lock) is observed and recorded.  The concrete event sequence is then replayed on the Lean
interleaving model (`interleave` of the driver: `gstep` of JobProto/Conc.lean on the GENERATED skeleton) and the
status of every process after every event, the execution counter and every submitter's result are compared.
Synchronisation is by files and process exits only (never by sleeping); every wait has a generous watchdog.
Also: ungated races (k processes started at once), checked against the property only.
"""

from __future__ import annotations

import shutil
import time
from pathlib import Path

from harness import core
from harness.engines import jobproto as jp
from harness.extractors import job_skeleton
from harness.extractors.job_skeleton import extract_job_skeleton
from harness.props.C12 import py_positions

META = {
    "engine": "JobProto",
    "category": "proof",
    "design_ref": "§6 C10, §5.4",
    "technique": "Lean 4: invariant by induction over interleavings (any number of processes, single-action granularity, "
    "process deaths) for mutual exclusion and lock discipline; decidable syntactic predicate LockDiscipline evaluated on the "
    "skeleton REGENERATED from Job.run / Job.run_async; exactly-once by induction over serialized calls; "
    "gated multi-process replays on the real code",
    "text": "Lean theorems, unbounded in the number of processes and the length of the interleaving: C10_mutex / C10_marker — "
    "for programs that touch lock markers only through `with` blocks, at most one live process is inside the job lock and "
    "it is the one the marker names (lock contract of DESIGN §4); C10_access_locked — for programs satisfying the decidable "
    "predicate LockDiscipline every write to the job directory and every load of the cached result happens inside the job "
    "lock; C10_discipline — LockDiscipline holds for the generated Job.run and Job.run_async (evaluated on the current "
    "source); C10_once (+_async) — any number of submitters in any order, no rerun, body succeeds, no crash: the body is "
    "entered exactly once and every submitter returns the same complete good result; C10_no_partial — a load never yields "
    "a partial result.  C10_once_interleaved (+_async): the reduction from the single-action interleaving semantics "
    "to serial calls is mechanised (JobProto/Reduction.lean: mover lemma C10_mover + prophecy invariant + small-step = "
    "big-step C10_small_big) — for any number of processes and ANY interleaving (no deaths, no rerun, body succeeds, any "
    "legal initial result file) every ended submitter has returned the complete good result and the body was entered "
    "exactly once (never if the good result was cached); the finite premise InitGood is evaluated on the regenerated "
    "skeletons.",
    "note": "Trusted: Lean kernel; AST skeleton extractor; hand-written action semantics and interleaving semantics "
    "(JobProto/Conc.lean); lock contract of filelock 3.32.6 SoftFileLock (sampled by the replays).",
    "rule": "case = (number of submitters, result pre-existing?, gate set, sequence of start/release/acquired events) or an "
    "ungated race (k, worker, task); distinct by canonical JSON; non-trivial = >= 2 submitters",
    "assumptions": [
        "filelock.SoftFileLock 3.32.6: atomic exclusive create; a live holder's marker is never broken (no lifetime configured)",
        "C10_once_interleaved is stated without process deaths (deaths are covered by C10_mutex and by C12)",
    ],
    "trusted": ["hand-written interleaving semantics (JobProto/Conc.lean) and harness/extractors/job_skeleton.py"],
}

_NS = "PydraModel.JobProto."
OBLIGATIONS = [
    _NS + n
    for n in (
        "C10_mutex",
        "C10_marker",
        "C10_access_locked",
        "C10_discipline",
        "C10_once",
        "C10_once_async",
        "C10_no_partial",
        "C10_small_big",
        "C10_mover",
        "C10_once_interleaved",
        "C10_once_interleaved_async",
        "CheckC10.initGood_run",
        "CheckC10.initGood_async",
        "red_step",
        "once_interleaved",
        "CheckC10.callGood_run",
        "CheckC10.callGood_async",
        "CheckC10.discipline_run",
        "CheckC10.discipline_async",
        "mutexInv_run",
        "discInv_run",
        "serial_once",
    )
]
LEAN_TARGETS = ["PydraModel.Props.C10", "Drivers.JobProto"]
MODEL_TARGETS = ["PydraModel.JobProto.Conc", "PydraModel.Gen.JobSkeleton", "PydraModel.DriverUtil", "Drivers.JobProto"]
EXTRACTORS = [extract_job_skeleton]

GATES_QUICK = ["run.lock_acquired", "run.will_execute", "run.body.before", "run.save.before", "run.save.after",
               "run.cwd_restored", "run.lock_released"]  # fmt: skip
INSIDE_LAST = "run.cwd_restored"  # the last hook point inside `with <job lock>:`
OUTSIDE = "run.lock_released"  # the hook point after the lock has been released


def all_run_gates(sk) -> list[str]:
    out = []
    for a in job_skeleton.flatten(sk["run"]):
        if a[0] == "vp" and a[1].startswith("run.") and a[1] not in out:
            out.append(a[1])
    return out


PRE_KINDS = ("none", "ok", "err", "torn")
PRE_MODEL = {"none": (False, "absent"), "ok": (True, "ok"), "err": (True, "err"), "torn": (True, "trunc")}


def norm_pre(pre) -> str:
    return {False: "none", True: "ok"}.get(pre, pre)


def make_pre(zy, spec: dict, pre: str):
    """put the pre-existing result on disk: nothing / complete ok / complete ERRORED / torn (a strict prefix)"""
    pre = norm_pre(pre)
    if pre == "none":
        return
    ctl = Path(spec["ctl"])
    if pre == "err":
        (ctl / "fail").touch()
    r = zy.run({**spec, "env": {}, "hooks": None})
    if pre == "err":
        (ctl / "fail").unlink()
    # what counts is the result file the set-up run leaves behind, not how the failure is reported to the caller (the
    # debug worker re-raises the ValueError of the body, asynchronous workers report a RuntimeError with the recorded error)
    outcome = (r["report"] or {}).get("outcome")
    state = jp._file_state(Path(spec["cache"]) / jp.checksum(spec) / "_result.pklz", "result")
    good = (outcome != "ok" and state == "err") if pre == "err" else (outcome == "ok" and state == "ok")
    if r["hang"] or not good:
        raise core.Infra(f"could not create the pre-existing {pre} result (result file: {state}): {r}")
    if pre == "torn":
        f = Path(spec["cache"]) / jp.checksum(spec) / "_result.pklz"
        data = f.read_bytes()
        f.write_bytes(data[: len(data) // 2])
    for name in ("execs.log", "hooks.log", "hooks_pid.log"):
        if (ctl / name).exists():
            (ctl / name).unlink()


def pre_lock_load(sk) -> bool:
    """does the skeleton load the cached result BEFORE taking the job lock? (decides what a blocked submitter has
    done by the time it blocks; read off the regenerated skeleton tree)"""
    if sk is None:
        return False
    for a in job_skeleton.flatten(sk["run"]):
        if a == ("acq", "job"):
            return False
        if a == ("act", "loadResult"):
            return True
    return False


class Budget:
    """wall-clock budget of the behavioural part: when it is used up the remaining cases are skipped (noted in the
    evidence), so that the check ends promptly whatever the tree does"""

    def __init__(self, seconds: float):
        self.deadline = time.time() + seconds

    def left(self) -> float:
        return self.deadline - time.time()

    def watchdog(self) -> float:
        # a single wait always gets the full watchdog (cutting it short on a loaded machine would turn slowness into a
        # false "stuck"); the budget bounds HOW MANY cases are started, and at most MAX_STUCK replays may get stuck
        return jp.WATCHDOG


class Mismatch(Exception):
    """the real processes did not behave as the gating protocol expects (reported as a broken tie / violation)"""


class Replay:
    """drives n real submitters through an interleaving"""

    def __init__(self, ctx, zy, n: int, pre, gates: list[str], num: int, budget: "Budget", pre_load: bool):
        self.ctx, self.zy, self.n, self.gates = ctx, zy, n, gates
        self.budget, self.pre_load = budget, pre_load
        self.base = ctx.scratch / f"il{num}"
        for d in ("ctl", "cache", "v"):
            (self.base / d).mkdir(parents=True)
        self.spec = {"task": "py", "x": 1, "ctl": str(self.base / "ctl"), "cache": str(self.base / "cache"), "worker": "debug",
                     "hooks": "count"}  # fmt: skip
        self.G = jp.Gates(self.base / "v")
        self.pre = norm_pre(pre)
        make_pre(zy, self.spec, self.pre)
        self.G.gate(*gates)
        self.h: dict[int, dict] = {}  # index -> zygote handle
        self.state: dict[int, str] = {}  # index -> "blocked" | "waiting:<point>" | "ended"
        self.tag: dict[int, str] = {}
        self.holder: int | None = None
        self.events: list[dict] = []
        self.status_log: list[list[str]] = []
        self.results: dict[int, dict] = {}

    # -- observation ---------------------------------------------------------------------------------------------
    def _finished(self, i: int) -> bool:
        return Path(self.h[i]["out"]).exists()

    def _await(self, i: int, timeout=None):
        """wait until submitter i waits at a gate (-> point) or has finished (-> None)"""
        pid = self.h[i]["pid"]
        timeout = self.budget.watchdog() if timeout is None else timeout
        deadline = time.time() + timeout
        while time.time() < deadline:
            for tag in self.G.waiting():
                tp, _, rest = tag.partition(".")
                if tp == str(pid):
                    self.tag[i] = tag
                    return rest.rsplit(".", 1)[0]
            if self._finished(i):
                return None
            time.sleep(0.003)
        raise Mismatch(f"submitter {i} neither reached a gate nor finished within {timeout:.0f} s")

    def _collect(self, i: int):
        r = self.zy.wait(self.h[i], self.budget.watchdog())
        self.results[i] = r
        self.state[i] = "ended"

    def _settle(self, i: int):
        point = self._await(i)
        if point is None:
            self._collect(i)
        else:
            self.state[i] = f"waiting:{point}"
        return point

    def _lock_freed(self):
        """the holder has left the lock: one of the blocked submitters (if any) gets it — observe which"""
        self.holder = None
        blocked = [i for i, s in self.state.items() if s == "blocked"]
        if not blocked:
            return
        deadline = time.time() + self.budget.watchdog()
        while time.time() < deadline:
            for i in blocked:
                pid = self.h[i]["pid"]
                for tag in self.G.waiting():
                    if tag.startswith(f"{pid}."):
                        self.tag[i] = tag
                        point = tag.partition(".")[2].rsplit(".", 1)[0]
                        if point != "run.lock_acquired":
                            raise Mismatch(f"submitter {i} passed the lock without stopping at run.lock_acquired ({point})")
                        self.state[i] = f"waiting:{point}"
                        self.holder = i
                        self.events.append({"ev": "acquired", "pid": i})
                        self._log()
                        return
            time.sleep(0.003)
        raise Mismatch(f"the lock was released but none of the blocked submitters {blocked} acquired it")

    def _log(self):
        self.status_log.append([self.state.get(i, "notStarted") for i in range(self.n)])

    # -- operations ----------------------------------------------------------------------------------------------
    def start(self, i: int):
        self.h[i] = self.zy.spawn({**self.spec, "env": {"NIPYPE_PYDRA_VERIF_DIR": str(self.base / "v"),
                                                        "NIPYPE_PYDRA_VERIF_GATE_TIMEOUT": str(int(jp.WATCHDOG * 3))}})  # fmt: skip
        self.events.append({"ev": "start", "pid": i})
        if self.holder is None:
            point = self._settle(i)
            if point is not None:
                if point != "run.lock_acquired":
                    raise Mismatch(f"submitter {i} first stopped at {point}")
                self.holder = i
        else:
            self.state[i] = "blocked"  # the lock is held by a submitter that waits at a gate
            if self.pre_load:
                self._await_prelock(i)
        self._log()

    def _await_prelock(self, i: int):
        """the regenerated skeleton loads the result before taking the lock: wait (on the event log, not on time)
        until submitter i has got there; if the result on disk is complete and good (the lock holder stands still at
        a gate, so the file is stable) the submitter returns through that fast path: wait for its exit"""
        pid = self.h[i]["pid"]
        deadline = time.time() + self.budget.watchdog()
        log = self.base / "v" / "events.log"
        res = Path(self.spec["cache"]) / jp.checksum(self.spec) / "_result.pklz"
        while time.time() < deadline:
            seen = log.exists() and any(line.startswith(f"{pid} load_result") for line in log.read_text().splitlines())
            if seen or self._finished(i):
                if self._finished(i) or jp._file_state(res, "result") == "ok":
                    while not self._finished(i) and time.time() < deadline:
                        time.sleep(0.003)
                    if not self._finished(i):
                        raise Mismatch(f"submitter {i} found a good result before the lock but did not return")
                    self._collect(i)
                return
            time.sleep(0.003)
        raise Mismatch(f"submitter {i} did not reach its pre-lock load of the result")

    def release(self, i: int):
        was = self.state[i]
        self.events.append({"ev": "release", "pid": i})
        self.G.release(self.tag[i])
        point = self._settle(i)
        self._log()
        inside_before = i == self.holder
        if inside_before and (point is None or point == OUTSIDE):
            self._lock_freed()
        return was

    def waiting(self) -> list[int]:
        return [i for i, s in self.state.items() if s.startswith("waiting:")]

    def finish(self):
        guard = 0
        while any(s != "ended" for s in self.state.values()):
            guard += 1
            if guard > 400:
                raise Mismatch("the submitters did not all finish")
            w = self.waiting()
            if not w:
                raise Mismatch(f"nobody is waiting at a gate but not everybody has finished: {self.state}")
            # prefer the holder, so that blocked submitters get their turn
            self.release(self.holder if self.holder in w else w[0])

    def observe(self) -> dict:
        chk = jp.checksum(self.spec)
        o = jp.observe(self.spec["cache"], chk, self.spec["ctl"])
        subs = []
        for i in range(self.n):
            r = self.results.get(i)
            rep = (r or {}).get("report") or {}
            subs.append({"outcome": rep.get("outcome") if r and not r["hang"] else "hang", "outputs": rep.get("outputs"),
                         "cwd": rep.get("cwd"), "msg": (rep.get("msg") or "")[-200:]})  # fmt: skip
        return {"execs": o["execs"], "result": o["result"], "jobLock": o["jobLock"], "info": o["info"], "submitters": subs}

    def cleanup(self):
        for i, h in self.h.items():
            if self.state.get(i) != "ended":
                try:
                    self.zy.kill(h)
                except Exception:
                    pass
        shutil.rmtree(self.base, ignore_errors=True)


def run_interleaving(ctx, zy, case: dict, num: int, budget: Budget, pre_load: bool) -> dict:
    """case = {"n", "pre", "gates", "plan": "random" (from case["seed"]) | "burst"}.  "burst": every later submitter
    starts — and gets as far as it can without the lock — while the first one waits at its first hook point, i.e.
    before the first one has populated the job directory; then the submitters are stepped to the end."""
    import random

    rng = random.Random(case["seed"])
    rp = Replay(ctx, zy, case["n"], case["pre"], case["gates"], num, budget, pre_load)
    err = None
    try:
        to_start = list(range(case["n"]))
        steps = case.get("steps", 40)
        rp.start(to_start.pop(0))
        if case.get("plan") == "burst":
            while to_start:
                rp.start(to_start.pop(0))
        while to_start and steps > 0:
            steps -= 1
            w = rp.waiting()
            if to_start and (not w or rng.random() < 0.45):
                rp.start(to_start.pop(0))
            elif w:
                rp.release(rng.choice(w))
        for i in to_start:
            rp.start(i)
        rp.finish()
    except Mismatch as e:
        err = str(e)
    obs = rp.observe() if err is None else {"outcome": "stuck", "mismatch": err, "state": dict(rp.state)}
    out = {"events": rp.events, "status": rp.status_log, "obs": obs, "mismatch": err}
    rp.cleanup()
    return out


def model_query(case: dict, run: dict) -> dict:
    d, r = PRE_MODEL[norm_pre(case["pre"])]
    return {"op": "interleave", "prog": "run", "n": case["n"], "dir": d, "result": r, "gates": case["gates"], "events": run["events"]}


def compare_views(case, run, ans):
    """-> (impl observable, model observable): statuses after the events where the model has nobody 'running', and the
    final observables"""
    exp = jp.expected_outputs({"task": "py", "x": 1})
    impl_st, model_st = [], []
    for k, st in enumerate(run["status"]):
        m = ans["status"][k] if k < len(ans["status"]) else ["?"]
        if "running" in m:
            continue  # a blocked submitter is about to take the freed lock: compared after the `acquired` event
        impl_st.append(st)
        model_st.append([("ended" if s.startswith("ended:") else s) for s in m])
    o = run["obs"]
    impl = {"status": impl_st, "execs": o["execs"], "result": o["result"], "lock_free": o["jobLock"] == "free", "info": o["info"],
            "submitters": [{"ok": s["outcome"] == "ok" and s["outputs"] == exp, "cwd": s["cwd"]} for s in o["submitters"]]}  # fmt: skip
    model = {"status": model_st, "execs": ans["execs"], "result": ans["result"], "lock_free": ans["jobLock"] is None,
             "info": sum(1 for p in ans["procs"] if p["info"]),
             "submitters": [{"ok": p["ended"] == "returning" and p["resVar"] == "ok", "cwd": p["cwd"]} for p in ans["procs"]]}  # fmt: skip
    return impl, model


def once_ok(pre, obs: dict, n: int) -> tuple[bool, str]:
    exp = jp.expected_outputs({"task": "py", "x": 1})
    want = 0 if norm_pre(pre) == "ok" else 1  # an errored or torn result is not served: exactly one execution
    if obs["execs"] != want:
        return False, f"the task body ran {obs['execs']} times for {n} submitters (expected {want})"
    for i, s in enumerate(obs["submitters"]):
        if s["outcome"] != "ok":
            return False, f"submitter {i}: {s['outcome']} {s['msg']}"
        if s["outputs"] != exp:
            return False, f"submitter {i} returned {s['outputs']}"
    if obs["result"] != "ok":
        return False, f"result file is {obs['result']}"
    return True, ""


# ------------------------------------------------------------------------------------------------------------------
# ungated races


def run_race(ctx, zy, case: dict, num: int, budget: Budget) -> dict:
    b = ctx.scratch / f"race{num}"
    for d in ("ctl", "cache"):
        (b / d).mkdir(parents=True)
    spec = {"task": case["task"], "x": 1, "ctl": str(b / "ctl"), "cache": str(b / "cache"), "worker": case["worker"], "hooks": "count"}
    pre = norm_pre(case["pre"])
    make_pre(zy, spec, pre)
    if case.get("slow"):
        (b / "ctl" / "gate_body").touch()
    hs = [zy.spawn({**spec, "env": {}}) for _ in range(case["n"])]
    if case.get("slow"):
        # wait (on files, not on time) until EVERY submitter has entered `run` (its pre_run hook has logged its pid) or
        # has finished, and — unless a good result is served — until a body has been entered; then let the body go
        pids = {str(h["pid"]) for h in hs}
        deadline = time.time() + budget.watchdog()
        hp = b / "ctl" / "hooks_pid.log"
        while time.time() < deadline:
            seen = {line.split()[0] for line in hp.read_text().splitlines()} if hp.exists() else set()
            done = {str(h["pid"]) for h in hs if Path(h["out"]).exists()}
            if pids <= (seen | done) and (pre == "ok" or (b / "ctl" / "waiting_body").exists() or pids <= done):
                break
            time.sleep(0.003)
    (b / "ctl" / "release_body").touch()
    rs = [zy.wait(h, budget.watchdog()) for h in hs]
    chk = jp.checksum(spec)
    o = jp.observe(spec["cache"], chk, spec["ctl"])
    subs = [{"outcome": ((r["report"] or {}).get("outcome") if not r["hang"] else "hang"), "outputs": (r["report"] or {}).get("outputs"),
             "cwd": (r["report"] or {}).get("cwd"), "msg": ((r["report"] or {}).get("msg") or "")[-200:]} for r in rs]  # fmt: skip
    shutil.rmtree(b, ignore_errors=True)
    return {"execs": o["execs"], "result": o["result"], "jobLock": o["jobLock"], "info": o["info"], "submitters": subs}


def race_ok(case, obs) -> tuple[bool, str]:
    exp = jp.expected_outputs({"task": case["task"], "x": 1})
    want = 0 if norm_pre(case["pre"]) == "ok" else 1
    if obs["execs"] != want:
        return False, f"the task body ran {obs['execs']} times for {case['n']} submitters (expected {want})"
    for i, s in enumerate(obs["submitters"]):
        if s["outcome"] != "ok" or s["outputs"] != exp:
            return False, f"submitter {i}: {s['outcome']} {s['outputs']} {s['msg']}"
    return True, ""


# ------------------------------------------------------------------------------------------------------------------


def family_cases(ctx, sizes=(2, 3), pres=PRE_KINDS) -> tuple[list, list]:
    """the scenario family: pre-existing result on disk in {none, complete ok, complete ERRORED, torn} x 2-3 concurrent
    submitters x interleavings in which every later submitter passes its first hook point (whatever the current
    source lets it do without the lock) before the first one populates the job directory"""
    ils, races = [], []
    for pre in pres:
        for n in sizes:
            ils.append({"kind": "interleaving", "n": n, "pre": pre, "gates": GATES_QUICK, "seed": ctx.rng.randrange(10**9), "plan": "burst"})
            races.append({"kind": "race", "n": n, "pre": pre, "task": "py", "worker": "debug", "slow": True})
    return ils, races


def gen_cases(ctx, big: bool):
    sk = jp.safe_skeletons(ctx)
    allg = all_run_gates(sk) if sk is not None else list(GATES_QUICK)
    if not big:
        # quick: the errored / torn members of the family with 2 submitters, one with 3, and random interleavings
        ils, races = family_cases(ctx, sizes=(2,), pres=("err", "torn"))
        ils.append({"kind": "interleaving", "n": 3, "pre": "err", "gates": GATES_QUICK, "seed": ctx.rng.randrange(10**9), "plan": "burst"})
        for n, pre in [(2, ctx.rng.choice(PRE_KINDS)), (3, "none")]:
            ils.append({"kind": "interleaving", "n": n, "pre": pre, "gates": GATES_QUICK, "seed": ctx.rng.randrange(10**9), "steps": 12})
        races.append({"kind": "race", "n": 3, "pre": ctx.rng.choice(("none", "ok")), "task": "py", "worker": "debug", "slow": True})
        return ils, races
    ils, races = family_cases(ctx)
    plan = [(2, "none")] * 4 + [(2, "ok")] * 2 + [(2, "err")] * 3 + [(2, "torn")] * 2 + [(3, "none")] * 4 + [(3, "err")] * 3 + [(3, "ok"), (3, "torn")] + [(4, "none")] * 2 + [(4, "err")]
    for n, pre in plan:
        gates = GATES_QUICK if ctx.rng.random() < 0.5 else allg
        ils.append({"kind": "interleaving", "n": n, "pre": pre, "gates": gates, "seed": ctx.rng.randrange(10**9), "steps": 40})
    for n in (2, 4):
        for pre in ("none", "err"):
            races.append({"kind": "race", "n": n, "pre": pre, "task": "py", "worker": "debug", "slow": False})
    races += [{"kind": "race", "n": 3, "pre": "none", "task": "wf", "worker": "debug", "slow": True},
              {"kind": "race", "n": 2, "pre": "none", "task": "wf", "worker": "cf", "slow": True},
              {"kind": "race", "n": 3, "pre": "none", "task": "sh", "worker": "debug", "slow": False},
              {"kind": "race", "n": 2, "pre": "err", "task": "py", "worker": "cf", "slow": True}]  # fmt: skip
    return ils, races


MAX_STUCK = 2  # after that many replays that could not be driven, the remaining gated replays are not attempted


def run_all(ctx, ils, races, seconds: float):
    """`seconds`: wall-clock budget of the behavioural part (cases that do not fit are skipped and noted)"""
    core.assert_repo_loaded()
    budget = Budget(seconds)
    sk = jp.safe_skeletons(ctx)
    pre_load = pre_lock_load(sk)
    zy = jp.Zygote(ctx.scratch)
    runs, robs, skipped, stuck = [], [], 0, 0
    try:
        if not getattr(ctx, "_skel_done", False):
            jp.validate_skeleton(ctx, zy, None if sk is None else py_positions(sk["run"]))
            ctx._skel_done = True
        num = getattr(ctx, "_il_n", 0)
        # races first: they need no gating protocol and decide the property on their own
        for c in races:
            num += 1
            if budget.left() < 20:
                robs.append(None)
                skipped += 1
                continue
            robs.append(run_race(ctx, zy, c, num, budget))
        for c in ils:
            num += 1
            if budget.left() < 60 or stuck >= MAX_STUCK:
                runs.append(None)
                skipped += 1
                continue
            r = run_interleaving(ctx, zy, c, num, budget, pre_load)
            stuck += r["mismatch"] is not None
            runs.append(r)
        ctx._il_n = num
    finally:
        zy.close()
    if skipped:
        ctx.count("skipped:budget-or-stuck", skipped)
        ctx.notes.append(f"{skipped} C10 cases not run (time budget {seconds:.0f} s used up, or {MAX_STUCK} replays could not be driven)")
    good = [(c, r) for c, r in zip(ils, runs) if r is not None and r["mismatch"] is None]
    ans = ctx.driver("JobProto", [model_query(c, r) for c, r in good]) if good else []
    k = 0
    for c, r in zip(ils, runs):
        if r is None:
            continue
        case = {**c, "events": r["events"]}
        ctx.count(f"interleaving:n={c['n']}/pre={norm_pre(c['pre'])}/{c.get('plan', 'random')}")
        ctx.count("events", len(r["events"]))
        if r["mismatch"] is not None:
            # the processes did not follow the gating protocol (observed outcome `stuck`): the correspondence does not
            # check on this case — a broken tie, reported promptly, never a wait for more watchdogs
            ctx.tie_broken.append({"kind": "gating-protocol", "case": case, "detail": r["mismatch"], "obs": r["obs"]})
            continue
        ok, why = once_ok(c["pre"], r["obs"], c["n"])
        impl, model = None, None
        if ans is not None:
            a = ans[k]
            if "error" in a:
                impl, model = {"events": len(r["events"])}, {"error": a["error"]}
            else:
                impl, model = compare_views(c, r, a)
        k += 1
        ctx.judge(case, impl if impl is not None else r["obs"], model, ok, what=why or "gated interleaving of real submitters",
                  key=f"il/{c['n']}/{norm_pre(c['pre'])}/{len(c['gates'])}/" + ",".join(f"{e['ev'][0]}{e['pid']}" for e in r["events"]))  # fmt: skip
    for c, o in zip(races, robs):
        if o is None:
            continue
        ok, why = race_ok(c, o)
        ctx.count(f"race:{c['task']}/{c['worker']}/n={c['n']}/pre={norm_pre(c['pre'])}")
        ctx.judge(c, {"execs": o["execs"], "ok": [s["outcome"] for s in o["submitters"]]}, None, ok, what=why or "ungated race")


# wall-clock budgets of the behavioural part (the whole check must end well inside a 30 min limit even on a loaded
# machine and on a tree that breaks the gating protocol)
BUDGET = {"quick": 420.0, "thorough": 1500.0, "search": 420.0}


def correspondence(ctx):
    import json

    ils, races = gen_cases(ctx, not ctx.quick)
    p = core.VERIF / "corpus" / "jobproto" / "c10_interleavings.jsonl"
    corpus = [json.loads(line)["case"] for line in p.read_text().splitlines() if line.strip()]
    run_all(ctx, corpus + ils, races, BUDGET["quick" if ctx.quick else "thorough"])


def search(ctx):
    """after a broken proof / tie: the whole scenario family (spec-only where the model is unavailable), bounded"""
    ils, races = family_cases(ctx)
    run_all(ctx, ils, races, BUDGET["search"])


def replay(ctx, rec):
    c = rec["case"]
    c = {k: v for k, v in c.items() if k != "events"}
    if c.get("kind") == "race":
        run_all(ctx, [], [c], 600.0)
    else:
        run_all(ctx, [c], [], 600.0)
