"""C09 — File hashes always reflect current file content (DESIGN §6 C09, engine FileHash §5.3).

Case = a history of operations {write, utime, rename (over), copy2, hash (session, class), hashFresh (default
`hash_function`), newProcess, cleanUp (victims)} in the Lean driver's encoding (ids into the palettes of
harness/engines/filehash.py) plus a mode: sessions are `PersistentCache` objects in one worker ("objects"),
separate OS processes forked from an idle zygote ("procs"), freshly started interpreters ("interpreters"), or fresh
interpreters each with its own PYTHONHASHSEED ("seeded": `iter_orders` asks for given iteration orders of the focus
file-set's raw member set in given sessions, the runner searches seeds that produce them in this run's directory).

  implementation observable  per hash op: which content version's digest came back (digest looked up among the
                             forced recomputations seen in this history), or "missing"
  model observable           `run init ops` of FileHash/Model.lean
  spec oracle (independent)  every digest equals the forced recomputation of the same object through a brand-new
                             empty persistent cache, made at the same moment; a missing file raises
                             FileNotFoundError; forced recomputations are a function of (class, content) and
                             distinguish different contents
  D7 match rule (Python)     some file operation leaves a path with (mtime, content) such that a hash operation
                             ran earlier on the same path with the same mtime and a different content
"""

from __future__ import annotations

import itertools
import json
import time
from pathlib import Path

from harness import core
from harness.engines import filehash as fh

META = {
    "engine": "FileHash",
    "category": "proof",
    "design_ref": "§6 C09, §5.3, §7 D7",
    "technique": "Lean 4 theorems by induction over operation histories with a cache invariant + differential "
    "correspondence on real files (explicit st_mtime_ns, real PYDRA_HASH_CACHE directory, real processes)",
    "text": "Lean theorems over histories of any length, any number of sessions/processes, with clean-ups, for the "
    "algorithm of pydra/utils/hash.py (file-set = class + any number of member paths; key = class, member paths, every "
    "member's st_mtime_ns in the same order; look-up order memory, disk, calculate): "
    "C09_partial — on every MtimeFresh history each hash returns the digest of the current content (any digest "
    "function, no injectivity assumed); C09_exact — MtimeFresh is exactly the class of histories on which the code is "
    "right (a non-fresh history has a prefix after which one more hash is answered wrongly); C09_witness/C09_not_full "
    "— the full property is false for this algorithm (D7); C09_multiproc — dropping an in-memory dict never changes "
    "a later answer unless a clean-up intervened (C09_cleanup_witness); C09_any_member_in_key / C09_key_*_refuted — every "
    "member's own mtime is in the key, and max / sum / first-only / unordered keys are refuted by witness.  The model is tied to the code by running the "
    "same histories on real files.",
    "note": "Trusted: Lean kernel; hand-written model of get_or_calculate_hash / hash_single key construction / clean_up; "
    "POSIX file-system contract (sampled after every step); generator reach.  File-sets exercised: File, BinaryFile, "
    "Directory (one inner file), SetOf[File] with 2-3 members, fileformats.testing.ImageWithHeader (header + data), "
    "fileformats.testing.Xyz (three members), bare FileSet with two members; symlinks are outside the generator.",
    "rule": "case = history (≤ 8 ops quick, ≤ 12 thorough; plus a created-and-hashed two-member set followed by every 1 (quick) / 2 "
    "(thorough) letters of a 31-letter alphabet and three more hashes; thorough adds all histories of length ≤ 3 over a 25-letter "
    "alphabet); distinct by canonical JSON of (mode, ops); non-trivial = at least two hash operations on existing "
    "files with a file operation somewhere before the last of them",
    "seeded_mode": "sessions under different PYTHONHASHSEEDs (seeds searched per history so that two sessions iterate the "
    "member set in two requested orders; confirmed by the worker) with the members' files permuted between the hashes",
    "assumptions": [
        "the digest function is an arbitrary function of (class, content): theorems do not use any property of BLAKE2b",
        "file-set = class + list of top-level member paths (sorted(fspaths)); the key holds lstat(p).st_mtime_ns of every member, in that order",
        "operations are sequential (concurrent access is serialised by SoftFileLock, DESIGN §4)",
    ],
    "trusted": ["model of PersistentCache/hash_single file branch written by hand (FileHash/Model.lean)"],
}

_NS = "PydraModel.FileHash."
OBLIGATIONS = [
    _NS + n
    for n in (
        "C09_partial",
        "C09_partial_digest",
        "C09_partial_from",
        "C09_exact",
        "C09_witness",
        "C09_not_full",
        "C09_witness_utime",
        "C09_witness_rename",
        "C09_witness_copy2",
        "C09_witness_pair",
        "C09_key_injective",
        "C09_any_member_in_key",
        "C09_unseen_key_recalculates",
        "C09_key_max_refuted",
        "C09_key_sum_refuted",
        "C09_key_first_refuted",
        "C09_key_unordered_refuted",
        "C09_key_constructor_order_independent",
        "C09_key_reversed_members",
        "C09_key_iterorder_refuted",
        "C09_multiproc",
        "C09_multiproc_fresh",
        "C09_cleanup_witness",
    )
]
LEAN_TARGETS = ["PydraModel.Props.C09"]
MODEL_TARGETS = ["PydraModel.FileHash.Model", "PydraModel.DriverUtil"]

CORPUS = core.VERIF / "corpus" / "filehash" / "histories.jsonl"
NT = len(fh.MTIMES)
CIDS = sorted(fh.CONTENTS)
SAME_SIZE = {1: [2, 5], 2: [1, 5], 5: [1, 2], 6: [7], 7: [6], 3: [], 4: []}

# ---------------------------------------------------------------------------------------------------
# generator


FILE_IDS = list(range(len(fh.FILE_PATHS)))
DIR_ID = len(fh.FILE_PATHS)


def gen_history(rng, maxlen: int, mode: str = "objects") -> dict:
    """One history.  A scenario fixes a *focus* file-set (single file, directory, header/data pair, three-member
    set, SetOf[File] with 2-3 members, bare FileSet with 2 members); the prelude creates its members, the body
    mixes operations on members (older and newer ones) and on other files with hash operations."""
    L = rng.randint(3, maxlen)
    fs: dict = {}
    hashed: list = []  # keys (cls, ps, ts) that some hash op used
    ops: list = []
    nsess = 2 if maxlen <= 8 else 3
    sc = rng.choices(["single", "dir", "pair", "triple", "setof", "fileset"], [30, 8, 22, 12, 20, 8])[0]
    if sc == "single":
        focus = (None, [rng.choice(FILE_IDS)])
    elif sc == "dir":
        focus = (2, [DIR_ID])
    elif sc == "pair":
        focus = (4, list(fh.PAIR))
    elif sc == "triple":
        focus = (5, list(fh.TRIPLE))
    elif sc == "setof":
        focus = (3, sorted(rng.sample(FILE_IDS, rng.choice([2, 2, 3]))))
    else:
        focus = (6, sorted(rng.sample(FILE_IDS, 2)))

    def fileset():
        """(cls, member ids) for a hash operation."""
        u = rng.random()
        if u < 0.72:
            cls, ps = focus
        elif u < 0.86:
            cls, ps = None, [rng.choice([p for p in fs if p != DIR_ID] or FILE_IDS)]
        elif u < 0.93:
            cls, ps = 3, sorted(rng.sample(FILE_IDS, 2))
        else:
            cls, ps = rng.choice([(4, list(fh.PAIR)), (5, list(fh.TRIPLE)), (2, [DIR_ID])])
        if cls is None:
            cls = 0 if rng.random() < 0.75 else 1
        return cls, list(ps)

    def hash_op():
        cls, ps = fileset()
        if all(p in fs for p in ps):
            hashed.append((cls, tuple(ps), tuple(fs[p][1] for p in ps)))
        if rng.random() < 0.3:
            return {"op": "hashFresh", "cls": cls, "ps": ps}
        return {"op": "hash", "s": rng.randrange(nsess), "cls": cls, "ps": ps}

    def used_mtimes(p):
        return [t for (_, ps, ts) in hashed for q, t in zip(ps, ts) if q == p]

    def target():
        """a path to modify: mostly a member of the focus file-set"""
        if rng.random() < 0.75:
            return rng.choice(focus[1])
        ex = list(fs)
        return rng.choice(ex) if ex and rng.random() < 0.6 else rng.randrange(len(fh.PATHS))

    def write_op(p):
        op = {"op": "write", "p": p}
        if p in fs:
            c0, t0 = fs[p]
            u = rng.random()
            used = used_mtimes(p)
            if u < 0.40:
                t = t0  # mtime restored / coarse clock
                if fh.is_dir_path(p) and rng.random() < 0.7:
                    op["natural"] = True  # nested in-place rewrite, nobody touches the directory's mtime
            elif u < 0.55 and used:
                t = rng.choice(used)
            elif u < 0.72 and [q for q in focus[1] if q != p and q in fs]:
                t = fs[rng.choice([q for q in focus[1] if q != p and q in fs])][1]  # another member's mtime (swaps)
            else:
                t = rng.randrange(NT)
            v = rng.random()
            if v < 0.2:
                c = c0
            elif v < 0.6 and SAME_SIZE[c0]:
                c = rng.choice(SAME_SIZE[c0])
            else:
                c = rng.choice(CIDS)
        else:
            t, c = rng.randrange(NT), rng.choice(CIDS)
        op.update(c=c, t=t)
        fs[p] = (c, t)
        return op

    # prelude: the focus file-set's members come into being (distinct mtimes more often than not)
    for p in focus[1]:
        if len(ops) < L - 1 and rng.random() < 0.9:
            ops.append(write_op(p))
    while len(ops) < L:
        r = rng.random()
        ex = list(fs)
        exf = [p for p in ex if not fh.is_dir_path(p)]
        if not ex or r < 0.22:
            op = write_op(target())
        elif r < 0.32:
            p = target()
            used = used_mtimes(p)
            t = rng.choice(used) if used and rng.random() < 0.5 else rng.randrange(NT)
            op = {"op": "utime", "p": p, "t": t}
            if p in fs:
                fs[p] = (fs[p][0], t)
        elif r < 0.52 and exf:
            # rename-over / copy2: the source is some other file (carrying its own, possibly older, mtime),
            # the target mostly a member of the focus set
            q = target()
            if fh.is_dir_path(q):
                q = rng.choice(FILE_IDS)
            src = [p for p in exf if p != q]
            p = rng.choice(src) if src and rng.random() < 0.93 else rng.choice(FILE_IDS)
            kind = "rename" if rng.random() < 0.5 else "copy2"
            op = {"op": kind, "p": p, "q": q}
            if p != q and p in fs:
                fs[q] = fs[p]
                if kind == "rename":
                    del fs[p]
        elif r < 0.90:
            op = hash_op()
        elif r < 0.95:
            op = {"op": "newProcess", "s": rng.randrange(nsess)}
        else:
            pool = list(dict.fromkeys(hashed))
            vs = [[k[0], list(k[1]), list(k[2])] for k in pool if rng.random() < 0.6]
            if rng.random() < 0.15:
                vs.append([0, [rng.choice(FILE_IDS)], [rng.randrange(NT)]])
            op = {"op": "cleanUp", "victims": vs}
        ops.append(op)
    if fs and (rng.random() < 0.85 or not any(o["op"].startswith("hash") for o in ops)):
        ops.append(hash_op())
    return {"mode": mode, "ops": ops}


MULTI_FOCUS = [(4, list(fh.PAIR)), (5, list(fh.TRIPLE)), (3, None), (6, None)]


def gen_seeded_history(rng, permute: bool = True) -> dict:
    """Sessions are fresh interpreters with different PYTHONHASHSEEDs.  A multi-member file-set is created with
    pairwise different mtimes and hashed in session 0; then the members' files (content AND mtime) are permuted
    among the member paths (rename or copy2 through spare paths) and the set is hashed in session 1, in session 0
    and through `hash_function`.  Session 0 and 1 are asked to iterate the raw member set in two given, different
    orders, and the permutation is the one under which a key that took its mtimes in iteration order would, in
    session 1, coincide with session 0's key from before the permutation."""
    cls, ps = rng.choice(MULTI_FOCUS)
    if ps is None:
        ps = sorted(rng.sample(FILE_IDS, 2 if cls == 6 else rng.choice([2, 3])))
    n = len(ps)
    o0 = rng.sample(range(n), n)
    o1 = rng.sample(range(n), n)
    while o1 == o0:
        o1 = rng.sample(range(n), n)
    ts = rng.sample(range(NT), n)
    cs = rng.sample(CIDS, n)
    ops = [{"op": "write", "p": p, "c": c, "t": t} for p, c, t in zip(ps, cs, ts)]
    rng.shuffle(ops)
    ops.append({"op": "hash", "s": 0, "cls": cls, "ps": list(ps)})
    if rng.random() < 0.3:
        ops.append({"op": "hashFresh", "cls": cls, "ps": list(ps)})
    if permute:
        # member at position o1[k] receives the file that member o0[k] held
        src_of = {o1[k]: o0[k] for k in range(n)}
    else:
        perm = rng.sample(range(n), n)
        src_of = {k: perm[k] for k in range(n)}
    spare = [q for q in FILE_IDS if q not in ps][:n]
    mv = "rename" if rng.random() < 0.6 else "copy2"
    for k in range(n):
        ops.append({"op": mv, "p": ps[k], "q": spare[k]})
    for k in rng.sample(range(n), n):
        ops.append({"op": mv, "p": spare[src_of[k]], "q": ps[k]})
    tail = [{"op": "hash", "s": 1, "cls": cls, "ps": list(ps)}, {"op": "hash", "s": 0, "cls": cls, "ps": list(ps)},
            {"op": "hashFresh", "cls": cls, "ps": list(ps)}]
    if rng.random() < 0.3:
        tail.insert(1, {"op": "newProcess", "s": 0})
    ops += tail
    return {"mode": "seeded", "focus": [cls, list(ps)], "iter_orders": {"0": o0, "1": o1},
            "hashseeds": {"fresh": rng.randrange(1, 40)}, "ops": ops}


def gen_seeded_random(rng, maxlen: int) -> dict:
    """An ordinary random history whose sessions run under random, different hash seeds."""
    c = gen_history(rng, maxlen, "seeded")
    multi = [o for o in c["ops"] if is_hash(o) and len(o["ps"]) > 1]
    f = multi[0] if multi else next(o for o in c["ops"] if is_hash(o))
    c["focus"] = [f["cls"], list(f["ps"])]
    sd = rng.sample(range(1, 40), 4)
    c["hashseeds"] = {"0": sd[0], "1": sd[1], "2": sd[2], "fresh": sd[3]}
    return c


def small_alphabet() -> list:
    """25 letters: two file paths, two contents (same size), two mtimes, one session; File on either path and
    SetOf[File] on both."""
    a = []
    for p in (0, 1):
        for c in (1, 2):
            for t in (0, 3):
                a.append({"op": "write", "p": p, "c": c, "t": t})
        for t in (0, 3):
            a.append({"op": "utime", "p": p, "t": t})
        a.append({"op": "rename", "p": p, "q": 1 - p})
        a.append({"op": "copy2", "p": p, "q": 1 - p})
        a.append({"op": "hash", "s": 0, "cls": 0, "ps": [p]})
        a.append({"op": "hashFresh", "cls": 0, "ps": [p]})
    a.append({"op": "hash", "s": 0, "cls": 3, "ps": [0, 1]})
    a.append({"op": "hashFresh", "cls": 3, "ps": [0, 1]})
    a.append({"op": "newProcess", "s": 0})
    vs = [[0, [p], [t]] for p in (0, 1) for t in (0, 3)] + [[3, [0, 1], [t, u]] for t in (0, 3) for u in (0, 3)]
    a.append({"op": "cleanUp", "victims": vs})
    return a


def pair_continuations(n: int):
    """A two-member SetOf[File] is created (older member 0, newer member 1) and hashed; then every sequence of
    `n` letters; then it is hashed again in the same session, in another one and through `hash_function`."""
    a = small_alphabet() + [{"op": "write", "p": 4, "c": 5, "t": 2}, {"op": "rename", "p": 4, "q": 0}, {"op": "copy2", "p": 4, "q": 0},
                            {"op": "copy2", "p": 4, "q": 1}, {"op": "utime", "p": 0, "t": 2}, {"op": "write", "p": 0, "c": 5, "t": 2}]
    pre = [{"op": "write", "p": 0, "c": 1, "t": 0}, {"op": "write", "p": 1, "c": 2, "t": 3}, {"op": "write", "p": 4, "c": 3, "t": 2},
           {"op": "hash", "s": 0, "cls": 3, "ps": [0, 1]}]
    post = [{"op": "hash", "s": 0, "cls": 3, "ps": [0, 1]}, {"op": "hash", "s": 1, "cls": 3, "ps": [0, 1]}, {"op": "hashFresh", "cls": 3, "ps": [0, 1]}]
    for tup in itertools.product(a, repeat=n):
        yield {"mode": "objects", "ops": [dict(o) for o in pre + list(tup) + post]}


def exhaustive(maxlen: int):
    a = small_alphabet()
    for n in range(1, maxlen + 1):
        for tup in itertools.product(a, repeat=n):
            if any(o["op"].startswith("hash") for o in tup):
                yield {"mode": "objects", "ops": [dict(o) for o in tup]}


# ---------------------------------------------------------------------------------------------------
# running and judging


def is_hash(op) -> bool:
    return op["op"] in ("hash", "hashFresh")


def nontrivial(case) -> bool:
    ops = case["ops"]
    hs = [i for i, o in enumerate(ops) if is_hash(o)]
    if len(hs) < 2:
        return False
    return any(o["op"] in ("write", "utime", "rename", "copy2") for o in ops[: hs[-1]])


def model_obs(case, ans):
    if ans is None or "error" in ans:
        return None
    return [("missing" if v is None else v) if is_hash(o) else None for o, v in zip(case["ops"], ans["out"])]


class Batch:
    """Implementation runs are collected and sent to the model driver in one go (`flush`): starting the Lean
    interpreter costs more than running a thousand histories."""

    def __init__(self, ctx, runner: fh.Runner, use_model: bool = True, limit: int = 4000):
        self.ctx, self.runner, self.use_model, self.limit = ctx, runner, use_model, limit
        self.cases: list = []
        self.obs: list = []

    def run(self, cases: list) -> list:
        obs = []
        for c in cases:
            obs.append(self.runner.run_history(c))
            self.cases.append(c)
            self.obs.append(obs[-1])
            if len(self.cases) >= self.limit:
                self.flush()
        return obs

    def flush(self):
        if self.cases:
            judge_cases(self.ctx, self.cases, self.obs, self.use_model)
        self.cases, self.obs = [], []


def judge_cases(ctx, cases: list, obs: list, use_model: bool = True):
    answers = ctx.driver("FileHash", [{"ops": c["ops"]} for c in cases]) if use_model else None
    for k, (c, o) in enumerate(zip(cases, obs)):
        a = answers[k] if answers is not None else None
        if a is not None and "error" in a:
            ctx.tie_broken.append({"kind": "model-driver", "engine": "FileHash", "detail": a["error"], "case": c})
            a = None
        m = model_obs(c, a)
        for op in c["ops"]:
            ctx.count("op:" + op["op"])
            if is_hash(op):
                ctx.count(f"hash:{fh.CLASSES[op['cls']]}/{len(op['ps'])}-member")
        ctx.count(f"len={len(c['ops'])}")
        ctx.count("mode:" + c.get("mode", "objects"))
        ctx.count("stale-answer" if not o["spec_ok"] else "all-answers-current")
        if a is not None:
            ctx.count("model-fresh" if a["fresh"] else "model-not-fresh")
            ctx.count("cache-dir-size-agrees" if a["disk"] == o["disk"] else "cache-dir-size-differs")
            if a["disk"] != o["disk"]:
                ctx.notes.append(f"cache directory sizes differ from the model's (information only): {json.dumps(c)[:300]}")
            if not a["fresh"] and not o["d7_rule"]:
                # the Python match rule over-approximates ¬MtimeFresh (it ignores clean-ups); the converse must hold
                ctx.tie_broken.append({"kind": "match-rule-vs-MtimeFresh", "case": c})
            if o["d7_rule"] and a["fresh"]:
                ctx.count("rule-matches-but-fresh(clean-up removed the entry)")
        od = o.get("orders", {})
        if od.get("wanted"):
            ctx.count("iteration-orders-wanted", od["wanted"])
            ctx.count("iteration-orders-seed-found", od["found"])
            ctx.count("iteration-orders-confirmed-by-worker", od["realised"])
        ag, tot = o["own"]
        ctx.count("ref==own-blake2b", ag)
        ctx.count("ref!=own-blake2b", tot - ag)
        for n in o["notes"]:
            ctx.count("note:" + n)
        ctx.judge(
            c,
            o["out"],
            m,
            o["spec_ok"],
            nontrivial=nontrivial(c),
            key=json.dumps(c, sort_keys=True),
            defect="D7" if o["d7_rule"] else None,
            what="hash_function / hash_object on file-sets through the persistent cache",
        )


def load_corpus() -> list:
    out = []
    for line in CORPUS.read_text().splitlines():
        line = line.strip()
        if line and not line.startswith("#"):
            out.append(json.loads(line))
    return out


def guard_probe(runner: fh.Runner, scratch: Path) -> dict:
    """What do the docs' "resolution period" words amount to?  A file modified *right now* (mtime = now): is its
    hash cached at once, and served after a rewrite that lands on the same mtime?"""
    root = Path(scratch) / "filehash" / "probe"
    (root / "files").mkdir(parents=True)
    w = runner._spawn()
    try:
        w.call(cmd="reset", cache=str(root / "cache"), refroot=str(root / "refs"))
        f = root / "files" / "now.dat"
        f.write_bytes(b"AAAA")  # natural write, mtime = now
        m = f.lstat().st_mtime_ns
        a1 = w.call(cmd="hash", sess=None, cls="File", paths=[str(f)])
        stored = len([n for n in (root / "cache").iterdir() if not n.name.endswith(".lock")])
        age_ms = (time.time_ns() - m) / 1e6
        f.write_bytes(b"BBBB")
        import os

        os.utime(f, ns=(m, m))  # the rewrite falls into the same clock tick
        a2 = w.call(cmd="hash", sess=None, cls="File", paths=[str(f)])
        return {
            "entry_stored_for_file_modified_ms_ago": round(age_ms, 1),
            "entries_stored": stored,
            "second_hash_stale": a2.get("digest") == a1.get("digest") and a2.get("ref") != a2.get("digest"),
        }
    finally:
        w.kill()


def replay_findings(ctx, b: "Batch", corpus: list):
    """Run the given corpus histories, probe the docs' guard, and report the status of D7."""
    runner = b.runner
    d7w = [c for c in corpus if c.get("finding") == "D7"]
    obs = b.run(corpus)
    stale = [c["name"] for c, o in zip(corpus, obs) if c.get("finding") == "D7" and not o["spec_ok"]]
    clean_bad = [c["name"] for c, o in zip(corpus, obs) if c.get("finding") is None and not o["spec_ok"]]
    probe = guard_probe(runner, ctx.scratch)
    ctx.extra["docs_resolution_guard_probe"] = probe
    ctx.extra["docs_resolution_guard_implemented"] = not (probe["entries_stored"] >= 1 and probe["second_hash_stale"])
    if any(f["id"] == "D7" for f in ctx.known()):
        ctx.finding(
            "D7",
            bool(stale),
            f"stale digest on {len(stale)}/{len(d7w)} corpus witnesses ({', '.join(stale)}); "
            f"resolution-period guard of the docs implemented: {ctx.extra['docs_resolution_guard_implemented']}",
        )
    if clean_bad:
        ctx.notes.append(f"corpus histories outside D7 answered wrongly: {clean_bad}")


def correspondence(ctx):
    core.assert_repo_loaded()
    runner = fh.Runner(ctx.scratch)
    b = Batch(ctx, runner)
    try:
        # corpus first: D7 witnesses in all modes, plus regression shapes that must pass
        t0 = time.time()
        corpus = load_corpus()
        replay_findings(ctx, b, corpus)
        t1 = time.time()
        # real processes for some random histories
        b.run([gen_history(ctx.rng, ctx.pick(6, 10), "procs") for _ in range(ctx.pick(12, 60))])
        b.run([gen_history(ctx.rng, ctx.pick(5, 8), "interpreters") for _ in range(ctx.pick(1, 8))])
        # fresh interpreters under different PYTHONHASHSEEDs: member permutations between sessions, random histories
        b.run([gen_seeded_history(ctx.rng, permute=(i % 5 != 4)) for i in range(ctx.pick(4, 40))])
        b.run([gen_seeded_random(ctx.rng, ctx.pick(7, 10)) for _ in range(ctx.pick(1, 10))])
        t2 = time.time()
        # seeded random histories
        maxlen = ctx.pick(8, 12)
        b.run([gen_history(ctx.rng, maxlen) for _ in range(ctx.pick(800, 12000))])
        b.run(list(pair_continuations(1)))
        if not ctx.quick:
            b.run(list(pair_continuations(2)))
            b.run(list(exhaustive(3)))
        t3 = time.time()
        b.flush()
        ctx.extra["worker_processes_started"] = {"interpreters": runner.spawned, "forked": runner.forked}
        ctx.extra["phase_seconds"] = {
            "corpus+probe": round(t1 - t0, 1),
            "procs": round(t2 - t1, 1),
            "random+exhaustive": round(t3 - t2, 1),
            "model-driver+judging": round(time.time() - t3, 1),
        }
    finally:
        runner.close()
        b.flush()  # whatever was collected before an exception is still judged


def search(ctx):
    """Implementation against the spec oracle only (no model), larger budget."""
    runner = fh.Runner(ctx.scratch / "search")
    b = Batch(ctx, runner, use_model=False)
    try:
        b.run(load_corpus())
        b.run([gen_history(ctx.rng, 12) for _ in range(ctx.pick(3000, 12000))])
        b.flush()
        if not ctx.violations:
            b.run(list(itertools.islice(exhaustive(3), ctx.pick(3000, 6000))))
            b.flush()
    finally:
        runner.close()


def replay(ctx, rec):
    case = rec.get("case")
    if case is None:  # replay file of a broken tie: first recorded case, if any
        case = next((r["case"] for r in rec.get("no_longer_checks", []) if "case" in r), None)
    if case is None:
        ctx.notes.append("replay file holds no history; running the corpus")
        return correspondence(ctx)
    runner = fh.Runner(ctx.scratch)
    try:
        b = Batch(ctx, runner)
        replay_findings(ctx, b, [c for c in load_corpus() if c.get("finding") == "D7" and c["mode"] != "interpreters"])
        b.run([case])
        b.flush()
    finally:
        runner.close()
