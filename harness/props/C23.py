"""C23 — Field values reach the command intact (DESIGN §6 C23, engine Argv §5.7)."""

from __future__ import annotations

import re

from harness import core
from harness.engines import argv as A

META = {
    "engine": "Argv",
    "category": "proof",
    "design_ref": "§6 C23, §5.7",
    "technique": "Lean 4 theorems by induction over the POSIX shlex automaton (runs of inert characters are copied in every "
    "state) + differential correspondence on the argv handed to subprocess.run / received by a real child",
    "text": "Lean theorems for strings of any length: the literal transcription of shlex.read_token equals the automaton used in "
    "the proofs (shlexSplitRaw_eq); a non-empty run of shlex-inert characters placed anywhere in a text that split_cmd accepts "
    "comes out contiguous inside one argument, whatever surrounds it (C23_inert_survives_partial), is exactly one argument when "
    "it follows a plain argstr (C23_plain_own_argument_partial, _path_partial), and survives argstr_formatting's bracket clean-up and "
    "strip() inside any templated argstr when it is also free of '[' ']' ',' and does not start/end with str.strip() white space "
    "(C23_templated_survives_partial); witnesses: a space splits the value, a quote raises, a backslash is "
    "dropped, quotes around a value are stripped (D14).  Tied to pydra/compose/shell/task.py (split_cmd, _format_arg) by "
    "running generated shell tasks whose str/Path values are drawn from an adversarial alphabet.",
    "note": "Trusted: Lean kernel; hand-written model of shlex.split / split_cmd / _format_arg; oracle "
    "harness/engines/argv.py:spec_field_args(atomic=True); generator reach.",
    "rule": "case = C22 generator with str/Path elements over the adversarial alphabet (blank, tab, newline, CR, ' \" \\ $ * ; & | < > ( ) # ~, "
    "non-ASCII incl. NBSP and an astral character, empty string; a third of the cases: brackets, commas and braces on a harmless alphabet) in plain, templated, cross-referencing, list and '...' fields; "
    "distinct by canonical JSON; non-trivial = at least one set str/Path element with a non-alphanumeric character",
    "assumptions": [
        "values contain no '{{' / '}}' escapes, attribute/item lookups or conversions inside braces; braces in MultiInputObj elements of templated fields are not generated (not modelled)",
        "a list joined with a blank separator is expected as one argument per element",
    ],
    "trusted": ["model of shlex.split(posix=True) and split_cmd written by hand (lean/PydraModel/Argv/Shlex.lean)"],
}

_NS = "PydraModel.Argv."
OBLIGATIONS = [
    _NS + n
    for n in (
        "C23_shlex_transcription",
        "C23_inert_survives_partial",
        "C23_plain_own_argument_partial",
        "C23_plain_own_argument_path_partial",
        "C23_templated_survives_partial",
        "C23_witness_strip",
        "C23_value_dots_survive",
        "C23_value_dots_survive_templated",
        "C23_witness_dots_kept",
        "C23_witness_strip_after",
        "C23_witness_bracket",
        "C23_witness_brace_error",
        "C23_witness_brace_injection",
        "C23_lowering_nobrace",
        "C23_witness_space",
        "C23_witness_quote",
        "C23_witness_backslash",
        "C23_witness_quoted",
        "C23_witness_empty",
        "C23_witness_not_full",
    )
]
LEAN_TARGETS = ["PydraModel.Props.C23"]
MODEL_TARGETS = ["PydraModel.Argv.Spec", "PydraModel.DriverUtil"]


def _own_arg_patterns(f, own_values):
    """For a templated argstr: one regex per (argstr token containing {own name}, supplied value): the token with the
    own value substituted verbatim; what other fields' references ({other}) render to is not C23's business."""
    pats = []
    toks = [t for t in f["argstr"].replace("...", "").split() if "{" + f["name"] + "}" in t]
    for val in own_values:
        for t in toks:
            rx = ""
            for piece in re.split(r"(\{\w+\})", t):
                if piece == "{" + f["name"] + "}":
                    rx += re.escape(val)
                elif re.fullmatch(r"\{\w+\}", piece):
                    rx += ".*"
                else:
                    rx += re.escape(piece)
            pats.append(re.compile(rx, re.S))
    return pats


def value_args(case):
    """What must be found in the argv for the supplied str/Path elements (documented semantics, values as atoms):
    exact arguments (plain argstr: the element is an argument of its own) or patterns (templated argstr: the element
    verbatim inside the argument built from its argstr; a joined list is one value)."""
    want = []
    for i in sorted({i for i, _ in A.str_elements(case)}):
        f, v = case["fields"][i], case["values"][i]
        k = f["kind"]
        elems = [A.render(A.ELEM[k], x) for x in v] if k in A.ELEM else [A.render(k, v)]
        per_element = k not in A.ELEM or f["argstr"].endswith("...") or k == "multi_str"
        if "{" in f["argstr"]:
            want += _own_arg_patterns(f, elems if per_element else [f["sep"].join(elems)])
        elif per_element or not f["sep"].strip():
            want += elems
        else:
            want.append(f["sep"].join(elems))
    return want


def reaches(case, argv) -> bool:
    if isinstance(argv, dict):  # the command could not be built
        return not list(A.str_elements(case))
    have = list(argv)
    for a in sorted(value_args(case), key=lambda a: not isinstance(a, str)):  # exact arguments first
        hit = next((h for h in have if (h == a if isinstance(a, str) else a.fullmatch(h))), None)
        if hit is None:
            return False
        have.remove(hit)
    return True


def run_cases(ctx, cases, *, real_child=False):
    impls = [A.run_impl(c, ctx.scratch, real_child=real_child, want_cmdline=False) for c in cases]
    # the extended model (op "runx"): it contains the base model and also re-parses values with braces
    ans = ctx.driver("Argv", [A.model_query_x(c) for c in cases])
    for k, (c, i) in enumerate(zip(cases, impls)):
        a = ans[k] if ans is not None else None
        braces = A.has_brace_values(c)
        if i["define"] is not None:
            impl = {"argv": {"error": i["define"]}}
            model = None if a is None else {"argv": A.model_obs_x(a)}
            ctx.count("definition-rejected")
            ctx.judge(c, impl, model, True, nontrivial=False, what="shell.define")
            continue
        impl = {"argv": {"error": A.canon_error(i["argv"]["error"], braces)} if isinstance(i["argv"], dict) else i["argv"]}
        model = None if a is None else {"argv": A.model_obs_x(a, braces=braces)}
        spec_ok = reaches(c, i["argv"])
        if real_child and i["child"] is not None:
            spec_ok = spec_ok and reaches(c, i["child"])
            impl["child"] = i["child"]
            if model is not None:
                model["child"] = model["argv"]
        elems = [e for _, e in A.str_elements(c)]
        d = "D14" if A.rule_D14(c) else "D44" if A.rule_D44(c) else "D43" if A.rule_D43(c) else None
        for e in elems:
            ctx.count("elements")
            for ch, lab in ((" ", "space"), ("\t", "tab"), ("\n", "newline"), ("'", "squote"), ('"', "dquote"), ("\\", "backslash"), ("$", "dollar"), ("*", "star")):
                if ch in e:
                    ctx.count("elem-with-" + lab)
            if "..." in e:
                ctx.count("elem-with-three-dots")
            if e == "":
                ctx.count("elem-empty")
            if any(ord(x) > 127 for x in e):
                ctx.count("elem-non-ascii")
            if not any(x in A.SHLEX_ACTIVE for x in e) and e and not e.isalnum():
                ctx.count("elem-inert-special")
        if d:
            ctx.count("rule:" + d)
        if braces:
            ctx.count("case-with-brace-values")
        if any("[" in e or "]" in e or "," in e for e in elems):
            ctx.count("case-with-bracket-values")
        if isinstance(i["argv"], dict):
            ctx.count("impl-error:" + i["argv"]["error"])
        ctx.judge(c, impl, model, spec_ok, nontrivial=any(e and not e.isalnum() for e in elems), defect=d, what="str/Path elements in argv at subprocess.run")


def shlex_direct(ctx, n, extra=()):
    """The automaton itself: Python's shlex.split and pydra's split_cmd against the Lean model on raw strings
    (every state of the machine: open quotes, dangling backslashes, escapes inside double quotes, quote pairs left over)."""
    import shlex

    from pydra.compose.shell.task import split_cmd

    rng = ctx.rng
    strs = ["", " ", "''", '""', "'", '"', "\\", "a\\", "\"a\\\"b\"", "\"a\\nb\"", "a'b'c", "'a'\n", "\"'x'\"", "\\'x\\'", "'\"x\"'\n", "a\\\nb"]
    strs += list(extra)
    for _ in range(n):
        k = rng.randint(0, 14)
        strs.append("".join(rng.choice(" \t\n'\"\\\\ab$#*é") if rng.random() < 0.65 else rng.choice(A.SAFE) for _ in range(k)))
    ans = ctx.driver("Argv", [{"op": "shlex", "s": x} for x in strs])
    for k, x in enumerate(strs):
        def py(f):
            try:
                return f(x)
            except ValueError:
                return {"error": "ValueError"}

        impl = {"split": py(shlex.split), "split_cmd": py(split_cmd)}
        model = None
        if ans is not None:
            a = ans[k]
            conv = lambda r: r["ok"] if "ok" in r else {"error": A.MODEL_ERR[r["err"]]}
            model = {"split": conv(a["lex"]), "split_cmd": conv(a["split_cmd"])}
            if a["lex"] != a["raw"]:
                ctx.tie_broken.append({"kind": "lexRaw-vs-lex", "s": x, "lex": a["lex"], "raw": a["raw"]})
        ctx.count("shlex-direct")
        if isinstance(impl["split"], dict):
            ctx.count("shlex-direct-error")
        ctx.judge({"shlex": x}, impl, model, True, nontrivial=any(c in A.SHLEX_ACTIVE for c in x), what="shlex.split / split_cmd vs automaton")


def corpus(ctx):
    known = {f["id"] for f in ctx.known()}
    cases = A.load_corpus("c23.jsonl")
    status = {}
    for c in cases:
        fid = c.pop("finding", None)
        if fid and fid in known:
            i = A.run_impl(c, ctx.scratch, want_cmdline=False)
            fails = not reaches(c, i["argv"])
            status.setdefault(fid, []).append((fails, f"{c['values']} -> {i['argv']}"))
    for fid, l in status.items():
        ctx.finding(fid, any(f for f, _ in l), "; ".join(d for _, d in l)[:600])
    run_cases(ctx, cases)


def gen(ctx):
    if ctx.rng.random() < 0.3:  # brackets, commas and braces on an otherwise harmless alphabet (D43, D44)
        c = A.gen_case(ctx.rng, word=A.safe_word, blank_sep_templated=False, blank_sep_dots=True, outargs=False, allow_bad_def=0.0)
        return A.decorate_brackets_braces(ctx.rng, c)
    return A.gen_case(ctx.rng, word=A.adv_word, blank_sep_templated=False, blank_sep_dots=True, outargs=False)


def correspondence(ctx):
    core.assert_repo_loaded()
    corpus(ctx)
    shlex_direct(ctx, ctx.pick(200, 6000))
    run_cases(ctx, [gen(ctx) for _ in range(ctx.pick(250, 10000))])
    if not ctx.quick:
        run_cases(ctx, [gen(ctx) for _ in range(600)], real_child=True)


def search(ctx):
    run_cases(ctx, [gen(ctx) for _ in range(ctx.pick(3000, 15000))])


def replay(ctx, rec):
    if "shlex" in rec["case"]:
        return shlex_direct(ctx, 0, extra=[rec["case"]["shlex"]])
    run_cases(ctx, [rec["case"]])
