"""C27 — Container environments run the native command with remapped, mounted paths (DESIGN §6 C27, engine Envs §5.7).

Correspondence: shell tasks generated through `shell.define(..., inputs=…, outputs=…)` with File / list-of-File /
MultiInputObj[File] inputs in several directories (names with blanks included), copy modes, an optional output file,
literal arguments; run once natively (the executable is a dumper that records the native argv) and once under
`docker.Environment` / `singularity.Environment` with fake `docker` / `singularity` executables on a private PATH
that record their argv.  Compared: the recorded container argv  vs  the Lean model (`Envs/Container.lean`,
`dockerArgv` / `singularityArgv` on the atomised native argv)  vs  an independent oracle that parses the argv
the way the property reads (runtime, options, mounts, working directory, image, command).
"""

from __future__ import annotations

import os
import posixpath
import tempfile
from pathlib import Path
from unittest import mock

from harness import core
from harness.engines import envs
from harness.extractors.env_regexes import extract_env_regexes

META = {
    "engine": "Envs",
    "category": "proof",
    "design_ref": "§6 C27, §5.7",
    "technique": "Lean 4 theorems over path atoms (argv shape; functor laws of remapping; mount table invariants by induction over "
    "the fold of field entries) + source pins regenerated from /repo + differential correspondence with fake docker/singularity",
    "text": "Lean theorems for any number of fields, files, extra options and native arguments: the container argv is the "
    "runtime, its options, one unsplit `-v|-B host:container:mode` pair per mounted directory, the working directory under "
    "the root, the image, and exactly the native arguments with every path atom moved under the root and literal text "
    "untouched (C27_argv_docker, C27_argv_singularity, C27_argv_length, C27_mount_args_shape, C27_remap_lits, "
    "C27_remap_paths, C27_remap_id, C27_remap_comp, C27_remap_literal_arg); the parent directory of every input path is "
    "mounted exactly once at its place under the root, read-write exactly for the cache root and for directories holding a "
    "copied input or an output, and nothing else is mounted (C27_mounts_cover, C27_mounts_only, C27_mounts_nodup, "
    "C27_cache_root_rw).  map_path's statements, the branch tests and the argv skeletons of docker.py/singularity.py are "
    "regenerated from the source and pinned by rfl (C27_source_pinned, C27_skeleton_pinned).  The failure test on the runtime's return code is regenerated and "
    "shown to fail on every non-zero status, death by signal included (C27_rc_pinned, C27_nonzero_fails; the fake runtimes also "
    "exit non-zero or kill themselves).  Regression witnesses of the "
    "repaired defects: C27_witness_pinned_space (D17), C27_witness_last_writer (D17m).",
    "note": "Trusted: Lean kernel; hand-written model of get_bindings/execute; the fakes; the harness' atomisation of the native argv "
    "(occurrences of the known host locations); the staging rule (copy/link modes stage into the job directory, `any` leaves the "
    "file in place) taken from C34 and cross-checked against the native argv.",
    "rule": "case = (runtime, root, image/tag, extra options, fields with kind/copy mode/argstr/files, literal arguments); distinct by "
    "canonical JSON; non-trivial = at least two mounted input directories or both modes among the field directories",
    "assumptions": [
        "host directories and the root are absolute, normalised, contain no ':'; roots do not begin with '//'",
        "a path or root containing a blank is re-tokenised inside the command (C23's finding D14): for such cases the command part is "
        "compared as one blank-joined string, the mount/workdir part stays exact",
        "Path-typed (non-FileSet) fields are outside the property's 'file inputs' and are not generated",
        "file names are distinct among the fields staged into the job directory (fileformats renames clashing copies: C33/C34)",
    ],
    "trusted": ["model of Container.get_bindings / Docker.execute / Singularity.execute written by hand (Envs/Container.lean)"],
}

_NS = "PydraModel.Envs.Container."
OBLIGATIONS = [
    _NS + n
    for n in (
        "C27_source_pinned",
        "C27_skeleton_pinned",
        "C27_argv_docker",
        "C27_argv_singularity",
        "C27_argv_length",
        "C27_mount_args_shape",
        "C27_remap_lits",
        "C27_remap_paths",
        "C27_remap_id",
        "C27_remap_comp",
        "C27_remap_literal_arg",
        "C27_mounts_cover",
        "C27_cache_root_rw",
        "C27_mounts_nodup",
        "C27_mounts_only",
        "C27_rc_pinned",
        "C27_nonzero_fails",
        "C27_witness_last_writer",
        "C27_witness_pinned_space",
    )
]
LEAN_TARGETS = ["PydraModel.Props.C27"]
MODEL_TARGETS = ["PydraModel.Envs.Container", "PydraModel.Envs.Lmod", "PydraModel.DriverUtil"]
EXTRACTORS = [extract_env_regexes]

DIRS = ["d1", "in dir", "d2/sub", "deep/a b/c", "x.y", "d3"]
NAMES = ["a.txt", "b.dat", "c d.txt", "e.nii.gz", "f", "g.json", "h_1.txt", "i j k"]
ROOTS = ["/mnt/pydra", "/mnt/pydra", "/mnt/pydra/", "/r", "/data/ro ot", "/mnt//x", "/mnt/pydra//"]
XARGS = [[], [], ["--rm"], "--rm -it", ["-e", "A=b c"], ["--net", "none", "--rm"]]
STAGED_MODES = {"copy", "symlink", "hardlink", "link"}
MODES = ["any", "any", "any", "copy", "copy", "symlink", "hardlink", "link"]
KINDS = ["single", "single", "single", "list", "list", "multi", "tuple", "unset"]
ARGSTRS = ["plain", "plain", "templ", "none"]


def has_blank(s: str) -> bool:
    return any(c.isspace() for c in s)


def gen_case(rng) -> dict:
    """70 % "clean" cases: nothing with a blank reaches the command line (fields in directories with blanks are not on the
    command line, so the mount arguments are still exercised); the rest is unrestricted (C23's D14 region)"""
    clean = rng.random() < 0.7
    nf = rng.choice([1, 1, 2, 2, 3, 4])
    names = rng.sample(NAMES, len(NAMES))
    fields = []
    for i in range(nf):
        kind = rng.choice(KINDS)
        mode = rng.choice(MODES)
        k = 1 if kind in ("single",) else (0 if kind == "unset" else rng.choice([1, 2, 3]))
        files = []
        for _ in range(k):
            if not names:
                break
            files.append([rng.choice(DIRS), names.pop()])
        argstr = rng.choice(ARGSTRS)
        if clean and any(has_blank(d) or has_blank(n) for d, n in files):
            if mode in STAGED_MODES:
                files = [[d, n] for d, n in files if not has_blank(n)]  # staged: only the name reaches the command line
            else:
                argstr = "none"
        fields.append({"name": f"f{i}", "kind": kind, "mode": mode, "argstr": argstr, "files": files})
    return {
        "runtime": rng.choice(["docker", "singularity"]),
        "root": rng.choice([r for r in ROOTS if not (clean and has_blank(r))]),
        "image": rng.choice(["busybox", "repo/img", "ubuntu"]),
        "tag": rng.choice(["latest", "latest", "1.2"]),
        "xargs": rng.choice(XARGS),
        "fields": fields,
        "out": rng.random() < 0.35,
        "lits": rng.sample(["-v", "--flag", "plain", "7"], rng.choice([0, 1, 2])),
        # how the container runtime ends: status 0, a non-zero status, or death by a signal (negative return code)
        "end": ["exit", 0] if rng.random() < 0.7 else rng.choice([["exit", 1], ["exit", 125], ["exit", 255], ["kill", 15], ["kill", 9], ["kill", 2]]),
    }


# --------------------------------------------------------------------------------------


class Rig:
    def __init__(self, ctx):
        self.root = Path(tempfile.mkdtemp(prefix="c27-", dir=ctx.scratch))
        self.inputs = self.root / "inputs"
        for d in DIRS:
            (self.inputs / d).mkdir(parents=True, exist_ok=True)
            for n in NAMES:
                (self.inputs / d / n).write_text(f"{d}/{n}")
        self.bin = self.root / "bin"
        self.log = self.root / "container.argv"
        envs.make_fake_container(self.bin, self.log)
        self.native_argv = self.root / "native.argv"
        self.dumper = envs.make_dumper(self.root / "tool.sh", self.native_argv, self.root / "native.env")
        self.hash_cache = self.root / "hashcache"
        self.hash_cache.mkdir()
        self.n = 0

    def host(self, d: str, n: str) -> Path:
        return self.inputs / d / n

    def build_task(self, case: dict):
        from fileformats.generic import File
        from pydra.compose import shell
        from pydra.utils.typing import MultiInputObj

        CM = File.CopyMode
        inputs = {}
        values = {}
        for f in case["fields"]:
            tp = {
                "single": File | None,
                "unset": File | None,
                "list": list[File] | None,
                "tuple": tuple[File, ...] | None,
                "multi": MultiInputObj[File] | None,
            }[f["kind"]]
            name = f["name"]
            argstr = {"plain": f"-{name}", "templ": f"--{name}={{{name}}}", "none": None}[f["argstr"]]
            if f["kind"] == "multi" and f["argstr"] == "plain":
                argstr = f"-{name}..."
            inputs[name] = shell.arg(type=tp, argstr=argstr, default=None, copy_mode=getattr(CM, f["mode"]))
            paths = [File(self.host(d, n)) for d, n in f["files"]]
            if f["kind"] in ("single",) and paths:
                values[name] = paths[0]
            elif f["kind"] in ("list", "multi") and paths:
                values[name] = paths
            elif f["kind"] == "tuple" and paths:
                values[name] = tuple(paths)
        for i, l in enumerate(case["lits"]):
            inputs[f"s{i}"] = shell.arg(type=str, argstr="", default=l)
        outputs = {}
        if case["out"]:
            outputs["out"] = shell.outarg(type=File, argstr="-o", path_template="out_file.txt")
        T = shell.define(str(self.dumper), inputs=inputs, outputs=outputs, name="T")
        return T(**values)

    def run(self, case: dict):
        """returns dict with native argv, container argv, invocation count, job directories, exceptions"""
        from pydra.environments import docker, singularity

        self.n += 1
        ctl = Path(str(self.log) + ".ctl")
        for f in (self.log, Path(str(self.log) + ".count"), self.native_argv, ctl):
            f.unlink(missing_ok=True)
        end = case.get("end") or ["exit", 0]
        if end != ["exit", 0]:
            ctl.write_text(f"{end[0]} {end[1]}\n")
        ncache = self.root / f"n{self.n}"
        ccache = self.root / f"c{self.n}"
        env = {"PATH": f"{self.bin}:/usr/bin:/bin", "PYDRA_HASH_CACHE": str(self.hash_cache), "HOME": str(self.root)}
        nexc = cexc = None
        with mock.patch.dict(os.environ, env, clear=True):
            try:
                self.build_task(case)(cache_root=ncache, worker="debug")
            except Exception as e:  # noqa: BLE001  (a missing output file of the dumper is expected)
                nexc = core.exc_tag(e)
            native = envs.read_nul(self.native_argv) if self.native_argv.exists() else None
            E = docker.Environment if case["runtime"] == "docker" else singularity.Environment
            try:
                self.build_task(case)(
                    cache_root=ccache,
                    worker="debug",
                    environment=E(image=case["image"], tag=case["tag"], root=case["root"], xargs=case["xargs"]),
                )
            except Exception as e:  # noqa: BLE001
                cexc = core.exc_tag(e)
        argv, count = envs.read_container_log(self.log)

        def jobdir(c: Path):
            ds = sorted(p for p in c.glob("shell-*") if p.is_dir()) if c.exists() else []
            return ds[0] if len(ds) == 1 else None

        return {
            "native": native,
            "argv": argv,
            "count": count,
            "ncache": ncache,
            "ccache": ccache,
            "njob": jobdir(ncache),
            "cjob": jobdir(ccache),
            "nexc": nexc,
            "cexc": cexc,
        }


def atomise(arg: str, known: list[str]) -> list[dict]:
    """split one native argument into literal pieces and known host paths (longest known path first)"""
    out = []
    i = 0
    lit = ""
    ks = sorted(known, key=len, reverse=True)
    while i < len(arg):
        for k in ks:
            if arg.startswith(k, i):
                if lit:
                    out.append({"lit": lit})
                    lit = ""
                out.append({"path": [posixpath.dirname(k), posixpath.basename(k)]})
                i += len(k)
                break
        else:
            lit += arg[i]
            i += 1
    if lit:
        out.append({"lit": lit})
    return out


def normp(p: str) -> str:
    return posixpath.normpath(p)


def evaluate(ctx, rig: Rig, cases: list[dict]):
    runs = [rig.run(c) for c in cases]
    prepared = []
    q = []
    for c, r in zip(cases, runs):
        info = {"usable": False}
        prepared.append(info)
        if r["native"] is None or r["cjob"] is None or r["njob"] is None or r["count"] != 1:
            continue
        cjob, njob = str(r["cjob"]), str(r["njob"])
        # where each input file lives on the host when the command runs (staging rule, cross-checked below)
        fields = []
        known = []
        on_cmdline_paths = []
        for f in c["fields"]:
            if not f["files"] or f["kind"] == "unset":
                continue
            locs = []
            for d, n in f["files"]:
                loc = posixpath.join(cjob, n) if f["mode"] in STAGED_MODES else str(rig.host(d, n))
                locs.append(loc)
            fields.append({"files": [[posixpath.dirname(l), posixpath.basename(l)] for l in locs], "rw": f["mode"] == "copy"})
            known += locs
            if f["argstr"] != "none":
                on_cmdline_paths += locs
        if c["out"]:
            loc = posixpath.join(cjob, "out_file.txt")
            fields.append({"files": [[cjob, "out_file.txt"]], "rw": True})
            known.append(loc)
            on_cmdline_paths.append(loc)
        native = [a.replace(njob, cjob) for a in r["native"]]
        native = [str(rig.dumper)] + native  # argv[0] of the native run is the executable itself
        joined = has_blank(c["root"]) or any(has_blank(p) for p in on_cmdline_paths)
        cross_ok = all(any(p in a for a in native) for p in on_cmdline_paths) if not joined else all(p in " ".join(native) for p in on_cmdline_paths)
        natoms = [atomise(a, known) for a in native] if not joined else [atomise(" ".join(native), known)]
        xargs = c["xargs"].split() if isinstance(c["xargs"], str) else list(c["xargs"])
        info.update(usable=True, fields=fields, known=known, native=native, joined=joined, cross_ok=cross_ok, xargs=xargs, cjob=cjob)
        info["qi"] = len(q)
        q.append(
            {
                "op": "container",
                "kind": c["runtime"],
                "root": c["root"],
                "image": c["image"],
                "tag": c["tag"],
                "xargs": xargs,
                "cache_root": str(r["ccache"]),
                "cache_dir": cjob,
                "fields": fields,
                "native": natoms,
            }
        )
    ans = ctx.driver("Envs", q)
    rcq = []
    for c in cases:
        end = c.get("end") or ["exit", 0]
        rcq.append({"op": "rc_fails", "env": c["runtime"], "rc": end[1] if end[0] == "exit" else -end[1]})
    rca = ctx.driver("Envs", rcq)
    for ci, (c, r, info) in enumerate(zip(cases, runs, prepared)):
        ctx.count(f"runtime={c['runtime']}")
        if not info["usable"]:
            # the container runtime was not invoked exactly once, or a run left no job directory: never acceptable
            ctx.judge(c, {"count": r["count"], "cexc": r["cexc"], "nexc": r["nexc"]}, None, False, what="container runtime not invoked exactly once")
            continue
        scr = str(rig.root)
        rel = lambda s: s.replace(scr, "<S>")  # noqa: E731
        argv = list(r["argv"])
        argv[0] = posixpath.basename(argv[0])
        model = None
        model_full = None
        if ans is not None:
            a = ans[info["qi"]]
            if "error" in a:
                ctx.tie_broken.append({"kind": "model-driver", "detail": a["error"], "case": c})
            else:
                model_full = a["argv"]
        flag, wflag, prog = (("-v", "-w", ["docker", "run"]) if c["runtime"] == "docker" else ("-B", "--pwd", ["singularity", "exec"]))
        nx = len(info["xargs"])
        # --- split the observed argv the way the property reads it
        ok = argv[:2] == prog and argv[2 : 2 + nx] == info["xargs"]
        i = 2 + nx
        mounts = []
        while i + 1 < len(argv) and argv[i] == flag:
            mounts.append(argv[i + 1])
            i += 2
        ok = ok and i + 2 < len(argv) and argv[i] == wflag
        workdir = argv[i + 1] if i + 1 < len(argv) else ""
        image = argv[i + 2] if i + 2 < len(argv) else ""
        tail = argv[i + 3 :]
        head = argv[: i + 3]
        # --- model comparison: head exactly; tail exactly or blank-joined in the D14 region
        if model_full is not None:
            mh, mt = model_full[: len(model_full) - len(q_native_len(info))], model_full[len(model_full) - len(q_native_len(info)) :]
            model = {"head": [rel(x) for x in mh], "tail": " ".join(rel(x) for x in mt) if info["joined"] else [rel(x) for x in mt]}
            model["runtime_failure"] = bool(rca[ci]["fails"]) if rca is not None and "fails" in rca[ci] else None
        end = c.get("end") or ["exit", 0]
        ctx.count(f"end={end[0]}{end[1]}")
        impl = {"head": [rel(x) for x in head], "tail": " ".join(rel(x) for x in tail) if info["joined"] else [rel(x) for x in tail]}
        # a failing runtime surfaces as RuntimeError (a missing output file of a successful fake run is a ValueError)
        impl["runtime_failure"] = r["cexc"] == "RuntimeError"
        # --- spec oracle
        root = c["root"]
        ok = ok and normp(workdir) == normp(root + info["cjob"]) and image == f"{c['image']}:{c['tag']}"
        # command: the native argv with every known host location p replaced by <root>p
        def remap(s: str) -> str:
            out = ""
            j = 0
            ks = sorted(info["known"], key=len, reverse=True)
            while j < len(s):
                for k in ks:
                    if s.startswith(k, j):
                        out += normp(root + posixpath.dirname(k)) + "/" + posixpath.basename(k)
                        j += len(k)
                        break
                else:
                    out += s[j]
                    j += 1
            return out

        if info["joined"]:
            ok = ok and " ".join(tail) == remap(" ".join(info["native"]))
        else:
            ok = ok and tail == [remap(a) for a in info["native"]]
        # mounts: every parent once, at <root><parent>, rw iff cache root / copied input / output; nothing else
        table = {}
        for m in mounts:
            parts = m.split(":")
            if len(parts) != 3 or parts[0] in table:
                ok = False
                break
            table[parts[0]] = (parts[1], parts[2])
        croot = str(r["ccache"])
        want = {croot: "rw"}
        for f in info["fields"]:
            for d, _n in f["files"]:
                if f["rw"] or d == croot:
                    want[d] = "rw"
                else:
                    want.setdefault(d, "ro")
        ok = ok and set(table) == set(want)
        if ok:
            for d, mode in want.items():
                cont, got = table[d]
                ok = ok and got == mode and normp(cont) == normp(root + d)
        ok = ok and info["cross_ok"]
        ok = ok and impl["runtime_failure"] == (end != ["exit", 0])  # any non-zero status or a signal fails the task
        dirs = {d for f in info["fields"] for d, _ in f["files"]}
        modes = {want[d] for d in dirs}
        nontrivial = len(dirs) >= 2 or len(modes) == 2
        ctx.count(f"input_dirs={min(len(dirs), 4)}")
        ctx.count("region=blank-joined" if info["joined"] else "region=exact")
        ctx.count(f"root={c['root']}")
        for f in c["fields"]:
            ctx.count(f"kind={f['kind']}")
            ctx.count(f"mode={f['mode']}")
        if any(has_blank(d) for d in dirs):
            ctx.count("mount-dir-with-blank")
        if len(modes) == 2 or any(sum(1 for f in info["fields"] if any(dd == d for dd, _ in f["files"])) > 1 for d in dirs):
            ctx.count("shared-or-mixed-mode-dirs")
        ctx.judge(c, impl, model, bool(ok), nontrivial=nontrivial, what=f"{c['runtime']} argv")


def q_native_len(info) -> list:
    """number of command arguments the model was given (1 in the blank-joined region)"""
    return [None] * (1 if info["joined"] else len(info["native"]))


W_D17 = {
    "runtime": "docker",
    "root": "/mnt/pydra",
    "image": "busybox",
    "tag": "latest",
    "xargs": [],
    "fields": [{"name": "f0", "kind": "single", "mode": "any", "argstr": "none", "files": [["in dir", "a.txt"]]}],
    "out": False,
    "lits": [],
}
W_D17L = {
    "runtime": "docker",
    "root": "/mnt/pydra",
    "image": "busybox",
    "tag": "latest",
    "xargs": [],
    "fields": [{"name": "f0", "kind": "list", "mode": "any", "argstr": "plain", "files": [["d1", "a.txt"], ["d3", "b.dat"]]}],
    "out": False,
    "lits": [],
}
W_D17M = {
    "runtime": "docker",
    "root": "/mnt/pydra",
    "image": "busybox",
    "tag": "latest",
    "xargs": [],
    "fields": [
        {"name": "f0", "kind": "single", "mode": "copy", "argstr": "plain", "files": [["d1", "a.txt"]]},
        {"name": "f1", "kind": "single", "mode": "symlink", "argstr": "plain", "files": [["d1", "b.dat"]]},
    ],
    "out": False,
    "lits": [],
}
CORPUS = [dict(W_D17L, end=["kill", 9]), dict(W_D17, runtime="singularity", end=["exit", 3]), W_D17, dict(W_D17, runtime="singularity"), W_D17L, dict(W_D17L, runtime="singularity", fields=[dict(W_D17L["fields"][0], kind="multi")]), W_D17M, dict(W_D17M, runtime="singularity", out=True)]


def correspondence(ctx):
    core.assert_repo_loaded()
    rig = Rig(ctx)
    evaluate(ctx, rig, CORPUS)  # regression witnesses of the repaired D17 / D17l / D17m: must pass
    evaluate(ctx, rig, [gen_case(ctx.rng) for _ in range(ctx.pick(80, 600))])


def search(ctx):
    evaluate(ctx, Rig(ctx), [gen_case(ctx.rng) for _ in range(ctx.pick(200, 1000))])


def replay(ctx, rec):
    evaluate(ctx, Rig(ctx), [rec["case"]])
