"""C18 — Every submission terminates (DESIGN §6 C18, engines Sched + Graph §5.5)."""

from __future__ import annotations

from harness import core
from harness.engines import sched

META = {
    "engine": "Sched",
    "category": "proof",
    "design_ref": "§6 C18, §5.5, §7 D12 (fixed), D24",
    "technique": "Lean 4: totality + exact characterisation of DiGraph.sorting, progress measure of the scheduling loop, stall-detector "
    "theorem, livelock witness; controlled-worker differential correspondence with watchdogs",
    "text": "Lean theorems: DiGraph.sorting (with the no-progress check) is a total function that returns a list exactly on acyclic "
    "graphs, so a workflow whose connections form a cycle ends with its ValueError before the loop starts (C18_sorting_iff, "
    "C18_cycle_is_reported, C18_acyclic_is_run, C18_witness_cycle; all graphs).  For every schedule: an iteration of the "
    "asynchronous loop that awaits a future ends with strictly more completed futures, and the number of such iterations of a "
    "run is at most the number of jobs dispatched (C18_round_completes, C18_busy_rounds_bounded); in a fault-free run the environment can always complete a pending future (C18_environment_can_complete).  When nothing is pending, no "
    "task is runnable and further polls change nothing, the stall detector ends the submission with an error after its 11 "
    "polls (C18_stall_detector_gives_up, C18_stall_is_reported; witness C18_lost_after_seen_running).  PARTIAL: the termination "
    "statement assumes a worker that never reports a job complete without a result (C18_partial); C18_lost_result_livelock "
    "proves that otherwise, for a job never seen running, the loop neither awaits nor dispatches nor reaches the stall detector, "
    "for any number of iterations (known finding D24).  Under that hypothesis (and max_concurrent >= 1): an iteration that "
    "awaits nothing ends the submission, dispatches a job or starts a node (C18_idle_round_progress), every run performs at "
    "most 2*(jobs dispatched) + (nodes) + 2 iterations (C18_fault_free_bound: each iteration increases a bounded potential) "
    "and any longer schedule finds the submission ended (C18_fault_free_terminates); the synchronous loop of the debug worker ends within "
    "2*(jobs) + 2*(nodes) + 3 iterations (C18_sync_terminates).  Every end of a fault-free run, the stall detector's included, "
    "reports exactly the failed jobs, and `stall` only when none failed (C18_every_end).  Cost of the scan: a poll marks failure "
    "consequences one level per poll and stops at the first not-started node whose predecessors are not done, but it examines every node all "
    "of whose earlier nodes are started (C18_one_level_per_poll, C18_examined_when_earlier_started); a failure followed by 12 "
    "dependent nodes ends through the stall detector with the job's error (C18_long_failure_chain), and 12 consecutive zero-job "
    "nodes end a run without any failure as a stall (C18_long_empty_chain_stalls; outside the quantifiers of the check, observed on "
    "the code as an IndexError in the detector's diagnostic).  Tied to the code by running acyclic "
    "workflows with failures, workflows with typed and untyped back edges (node.inputs.x = later.out), and lost-job schedules "
    "under the controlled worker, every submission under a watchdog.",
    "note": "Trusted: Lean kernel; hand-written models (Graph/Model.lean, Sched/Model.lean); asyncio.sleep(1) of the stall detector is "
    "replaced by a yield in the harness (the 11 polls are counted); a livelock is recognised after 60 polls without a single "
    "await of the loop; 'lost job' is emulated by a worker whose future completes without running anything (optionally after "
    "creating the lock file).",
    "rule": "case = (workflow graph incl. optional back edge typed/untyped, fail set, lost jobs, max_concurrent, recorded schedule); "
    "distinct by canonical JSON; non-trivial = >= 3 jobs and a schedule policy other than FIFO, or a back edge, or a lost job",
    "assumptions": ["a poll (get_runnable_tasks) is atomic with respect to changes on disk"],
    "trusted": ["models of DiGraph.sorting and of the scheduling loop written by hand"],
}

_NS = "PydraModel.Sched."
OBLIGATIONS = [
    _NS + n
    for n in (
        "C18_sorting_iff",
        "C18_cycle_is_reported",
        "C18_acyclic_is_run",
        "C18_witness_cycle",
        "C18_round_completes",
        "C18_busy_rounds_bounded",
        "C18_environment_can_complete",
        "C18_idle_round_progress",
        "C18_fault_free_bound",
        "C18_fault_free_terminates",
        "C18_stall_detector_gives_up",
        "C18_stall_is_reported",
        "C18_lost_after_seen_running",
        "C18_lost_result_reached",
        "C18_lost_result_fixpoint",
        "C18_lost_result_livelock",
        "C18_partial",
        "C18_every_end",
        "C18_one_level_per_poll",
        "C18_examined_when_earlier_started",
        "C18_long_failure_chain",
        "C18_long_empty_chain_stalls",
        "C18_sync_terminates",
    )
]
LEAN_TARGETS = ["PydraModel.Props.C18"]
MODEL_TARGETS = ["PydraModel.Sched.Model", "PydraModel.Graph.Model", "PydraModel.DriverUtil"]


def spec(case, obs):
    """the submission ends with outputs or with an error"""
    oc = obs.get("outcome")
    if oc in ("HANG", "LIVELOCK", "DEVICE-TIMEOUT"):
        return False, f"the submission does not end: {oc} {obs.get('msg', '')[:200]}"
    if case.get("back") and oc == "ok":
        # every generated back edge closes a cycle: there is nothing that could be returned
        return False, "a cyclic workflow returned outputs"
    return True, ""


def d24(case, obs):
    """match rule of D24: a future completed without a result for a job that had never been seen running"""
    van = {t for mv in (obs.get("schedule") or []) for t in (mv.get("van") or [])}
    if any((case.get("vanish") or {}).get(t) == "idle" for t in van):
        return "D24"
    return None


# witnesses of known / repaired findings and hand-made schedules: corpus/sched/C18.jsonl (first line = D24 witness)
_C = sched.load_corpus("C18")
D24_WITNESS, CORPUS = _C[0], _C[1:]


def gen_cases(rng, n):
    cases = []
    for _ in range(n):
        r = rng.random()
        c = sched.gen_graph(rng, allow_keep=(r >= 0.45))
        tags = sched.all_tags(c)
        c["k"] = rng.choice([None, 1, 2, 3])
        c["fail"] = [t for t in tags if rng.random() < 0.2]
        c["policy"] = {"seed": rng.randrange(10**6), "style": rng.choice(["random", "random", "lazy", "greedy", "failslast", "fifo"])}
        names = [nd["name"] for nd in c["nodes"]]
        if r < 0.3 and len(names) >= 2:
            # a back edge: an earlier node consumes the output of a node downstream of it (or of itself)
            i = rng.randrange(len(names))
            src = c["nodes"][i]
            down = [names[i]]
            for nd in c["nodes"][i + 1:]:
                if any(p in down for p in nd["preds"]):
                    down.append(nd["name"])
            if len(src["preds"]) < 4 and not src.get("inherit"):
                later = rng.choice(down[1:] or down)
                c["back"] = [[src["name"], len(src["preds"]), later]]
                c["typed"] = rng.random() < 0.4
                c["fail"] = []
        elif r < 0.45:
            t = rng.choice(tags)
            c["vanish"] = {t: rng.choice(["idle", "locked"])}
            c["fail"] = [x for x in c["fail"] if x != t]
        cases.append(c)
    return cases


def correspondence(ctx):
    core.assert_repo_loaded()
    # the witness of the known finding first, then the corpus, then generated cases (one batch)
    res = sched.explore(ctx, [dict(D24_WITNESS)] + [dict(c) for c in CORPUS] + gen_cases(ctx.rng, ctx.pick(14, 110)), spec,
                        "C18 termination", defect=d24)
    (_, o, iv, mv, _) = res[0]
    if any(f["id"] == "D24" for f in ctx.known()):
        ctx.finding("D24", o.get("outcome") == "LIVELOCK",
                    f"outcome {o.get('outcome')} after {len(o.get('rounds') or [])} loop iterations; model: {mv.get('outcome') if mv else None}")


def search(ctx):
    sched.explore(ctx, gen_cases(ctx.rng, ctx.pick(40, 300)), spec, "C18 search", defect=d24)


def replay(ctx, rec):
    sched.explore(ctx, [rec["case"]], spec, "C18 replay", defect=d24)
