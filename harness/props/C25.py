"""C25 — Command-line templates define the task they spell out (DESIGN §6 C25, engine Template §5.7).

Implementation side: `parse_command_line_template(template)` (field objects it returns), `shell.define(template)` (fields of the
defined class) and — for a sample — a run of the defined task with generated safe values, the executor intercepted in-process.
Model side: `PydraModel.Template.parseTemplate / define / commandArgs` through `Drivers/Template.lean`.
Spec oracle: an independent reading of the *structured* template the generator built (never of the string): names, kinds,
types, optionality, multiplicity, defaults, path templates, option strings, positions 1..n in template order; argv = executable
followed by each token's option and value(s) in template order.
"""

from __future__ import annotations

import ast
import json
import uuid
from pathlib import Path

from harness import core
from harness.engines.template import canon_type, recording_executor
from harness.extractors.template_regexes import extract_template_regexes

META = {
    "engine": "Template",
    "category": "proof",
    "design_ref": "§6 C25, §5.7",
    "technique": "Lean 4 theorems over a token-level model of parse_command_line_template (hand-written matchers for the "
    "two regexes, tied to the regex source strings regenerated from /repo) + differential correspondence",
    "text": "Lean theorems, for templates of any length: rendering a grammatical token list and parsing it back gives exactly "
    "the fields the template spells — names, input/output kind, types, ? + * modifiers, defaults, $ path templates, option strings — "
    "at positions 1..n in template order (C25_parse_render, C25_positions); the lexer classifies every rendered token as written "
    "(C25_lex_*); a token matching none of the regexes is rejected wherever it stands (C25_reject_unlexable, C25_unlexable_iff), as are a trailing "
    "option, `$` on an input and a missing executable (C25_reject_*); the converse is false for the code — re.match anchors at the start only and a "
    "pending option is overwritten silently — documented by witnesses (C25_lenient_*); argv clause: the parsed definition run through the Argv "
    "engine's model (slot filling, _command_args, position_sort) yields the executable followed by every token's option and value(s) in template "
    "order for safe values, all token kinds except <…:bool> (C25_argv, instantiating the Argv engine's lemmas with all positions explicit, so C22's "
    "D26 hypothesis is discharged).  The hand-written "
    "matchers are the ones for the regex strings found in builder.py on this run (C25_regex_sources, C25_default_coercion_table, "
    "closed by decide over Gen/TemplateRegexes.lean).  The model is tied to pydra/compose/shell/builder.py by comparing "
    "parse_command_line_template, the fields of shell.define's class and the argv of runs with generated values (executor "
    "intercepted) with the model and with an independent reading of the generated template.",
    "note": "Trusted: Lean kernel; hand-written model of the parser (eval() of defaults modelled for literals only; file-format lookup and "
    "default coercion as regenerated tables); generator reach; the harness' own reading of the token grammar.  User-supplied inputs=/outputs= "
    "dictionaries, duplicate field names and defaults on outputs are outside the model.",
    "rule": "case = template (executable + up to 6 tokens from the token alphabet) [+ value assignment]; distinct by template string; "
    "non-trivial = grammatical template with at least two field tokens",
    "assumptions": [
        "templates use distinct, non-reserved, non-keyword identifiers as field names",
        "defaults are Python literals (ints, short decimals, True/False, quoted strings, flat tuples)",
        "argv is compared for safe values only (non-empty, no white space or quotes, non-zero numbers)",
    ],
    "trusted": ["model of parse_command_line_template written by hand (Template/Model.lean)"],
}

_NS = "PydraModel.Template."
OBLIGATIONS = [
    _NS + n
    for n in (
        "C25_regex_sources",
        "C25_default_coercion_table",
        "C25_lex_arg",
        "C25_lex_flag",
        "C25_lex_option",
        "C25_parse_render",
        "C25_positions",
        "C25_reject_unknown_token",
        "C25_reject_trailing_option",
        "C25_reject_template_on_input",
        "C25_reject_no_executable",
        "C25_reject_unlexable",
        "C25_unlexable_iff",
        "C25_lenient_trailing_text",
        "C25_lenient_option_overwritten",
        "C25_lenient_option_text",
        "C25_argv",
    )
]
LEAN_TARGETS = ["PydraModel.Props.C25"]
MODEL_TARGETS = ["PydraModel.Template.Model", "PydraModel.Gen.TemplateRegexes", "PydraModel.DriverUtil"]
EXTRACTORS = [extract_template_regexes]

# ------------------------------------------------------------------------------------------------
# generator: structured tokens

NAMES = ["a", "b", "x", "y", "in_file", "val", "n2", "p_", "Q", "text_arg", "recursive", "k9"]
OPTS = ["-o", "--opt", "-R", "--int-arg", "--a_b", "-x", "--out-dir", "-2"]
EXES = ["cmd", "cmd", "cmd", "my-tool", "git status", "a.out"]
IN_TYPES = [None, None, ["int"], ["float"], ["str"], ["bool"], ["file"], ["directory"], ["fs-object"], ["text/plain"], ["image/png"],
            ["generic/file"], ["int", "str"], ["int", "..."], ["float", "int", "str"], ["str", "..."]]
OUT_TYPES = [None, ["file"], ["image/png"], ["application/gzip"], ["text/csv"], ["directory"], ["application/json"], ["text/plain"]]
OUT_TEMPLATES = ["out.txt", "res.nii.gz", "o", "zipped.gz", "deep_name.v2.json"]
DEFAULTS = {
    "int": ["3", "-1", "99", "0", "True"],
    "float": ["1.5", "0.25", "2", "-3.0", "10.125"],
    "str": ["'foo'", '"bar"', "'a.b'", "'x-y'"],
    "bool": ["True", "False"],
    ("int", "str"): ["(1,'bar')", "(0,'z')"],
    ("float", "int", "str"): ["(1.5,2,'w')"],
    ("int", "..."): ["(1,2,3)", "(7,)"],
}
FS_ATOMS = {"file", "directory", "fs-object", "generic/file", "text/plain", "image/png", "application/gzip", "text/csv", "application/json"}


def gen_arg_token(rng, name, out=False, opt=None, allow_modify=True) -> dict:
    if out:
        types = rng.choice(OUT_TYPES)
        r = rng.random()
        mod = "?" if r < 0.2 else ["$", rng.choice(OUT_TEMPLATES)] if r < 0.45 else "plain"
        return {"t": "arg", "opt": opt, "out": True, "modify": False, "name": name, "types": types, "mod": mod}
    if allow_modify and opt is None and rng.random() < 0.05:
        return {"t": "arg", "opt": None, "out": False, "modify": True, "name": name, "types": rng.choice([["file"], ["directory"], ["image/png"], None]), "mod": "plain"}
    types = rng.choice(IN_TYPES)
    r = rng.random()
    if r < 0.35:
        mod = "plain"
    elif r < 0.5:
        mod = "?"
    elif r < 0.62:
        mod = "+"
    elif r < 0.74:
        mod = "*"
    else:
        key = None
        eff = types if types is not None else (["str"] if opt else None)
        if eff is not None:
            key = eff[0] if len(eff) == 1 else tuple(eff)
        if key in DEFAULTS:
            mod = ["=", rng.choice(DEFAULTS[key])]
        else:
            mod = "plain"
    return {"t": "arg", "opt": opt, "out": False, "modify": False, "name": name, "types": types, "mod": mod}


def gen_tokens(rng, n: int) -> list[dict]:
    names = rng.sample(NAMES, n)
    opts = rng.sample(OPTS, min(n, len(OPTS)))
    toks = []
    for i, name in enumerate(names):
        r = rng.random()
        if r < 0.18:
            toks.append({"t": "flag", "opt": opts[i % len(opts)], "name": name, "default": rng.choice([None, None, "True", "False"])})
        elif r < 0.42:
            toks.append(gen_arg_token(rng, name, out=rng.random() < 0.25, opt=opts[i % len(opts)]))
        else:
            toks.append(gen_arg_token(rng, name, out=rng.random() < 0.25))
    return toks


def render_token(t: dict) -> list[str]:
    if t["t"] == "raw":
        return [t["text"]]
    if t["t"] == "flag":
        return [t["opt"] + "<" + t["name"] + ("=" + t["default"] if t["default"] is not None else "") + ">"]
    body = ("out|" if t["out"] else "modify|" if t["modify"] else "") + t["name"]
    if t["types"] is not None:
        body += ":" + ",".join(t["types"])
    m = t["mod"]
    if m in ("?", "+", "*"):
        body += m
    elif isinstance(m, list):
        body += m[0] + m[1]
    out = ["<" + body + ">"]
    return ([t["opt"]] if t["opt"] else []) + out


MALFORMED = [
    "foo", "<>", "<a b>", "-", "<a", "a>", "--opt", "<q=foo>", "<q:nosuch>", "<q:foo/bar>", "<q:png>", "<q$tmpl.txt>", "<q:int:str>", "<q=1=2>",
    "<q=1?>", "<class>", "<for>", "<None>", "<q:int='s'>", "<q:str=3>", "<q:int=1.5>", "<q:bool=1>", "<executable>", "<cmdline>", "<split>",
    "<q.r>", "<1q>", "-f<q=1>", "-f<q=foo>", "<q=None>", "<q>junk", "<q:int?>x", "-o=3", "--", "-f<q:int>", "<q=>", "<q:>", "<:int>",
    "<out|q:int=3>", "<q:int=01>", "<q:float=1.>", "<q:int,...,str>", "<q:...>", "<q=(1,2)>", "<q:int,str=(1,)>", "<q:int=(1)>", "<q+?>", "<q?+>",
    "<q:str='a'b'>", "<q:int=--1>", "<q:int=1e3>", "<out|q$a$b>", "<q:int=-0>", "<q:float=-0.5>", "<q:int=007>", "<q:int=0>",
]


def gen_case(rng, max_tokens=6) -> dict:
    n = rng.choice([1, 2, 2, 3, 3, 4, 4, 5, 6][: max(1, max_tokens + 3)])
    n = min(n, max_tokens)
    toks = gen_tokens(rng, n)
    exe = rng.choice(EXES)
    case = {"exe": exe, "tokens": toks, "grammatical": True}
    r = rng.random()
    if r < 0.2:  # malformed stream: one foreign token somewhere (or a trailing option)
        bad = rng.choice(MALFORMED)
        pos = rng.randrange(len(toks) + 1)
        toks.insert(pos, {"t": "raw", "text": bad})
        case["grammatical"] = False
    elif r < 0.23:
        toks.append({"t": "raw", "text": rng.choice(OPTS)})
        case["grammatical"] = False
    elif r < 0.25 and len(toks) >= 2:
        toks[1]["name"] = toks[0]["name"]  # the same field name twice
        case["grammatical"] = False
    elif r < 0.26:
        case["exe"] = ""
        case["grammatical"] = False
    return case


def template_of(case) -> str:
    parts = [case["exe"]] if case["exe"] else []
    for t in case["tokens"]:
        parts += render_token(t)
    return " ".join(parts)


ALPHABET9 = [
    lambda n: {"t": "arg", "opt": None, "out": False, "modify": False, "name": n, "types": None, "mod": "plain"},
    lambda n: {"t": "arg", "opt": None, "out": False, "modify": False, "name": n, "types": ["int"], "mod": "?"},
    lambda n: {"t": "arg", "opt": None, "out": False, "modify": False, "name": n, "types": ["str"], "mod": "+"},
    lambda n: {"t": "arg", "opt": None, "out": False, "modify": False, "name": n, "types": ["float"], "mod": "*"},
    lambda n: {"t": "arg", "opt": None, "out": False, "modify": False, "name": n, "types": ["int"], "mod": ["=", "7"]},
    lambda n: {"t": "arg", "opt": "--o" + n, "out": False, "modify": False, "name": n, "types": None, "mod": "plain"},
    lambda n: {"t": "flag", "opt": "-f" + n, "name": n, "default": None},
    lambda n: {"t": "arg", "opt": None, "out": True, "modify": False, "name": n, "types": ["image/png"], "mod": "plain"},
    lambda n: {"t": "arg", "opt": "--p" + n, "out": True, "modify": False, "name": n, "types": ["file"], "mod": ["$", "res.txt"]},
]


def exhaustive_cases(max_len: int):
    import itertools

    for L in range(1, max_len + 1):
        for combo in itertools.product(range(len(ALPHABET9)), repeat=L):
            yield {"exe": "cmd", "tokens": [ALPHABET9[k](f"n{i}") for i, k in enumerate(combo)], "grammatical": True}


# ------------------------------------------------------------------------------------------------
# canonical observables


def canon_default(v) -> dict:
    import attrs

    from pydra.compose.base import NO_DEFAULT

    if v is NO_DEFAULT:
        return {"kind": "no"}
    if isinstance(v, attrs.Factory):
        return {"kind": "list"} if v.factory is list else {"kind": "factory", "repr": repr(v.factory)}
    return {"kind": "lit", "value": canon_lit(v)}


def canon_lit(v):
    if v is None:
        return {"none": True}
    if isinstance(v, bool):
        return {"bool": v}
    if isinstance(v, int):
        return {"int": v}
    if isinstance(v, float):
        return {"float": repr(v)}
    if isinstance(v, str):
        return {"str": v}
    if isinstance(v, tuple):
        return {"tuple": [canon_lit(x) for x in v]}
    return {"other": repr(v)}


def canon_field(f) -> dict:
    from fileformats.generic import File
    from pydra.compose import shell
    from pydra.compose.shell.builder import _InputPassThrough

    kind = "outarg" if isinstance(f, shell.outarg) else "arg" if isinstance(f, shell.arg) else "out"
    return {
        "name": f.name,
        "kind": kind,
        "type": canon_type(f.type),
        "argstr": getattr(f, "argstr", None),
        "position": getattr(f, "position", None),
        "default": canon_default(f.default),
        "path_template": getattr(f, "path_template", None),
        "modify": getattr(f, "copy_mode", None) == File.CopyMode.copy,
        "passthrough": isinstance(getattr(f, "callable", None), _InputPassThrough),
    }


def sort_fields(fs: list[dict]) -> list[dict]:
    return sorted(fs, key=lambda f: (f["name"], f["kind"]))


def impl_define(template: str) -> dict:
    from pydra.compose import shell
    from pydra.compose.shell.builder import parse_command_line_template
    from pydra.utils.general import get_fields

    res = {}
    try:
        exe, ins, outs = parse_command_line_template(template)
        res["parse"] = {"exe": exe if isinstance(exe, list) else [exe], "fields": sort_fields([canon_field(f) for f in list(ins.values()) + list(outs.values())])}
    except Exception as e:
        res["parse"] = {"err": core.exc_tag(e)}
    try:
        C = shell.define(template)
        ins = [f for f in get_fields(C) if f.name not in ("executable", "append_args")]
        outs = [f for f in get_fields(C.Outputs) if f.name not in ("return_code", "stdout", "stderr")]
        exe = next(f for f in get_fields(C) if f.name == "executable").default
        fields = [canon_field(f) for f in ins] + [canon_field(f) for f in outs if not isinstance(f, shell.outarg)]
        res["define"] = {
            "exe": exe if isinstance(exe, list) else [exe],
            "fields": sort_fields(fields),
            "outargs_in_outputs": sorted(f.name for f in outs if isinstance(f, shell.outarg)),
        }
        res["_class"] = C
    except Exception as e:
        res["define"] = {"err": core.exc_tag(e)}
    return res


def model_define(ans: dict) -> dict | None:
    """Driver answer in the harness' canonical form; None = outside the modelled subset."""
    out = {}
    for k in ("parse", "define"):
        a = ans[k]
        if "err" in a:
            if a["err"].startswith("unmodelled"):
                return None
            out[k] = {"err": a["err"]}
        else:
            out[k] = {"exe": a["exe"], "fields": sort_fields(a["fields"])}
            if k == "define":
                out[k]["outargs_in_outputs"] = sorted(f["name"] for f in a["fields"] if f["kind"] == "outarg")
    return out


# ------------------------------------------------------------------------------------------------
# oracle: the straightforward reading of the structured template


def oracle_atom(atom: str) -> str:
    if atom in ("int", "float", "str", "bool"):
        return atom
    from fileformats.core import from_mime

    return from_mime(atom if "/" in atom else "generic/" + atom).mime_like


def oracle_ext(atom: str):
    from fileformats.core import from_mime

    if atom in ("int", "float", "str", "bool"):
        return None
    return from_mime(atom if "/" in atom else "generic/" + atom).ext


def oracle_fields(case) -> list[dict]:
    fields = []
    pos = 0
    for t in case["tokens"]:
        pos += 1
        if t["t"] == "flag":
            fields.append(
                {"name": t["name"], "kind": "arg", "type": {"base": "bool", "multi": False, "optional": False}, "argstr": t["opt"], "position": pos,
                 "default": {"kind": "lit", "value": {"bool": t["default"] == "True"}}, "path_template": None, "modify": False, "passthrough": False}
            )
            continue
        types = t["types"]
        if types is None:
            atoms = ["str"] if t["opt"] else ["fs-object"]
        else:
            atoms = types
        if len(atoms) == 2 and atoms[1] == "...":
            base = ["vartuple", oracle_atom(atoms[0])]
        elif len(atoms) > 1:
            base = ["tuple"] + [oracle_atom(a) for a in atoms]
        else:
            base = oracle_atom(atoms[0])
        m = t["mod"]
        tp = {"base": base, "multi": m in ("+", "*"), "optional": m == "?"}
        default = {"kind": "no"}
        if m == "?":
            default = {"kind": "lit", "value": {"none": True}}
        elif m == "*":
            default = {"kind": "list"}
        elif isinstance(m, list) and m[0] == "=":
            v = ast.literal_eval(m[1])
            if base == "float":
                v = float(v)
            elif isinstance(base, list) and isinstance(v, tuple):
                kinds = base[1:] if base[0] == "tuple" else [base[1]] * len(v)
                v = tuple(float(x) if k == "float" else x for x, k in zip(v, kinds))
            default = {"kind": "lit", "value": canon_lit(v)}
        pt = None
        if t["out"]:
            if isinstance(m, list) and m[0] == "$":
                pt = m[1]
            else:
                ext = oracle_ext(atoms[0]) if (len(atoms) == 1 and m not in ("+", "*")) else None
                pt = t["name"] + (ext or "")
        f = {"name": t["name"], "kind": "outarg" if t["out"] else "arg", "type": tp, "argstr": t["opt"] or "", "position": pos, "default": default,
             "path_template": pt, "modify": t["modify"], "passthrough": False}
        if t["modify"]:
            fields.append({"name": t["name"], "kind": "out", "type": tp, "argstr": None, "position": None, "default": {"kind": "no"}, "path_template": None,
                           "modify": False, "passthrough": True})
        fields.append(f)
    return sort_fields(fields)


def spec_define(case, impl) -> bool:
    if not case["grammatical"]:
        return True  # outside the property's quantifier: only model fidelity is compared
    want = oracle_fields(case)
    exe = case["exe"].split()
    ok = True
    for k in ("parse", "define"):
        o = impl[k]
        ok = ok and "err" not in o and o["exe"] == exe and o["fields"] == want
    if ok:
        ok = impl["define"]["outargs_in_outputs"] == sorted(f["name"] for f in want if f["kind"] == "outarg")
    return ok


# ------------------------------------------------------------------------------------------------
# argv


def gen_values(rng, case, scratch: Path) -> dict | None:
    """Safe values for every field of a grammatical template: {name: python value or UNSET marker}; None = not sampled."""
    (scratch / "files").mkdir(parents=True, exist_ok=True)
    vals = {}

    def base_value(atom):
        if atom == "int":
            return rng.choice([1, 5, 42, -3])
        if atom == "float":
            return rng.choice([1.5, 2.25, -0.5, 10.0])
        if atom == "str":
            return rng.choice(["w", "abc", "x1", "v_2", "a.b"])
        if atom in ("file", "fs-object", "generic/file"):
            p = scratch / "files" / rng.choice(["f1.txt", "f2.dat", "g"])
            p.write_text("x")
            return p
        if atom == "directory":
            p = scratch / "files" / rng.choice(["d1", "d2"])
            p.mkdir(exist_ok=True)
            return p
        return None

    for t in case["tokens"]:
        if t["t"] == "flag":
            if rng.random() < 0.7:
                vals[t["name"]] = rng.random() < 0.6
            continue
        atoms = t["types"] if t["types"] is not None else (["str"] if t["opt"] else ["fs-object"])
        m = t["mod"]
        if t["modify"]:
            return None
        if t["out"]:
            if m in ("+", "*"):
                return None
            if len(atoms) == 1 and atoms[0] in FS_ATOMS:
                if m != "?" and rng.random() < 0.25:
                    vals[t["name"]] = scratch / "files" / ("explicit_" + t["name"] + ".out")
                continue  # template (or None for the optional one)
            v = base_value(atoms[0]) if len(atoms) == 1 else None
            if v is None or isinstance(v, Path):
                return None
            vals[t["name"]] = v
            continue
        if atoms == ["bool"]:
            return None  # a positional bool has no straightforward reading
        if len(atoms) == 2 and atoms[1] == "...":
            one = lambda: tuple(base_value(atoms[0]) for _ in range(rng.choice([1, 2, 3])))
        elif len(atoms) > 1:
            one = lambda: tuple(base_value(a) for a in atoms)
        else:
            one = lambda: base_value(atoms[0])
        probe = one()
        if probe is None or (isinstance(probe, tuple) and any(x is None for x in probe)):
            return None
        if m == "+":
            vals[t["name"]] = [one() for _ in range(rng.choice([1, 2, 3]))]
        elif m == "*":
            if rng.random() < 0.7:
                vals[t["name"]] = [one() for _ in range(rng.choice([0, 1, 2]))]
        elif m == "?":
            if rng.random() < 0.6:
                vals[t["name"]] = one()
        elif isinstance(m, list) and m[0] == "=":
            if rng.random() < 0.5:
                vals[t["name"]] = one()
        else:
            vals[t["name"]] = one()
    return vals


def atom_str(v) -> str:
    return str(v)


def to_model_val(v):
    if isinstance(v, bool):
        return {"bool": v}
    if isinstance(v, tuple):
        return {"seq": [atom_str(x) for x in v]}
    if isinstance(v, list):
        return {"many": [to_model_val(x) for x in v]}
    return {"atom": atom_str(v)}


def oracle_argv(case, vals) -> list[str]:
    """Executable, then each token's option and value(s), in template order."""
    argv = case["exe"].split()
    for t in case["tokens"]:
        name = t["name"]
        if t["t"] == "flag":
            on = vals.get(name, t["default"] == "True")
            if on:
                argv.append(t["opt"])
            continue
        m = t["mod"]
        opt = [t["opt"]] if t["opt"] else []
        if name in vals:
            v = vals[name]
        elif t["out"]:
            if m == "?":
                continue
            atoms = t["types"]
            pt = m[1] if isinstance(m, list) else name + ((oracle_ext(atoms[0]) or "") if atoms and len(atoms) == 1 else "")
            v = "<JOB>/" + pt
        elif m == "?":
            continue
        elif m == "*":
            v = []
        elif isinstance(m, list) and m[0] == "=":
            v = ast.literal_eval(m[1])
            atoms = t["types"] or ["str"]
            if atoms == ["float"]:
                v = float(v)
            elif isinstance(v, tuple):
                kinds = atoms if atoms[-1] != "..." else [atoms[0]] * len(v)
                v = tuple(float(x) if k == "float" else x for x, k in zip(v, kinds))
            if isinstance(v, bool) or not v:
                # a bool default for an int field, or a falsy default (0, 0.0, ''): how such a *value* is printed — the code
                # drops falsy values in `_format_arg` (`if value:`) — is the argv properties' subject (C22/C23), outside the
                # safe-value domain this property's argv clause is checked on
                return None
        else:
            raise AssertionError("mandatory field without a value")
        items = v if isinstance(v, list) else [v]
        for it in items:  # a repeated option is printed once per value (tutorial: "--multi-opt 1 2 --multi-opt 1 5")
            argv += opt + ([atom_str(x) for x in it] if isinstance(it, tuple) else [atom_str(it)])
    return argv


def impl_argv(C, vals, scratch: Path) -> dict:
    rec: dict = {}
    try:
        task = C(**vals)
    except Exception as e:
        return {"err": "init:" + core.exc_tag(e)}
    with recording_executor(rec):
        try:
            task(cache_root=scratch / ("cache-" + uuid.uuid4().hex[:12]), worker="debug")
        except Exception as e:
            if "argv" not in rec:
                return {"err": "run:" + core.exc_tag(e)}
    cd = str(rec["cache_dir"])
    return {"argv": [("<JOB>" + a[len(cd):]) if (a == cd or a.startswith(cd + "/")) else a for a in map(str, rec["argv"])]}


# ------------------------------------------------------------------------------------------------


def tokens_of(template: str) -> list[str]:
    return template.split()


def run_define(ctx, cases, argv_budget=0):
    templates = [template_of(c) for c in cases]
    impls = [impl_define(t) for t in templates]
    ans = ctx.driver("Template", [{"op": "define", "tokens": tokens_of(t)} for t in templates])
    argv_jobs = []
    for k, (c, t, impl) in enumerate(zip(cases, templates, impls)):
        C = impl.pop("_class", None)
        model = None
        if ans is not None:
            if "error" in ans[k]:
                ctx.count("driver-rejected")
            else:
                model = model_define(ans[k])
                if model is None:
                    ctx.count("outside-model")
                    if c["grammatical"]:
                        ctx.tie_broken.append({"kind": "model-incomplete", "detail": f"grammatical template outside the model: {t}", "why": [ans[k][x].get("why") for x in ("parse", "define")]})
        ok = spec_define(c, impl)
        nfield = sum(1 for x in c["tokens"] if x["t"] != "raw")
        ctx.count(f"tokens={len(tokens_of(t)) - len(c['exe'].split())}")
        ctx.count("grammatical" if c["grammatical"] else "malformed")
        for x in c["tokens"]:
            ctx.count("tok:" + token_kind(x))
        ctx.count("define:" + (impl["define"].get("err") or "ok"))
        ctx.judge({"template": t, **c}, impl, model, ok, key=t, nontrivial=c["grammatical"] and nfield >= 2, what="parse_command_line_template / shell.define")
        if C is not None and c["grammatical"] and len(argv_jobs) < argv_budget:
            argv_jobs.append((c, t, C))
    return argv_jobs


def token_kind(x) -> str:
    if x["t"] != "arg":
        return x["t"]
    m = x["mod"]
    return ("opt+" if x["opt"] else "") + ("out" if x["out"] else "modify" if x["modify"] else "in") + ("" if m == "plain" else m if isinstance(m, str) else m[0])


def run_argv(ctx, jobs):
    scratch = ctx.scratch / "c25"
    scratch.mkdir(exist_ok=True)
    todo = []
    for c, t, C in jobs:
        vals = gen_values(ctx.rng, c, scratch)
        if vals is None:
            ctx.count("argv-not-sampled")
            continue
        want = oracle_argv(c, vals)
        if want is None:
            ctx.count("argv-not-sampled")
            continue
        todo.append((c, t, vals, want, impl_argv(C, vals, scratch)))
    q = [{"op": "argv", "tokens": tokens_of(t), "job": "<JOB>", "vals": [[n, to_model_val(v)] for n, v in vals.items()]} for _, t, vals, _, _ in todo]
    ans = ctx.driver("Template", q)
    for k, (c, t, vals, want, impl) in enumerate(todo):
        model = None
        if ans is not None and "error" not in ans[k]:
            a = ans[k]
            if "argv" in a:
                model = {"argv": a["argv"]}
                eng = a.get("engine")
                if eng is None:
                    ctx.count("argv-engine-not-applicable")
                elif eng != a["argv"]:
                    # the Argv engine's model (theorem C25_argv) and this engine's own argv builder must agree
                    ctx.tie_broken.append({"kind": "argv-engine-disagrees", "template": t, "engine": eng, "template_model": a["argv"]})
                else:
                    ctx.count("argv-engine-agrees")
            elif a["err"].startswith("unmodelled"):
                ctx.count("argv-outside-model:" + a["why"])
            else:
                model = {"err": a["err"]}
        ok = impl.get("argv") == want
        ctx.count("argv-run")
        case = {"template": t, "argv_values": {n: repr(v) for n, v in vals.items()}, "want": want}
        ctx.judge(case, impl, model, ok, key="argv:" + t + json.dumps(case["argv_values"], sort_keys=True), nontrivial=len(want) >= 3, what="argv of the defined task")


def correspondence(ctx):
    core.assert_repo_loaded()
    corpus = []
    cf = core.VERIF / "corpus" / "template" / "C25.jsonl"
    if cf.exists():
        corpus = [json.loads(l) for l in cf.read_text().splitlines() if l.strip()]
    cases = corpus + [gen_case(ctx.rng) for _ in range(ctx.pick(380, 6000))]
    if not ctx.quick:
        cases += list(exhaustive_cases(4))
    else:
        cases += list(exhaustive_cases(2))
    jobs = run_define(ctx, cases, argv_budget=ctx.pick(90, 2500))
    run_argv(ctx, jobs)


def search(ctx):
    jobs = run_define(ctx, [gen_case(ctx.rng) for _ in range(ctx.pick(4000, 20000))], argv_budget=ctx.pick(300, 3000))
    run_argv(ctx, jobs)


def replay(ctx, rec):
    c = rec["case"]
    if "argv_values" in c:
        ctx.notes.append("argv cases are replayed by re-running the seed; template: " + c["template"])
        return
    run_define(ctx, [{k: c[k] for k in ("exe", "tokens", "grammatical")}])
