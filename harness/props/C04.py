"""C04 — Splitting nested containers visits every inner element (DESIGN §6 C04, engine StateAlg §5.1)."""

from __future__ import annotations

import itertools
import json

from harness import core
from harness.engines import statealg as sa

META = {
    "engine": "StateAlg",
    "category": "proof",
    "design_ref": "§6 C04, §5.1",
    "technique": "Lean 4 theorems about input_shape / flatten / map_splits (structural induction over nested lists of any depth "
    "and width) + differential correspondence on State.prepare_states and the public Task.split(container_ndim=...)() path",
    "text": "Lean theorems: flatten (the element extraction) yields exactly the depth-n elements in depth-first order for EVERY "
    "nested value (C04_flatten_full); for every value the jobs see the first prod(input_shape) of them or the split fails with "
    "IndexError (C04_model_char), hence the property holds for a value iff prod(input_shape) = number of depth-n elements "
    "(C04_holds_iff); that is the case for every value rectangular down to depth n, any depth and width (C04_partial), alone "
    "(C04_alone) and inside outer/inner splitters (C04_in_splitters, via C01_refines).  PARTIAL: for ragged values input_shape "
    "falls back to the outer length, elements are dropped or IndexError is raised (witnesses C04_witness_ragged, "
    "C04_witness_empty, C04_full_statement_fails; known finding D3).",
    "note": "Trusted: Lean kernel; hand-written model of input_shape/flatten/map_splits (lists only: tuples inside values are not "
    "modelled); generator reach (depth <= 3, inner lengths 0-3, container_ndim 1..depth, alone and under [x,y] / (x,y)).",
    "rule": "case = (nested value, container_ndim, context alone | outer | inner, level); distinct by canonical JSON; "
    "non-trivial = container_ndim >= 2 and >= 2 elements at that depth",
    "assumptions": [
        "values are nested Python lists whose atoms all sit at the same depth (so 'element at depth n' is unambiguous)",
        "container_ndim >= 1 and <= depth of the value",
    ],
    "trusted": ["model of input_shape / flatten / map_splits written by hand (StateAlg/Model.lean)"],
}

_NS = "PydraModel.StateAlg."
OBLIGATIONS = [
    _NS + n
    for n in (
        "flatten_eq_leavesAt",
        "rect_shape",
        "C04_flatten_full",
        "C04_partial",
        "C04_model_char",
        "C04_holds_iff",
        "C04_alone",
        "C04_in_splitters",
        "C04_witness_ragged",
        "C04_witness_empty",
        "C04_full_statement_fails",
    )
]
LEAN_TARGETS = ["PydraModel.Props.C04"]
MODEL_TARGETS = ["PydraModel.StateAlg.Model", "PydraModel.StateAlg.Spec", "PydraModel.DriverUtil"]

W_RAGGED = {"splitter": sa.F(0), "fields": [[0, [[1, 2], [3]], 2]], "combiner": []}
W_EMPTY = {"splitter": sa.F(0), "fields": [[0, [[], [1]], 2]], "combiner": []}


def nested_case(rng, ctxkind=None):
    """a nested value (depth 1..3, regular or ragged) with container_ndim 1..depth, alone or under [x,y] / (x,y)"""
    cnt = sa.Counter(1)
    depth = rng.choice([1, 2, 2, 2, 2, 3, 3, 3])
    nd = rng.choice([n for n in range(1, depth + 1) for _ in range(1 if n == 1 else 3)])
    if rng.random() < 0.4:
        dims = [sa.rand_len(rng, 0, 3) for _ in range(depth)]
        v = sa.rect_value(dims, cnt)
    else:
        v = sa.ragged_value(rng, depth, cnt, 3, 0)
    kind = ctxkind or rng.choice(["alone", "alone", "alone", "outer", "inner", "inner"])
    x, y = rng.sample(range(len(sa.FIELDS)), 2)
    if kind == "alone":
        return {"splitter": rng.choice([sa.F(x), sa.F(x), sa.O(sa.F(x)), sa.I(sa.F(x))]), "fields": [[x, v, nd]], "combiner": []}
    n_el = len(sa.leaves_at(v, nd))
    d = sa.dims_of(v, nd)
    if kind == "outer":
        other = sa.rect_value([sa.rand_len(rng, 0, 3)], cnt)
        pair = [sa.F(x), sa.F(y)] if rng.random() < 0.5 else [sa.F(y), sa.F(x)]
        return {"splitter": sa.O(*pair), "fields": [[x, v, nd], [y, other, 1]], "combiner": []}
    # inner: the partner has the same shape (another nested value), the same element count (flat), or a different length
    r = rng.random()
    if r < 0.4 and d is not None:
        other, ond = sa.rect_value(d, cnt), nd
    elif r < 0.8:
        other, ond = sa.rect_value([n_el], cnt), 1
    else:
        other, ond = sa.rect_value([sa.rand_len(rng, 0, 3)], cnt), 1
    pair = [sa.F(x), sa.F(y)] if rng.random() < 0.5 else [sa.F(y), sa.F(x)]
    return {"splitter": sa.I(*pair), "fields": [[x, v, nd], [y, other, ond]], "combiner": []}


def lenient(case, oracle, impl_obs) -> bool | None:
    """Where the property is silent: an inner product of a rectangular multi-dimensional field with an operand of the same
    element count but another shape (e.g. 2x3 against a flat list of 6).  The code rejects it (shapes differ); pairing
    the elements positionally would be acceptable too.  Returns True when `impl_obs` is one of the acceptable outcomes."""
    if sa.kind(case["splitter"]) != "i" or len(case["fields"]) != 2:
        return None
    (_, v1, n1), (_, v2, n2) = case["fields"]
    d1, d2 = sa.dims_of(v1, n1), sa.dims_of(v2, n2)
    if d1 is None or d2 is None or d1 == d2:
        return None
    c1, c2 = len(sa.leaves_at(v1, n1)), len(sa.leaves_at(v2, n2))
    if c1 != c2:
        return None
    return True  # same count, different rectangular shapes: rejection or positional pairing both satisfy the statement


def judge_recs(ctx, recs):
    for r in recs:
        case, level = r["case"], r["level"]
        impl = sa.observable(r["impl"], level)
        model = sa.observable(r["model"], level)
        orc = sa.observable(r["oracle"], level)
        ragged = sa.is_ragged_case(case)
        nd = max(n for _, _, n in case["fields"])
        where = "alone" if len(case["fields"]) == 1 else {"o": "outer", "i": "inner"}[sa.kind(case["splitter"])]
        ctx.count(f"{level}:{where}:ndim={nd}:" + ("ragged" if ragged else "rect"))
        spec_ok = impl == orc
        if not spec_ok and lenient(case, r["oracle"], impl):
            # the reference pairs positionally; the code rejects: both acceptable here
            spec_ok = bool(impl.get("rejected")) and impl.get("task_jobs", 0) == 0 and impl.get("body_runs", 0) == 0
            ctx.count("silent-zone(same count, different shape)")
        n_el = max(len(sa.leaves_at(v, n)) for _, v, n in case["fields"])
        ctx.judge(
            {"case": case, "level": level},
            impl,
            model,
            spec_ok,
            nontrivial=nd >= 2 and n_el >= 2,
            defect="D3" if ragged else None,
            key=json.dumps([case, level]),
            what=f"C04 {level}",
        )


def exhaustive_depth2():
    """every length profile of a depth-2 list with 0-3 inner lists of length 0-3, container_ndim 1 and 2, alone"""
    items = []
    for k in range(4):
        for prof in itertools.product(range(4), repeat=k):
            cnt = sa.Counter(1)
            v = [[cnt.next() for _ in range(n)] for n in prof]
            for nd in (1, 2):
                items.append(({"splitter": sa.F(0), "fields": [[0, v, nd]], "combiner": []}, "state"))
    return items


def correspondence(ctx):
    core.assert_repo_loaded()
    # known finding D3: replay both witnesses on the public path
    a = sa.public_level(W_RAGGED, ctx.scratch / "w_ragged")
    b = sa.public_level(W_EMPTY, ctx.scratch / "w_empty")
    orc_a = sa.oracle_case(W_RAGGED)["outputs"]
    fails = a.get("outputs") != orc_a or bool(b.get("rejected"))
    if any(f["id"] == "D3" for f in ctx.known()):
        ctx.finding("D3", fails, f"[[1,2],[3]] ndim=2 -> {len(a.get('outputs') or [])} of {len(orc_a)} jobs; [[],[1]] -> {b.get('class', 'ok')}")
    items = [(W_RAGGED, "state"), (W_RAGGED, "public"), (W_EMPTY, "state"), (W_EMPTY, "public")]
    items += [(c, lvl) for c in sa.corpus("c04.jsonl") for lvl in ("state", "public")]
    for _ in range(ctx.pick(900, 9000)):
        items.append((nested_case(ctx.rng), "state"))
    for _ in range(ctx.pick(60, 1200)):
        c = nested_case(ctx.rng)
        o = sa.oracle_case(c)
        if not o.get("rejected") and len(o["rows"]) > 30:
            continue
        items.append((c, "public"))
    if not ctx.quick:
        items += exhaustive_depth2()
    judge_recs(ctx, sa.run_batch(ctx, items))


def search(ctx):
    for _ in range(ctx.pick(5000, 25000)):
        c = nested_case(ctx.rng)
        impl = sa.observable(sa.state_level(c), "state")
        orc = sa.observable(sa.oracle_case(c), "state")
        ok = impl == orc or bool(lenient(c, None, impl) and impl.get("rejected"))
        ctx.judge({"case": c, "level": "state"}, impl, None, ok, defect="D3" if sa.is_ragged_case(c) else None, what="C04 search")


def replay(ctx, rec):
    c = rec["case"]
    case, level = (c["case"], c.get("level", "state")) if "case" in c else (c, "state")
    judge_recs(ctx, sa.run_batch(ctx, [(case, level)]))
