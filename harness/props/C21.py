"""C21 — Accepted lazy connections are honoured at run time (DESIGN §6 C21, engine Typing §5.6)."""

from __future__ import annotations

import json

from harness import core
from harness.engines import typing_eng as te
from harness.extractors.typing_tables import typing_tables

META = {
    "engine": "Typing",
    "category": "proof",
    "design_ref": "§6 C21, §5.6",
    "technique": "Lean 4 theorem by induction over the pattern (static check_type acceptance implies run-time coercion succeeds for "
    "every conforming value) over class tables regenerated from the running interpreter + differential correspondence",
    "text": "Lean theorem C21_partial_hashTyItems about models of TypeParser.check_type and TypeParser.coerce: if check_type(S) "
    "passes for a pattern T (default flags, no super-to-sub casting; acceptance through the MultiInputObj retry included) then, for "
    "every value that conforms to S and is built from scalars and list/tuple/set/frozenset/dict, coercion by T (with or without "
    "superclass_auto_cast) succeeds or fails only through a fixed-length-tuple arity mismatch.  Proved by induction over T for the "
    "WHOLE pattern grammar (classes, Any, unions, every generic origin: list/set/frozenset/abstract sequences and sets, "
    "dict/Mapping/MutableMapping, MultiInputObj[T], tuple[T1..Tn], tuple[T, ...]) against any well-formed Any-free source type S, "
    "any depth, any value size, under explicit decidable exclusions: str/bytes values inhabit only the classes str/bytes (D13 "
    "territory), and no position where a constructor call raises or cannot be made (findings D25, D25b, D25d) or where a set / dict "
    "key is built from items whose pattern is not `hashTy` (static form of D25c, the remaining restriction).  Supporting "
    "inductions: values stored by a hashTy pattern are hashable (C21_hashTy_hashable); outside D25d every pattern raises TypeError "
    "only.  The class-level base case C21_tables (static coercible(a, c) implies every concrete class below a is an instance of c or "
    "run-time coercible to c) is a `decide` over the issubclass matrix and COERCIBLE/NOT_COERCIBLE tables dumped from the "
    "interpreter on every run.  C21_partial_seqPatterns is the earlier, narrower statement.  Witness theorems C21_witness_* / "
    "C21_full_statement_false show the full statement fails on the pinned tree.  Both models are tied to the code by running "
    "check_type / matches_type on generated pairs (S, T) and, for accepted pairs, the field converter make_converter(T)(v) on values "
    "generated from S, against the Lean driver; the harness also counts how many explored cases lie under the theorems' hypotheses "
    "and checks the implementation behaves there as the theorems say.",
    "note": "Trusted: Lean kernel; hand-written models of check_type/expand_and_check and coerce (tie = differential + regenerated "
    "tables); finite class universe (32 classes incl. fileformats field.Integer/Decimal/Text/Boolean; no File/Directory/FsObject, numpy, ty.Type, StateArray); the theorem does not cover values of exotic classes (str as "
    "Sequence[str], range, dict views) nor set items / dict keys whose pattern is not hashTy (e.g. set[Any]).",
    "rule": "case = (S, T, values of S); distinct by canonical JSON of (S, T); non-trivial = the static check passes and at least "
    "one of S, T is generic or a union",
    "assumptions": ["run-time values of an abstract source type are instances of list/tuple/set/frozenset/dict (not str/bytes/range/dict views)"],
    "trusted": ["models of TypeParser.check_type and TypeParser.coerce written by hand (Typing/Model.lean)", "harness/engines/typing_eng.py"],
}

_NS = "PydraModel.Typing."
OBLIGATIONS = [
    _NS + n
    for n in (
        "C21_partial_hashTyItems",
        "C21_partial_seqPatterns",
        "C21_hashTy_hashable",
        "C21_tables",
        "C21_witness_bytes",
        "C21_witness_abstract",
        "C21_witness_unhashable",
        "C21_witness_valueError",
        "C21_full_statement_false",
    )
]
LEAN_TARGETS = ["PydraModel.Props.C21", "PydraModel.Gen.TypeCtorSamples"]
MODEL_TARGETS = ["PydraModel.Typing.Model", "PydraModel.Typing.Defects", "PydraModel.Typing.Static2", "PydraModel.Typing.IdemU", "PydraModel.DriverUtil"]
EXTRACTORS = [typing_tables]

RUNTIME_SAC = True  # the parser installed on task fields by make_converter (value re-read from the source by the extractor)
N_VALUES = 4


def impl_check(T, S):
    from pydra.utils.typing import TypeParser

    pt, ps = te.ty_to_py(T), te.ty_to_py(S)
    try:
        TypeParser(pt).check_type(ps)
        r = ["ok"]
    except Exception as e:
        r = ["err", core.exc_tag(e)]
    try:
        m = TypeParser.matches_type(ps, pt)
    except Exception as e:
        m = core.exc_tag(e)
    return r, m


def impl_coerce(T, v_py):
    """What the downstream input does with a run-time value: the attrs converter built by make_converter."""
    from pydra.compose import python
    from pydra.compose.base.builder import make_converter

    conv = make_converter(python.arg(type=te.ty_to_py(T), name="x"), "iface")
    try:
        r = conv(v_py)
    except Exception as e:
        return ["err", core.exc_tag(e)]
    return ["ok", te.sort_sets(te.canon(r))]


def _is_moo(t):
    return t[0] == "u" and sorted(json.dumps(a) for a in t[1]) == sorted(json.dumps(a) for a in te.MULTI_OUTPUT_OBJ[1])


def _res(r):
    return [r[0], te.sort_sets(r[1])] if r[0] == "ok" else ["err", r[1]]


def run_cases(ctx, cases):
    q, impls = [], []
    for c in cases:
        chk, m = impl_check(c["T"], c["S"])
        vals = []
        if chk == ["ok"] and te.ty_any_free(c["S"]):
            for _ in range(N_VALUES * 3):
                v = te.gen_conforming(ctx.rng, c["S"], exotic=0.0)
                if v is None:
                    continue
                v_py = te.val_to_py(v)
                if not te.conforms(c["S"], v_py):
                    raise RuntimeError(f"generator produced a non-conforming value {v!r} for {te.ty_str(c['S'])}")
                vals.append(te.canon(v_py))
                if len(vals) == N_VALUES:
                    break
        pyvals = [te.val_to_py(v) for v in (c.get("vals") or vals)]
        c["vals"] = [te.canon(v) for v in pyvals]  # iteration order of the very objects handed to the implementation
        runs = [impl_coerce(c["T"], v) for v in pyvals]
        impls.append({"check": chk, "matches_type": m, "runs": runs})
        q.append({"op": "check", "T": c["T"], "S": c["S"]})
        for v in c["vals"]:
            q.append({"op": "assign", "t": c["T"], "v": v})
            q.append({"op": "hyp21", "T": c["T"], "S": c["S"], "v": v})
    ans = ctx.driver("Typing", q)
    pos = 0
    for k, c in enumerate(cases):
        impl = impls[k]
        n = len(c["vals"])
        model = None
        if ans is not None:
            a = ans[pos : pos + 1 + 2 * n]
            for x in a:
                if "error" in x:
                    raise RuntimeError(f"driver rejected a generated case: {x['error']} {json.dumps(c)[:300]}")
            model = {"check": a[0]["r"], "matches_type": a[0]["r"] == ["ok"], "runs": [_res(x["r"]) for x in a[1::2]]}
            # how much of what is explored lies under the hypotheses of the Lean theorem, and does the
            # implementation behave there as the theorem says?
            for v, r, hyp in zip(c["vals"], impl["runs"], a[2::2]):
                if not hyp["conf"]:
                    raise RuntimeError(f"Lean `conforms` rejects a value the Python oracle accepts: {json.dumps(c)[:300]}")
                plain_T = c["T"] not in (["c", "MultiInputObj"],) and not _is_moo(c["T"])  # no pre-converter in play
                base = impl["check"] == ["ok"] and plain_T and all(hyp[k] for k in ("wf", "anyFree", "std", "strict"))
                if base and hyp["seqPat"] and not hyp["ex21"]:
                    ctx.count("under-hypotheses-of-C21_partial_seqPatterns")
                if base and not hyp["ex21x"]:
                    ctx.count("under-hypotheses-of-C21_partial_hashTyItems")
                if base and ((hyp["seqPat"] and not hyp["ex21"]) or not hyp["ex21x"]):
                    if r[0] != "ok" and not (r[1] == "TypeError" and te.arity_excuse(c["T"], v)):
                        ctx.tie_broken.append({"kind": "theorem-vs-implementation", "case": c, "value": v, "impl": r,
                                               "detail": "the hypotheses of a C21 theorem hold but the implementation rejects the value"})
        pos += 1 + 2 * n
        # spec: static acceptance => every conforming value is accepted at run time (tuple arity aside)
        ok, defect, why = True, None, None
        if impl["check"] == ["ok"]:
            for v, r in zip(c["vals"], impl["runs"]):
                if r[0] == "ok":
                    continue
                if r[1] == "TypeError" and te.arity_excuse(c["T"], v):
                    ctx.count("excused-by-tuple-arity")
                    continue
                ok = False
                why = f"accepted statically, value {te.val_to_py(v)!r} -> {r[1]}"
                if te.d13_match(c["T"], v):
                    defect = "D25e"  # a str inside the value is split by T (C20's finding) and the pieces do not fit
                elif te.d25a_match(c["T"], v):
                    defect = "D25"
                elif te.d25b_match(c["T"], v):
                    defect = "D25b"
                elif te.d25c_match(RUNTIME_SAC, c["T"], v):
                    defect = "D25c"
                elif r[1] == "ValueError" and te.d25d_match(c["T"], v):
                    defect = "D25d"
                else:
                    defect = None
                    break
        if impl["matches_type"] != (impl["check"] == ["ok"]):
            ok, why, defect = False, "matches_type disagrees with check_type", None
        accepted = impl["check"] == ["ok"]
        ctx.count("static=" + ("accepted" if accepted else impl["check"][1]))
        ctx.count("pair-stream=" + c.get("stream", "?"))
        if accepted:
            ctx.count(f"values-tried={n}")
            ctx.count("runtime-ok", sum(1 for r in impl["runs"] if r[0] == "ok"))
            ctx.count("runtime-rejected", sum(1 for r in impl["runs"] if r[0] != "ok"))
        nontrivial = accepted and (c["S"][0] != "c" or c["T"][0] != "c")
        ctx.judge(c, impl, model, ok, nontrivial=nontrivial, defect=defect, key=json.dumps([c["S"], c["T"]]), what="check_type vs coerce" + (f" [{why}]" if why else ""))


SUBCLS = {
    "int": ["bool", "FieldInteger"], "float": ["int", "bool", "FieldInteger", "FieldDecimal"], "FieldInteger": ["int", "bool"], "FieldDecimal": ["float", "int"],
    "FieldText": ["str"], "FieldBoolean": ["bool"], "bool": ["FieldBoolean", "FieldInteger"], "Sequence": ["list", "tuple"], "Mapping": ["dict"], "SetABC": ["set", "frozenset"],
    "MutableSequence": ["list"], "MutableSet": ["set"], "MutableMapping": ["dict"], "Iterable": ["list", "set", "Sequence"],
    "Collection": ["list", "frozenset"], "PathLike": ["Path", "str"], "Path": ["PosixPath"], "object": ["int", "str"], "str": ["Path", "FieldText"],
    "list": ["MultiInputObj", "tuple", "set"], "tuple": ["list"], "set": ["list", "frozenset"], "frozenset": ["set", "tuple"], "dict": ["Mapping"],
}  # fmt: skip


def coercible_variant(rng, t):
    """A source type likely to be accepted for pattern t: sub-classes / coercible classes, same shape."""
    k = t[0]
    if k == "any":
        return te.gen_type(rng, 1)
    if k == "c":
        if rng.random() < 0.5:
            return t
        c = rng.choice(SUBCLS.get(t[1], [t[1]]))
        if c in te.SEQ_ORIGINS and rng.random() < 0.6:
            return ["g", c, [te.gen_type(rng, 0)]]
        return ["c", c]
    if k == "u":
        r = rng.random()
        if r < 0.4:
            return coercible_variant(rng, rng.choice(t[1]))
        if r < 0.7:
            return te.mk_union([coercible_variant(rng, a) for a in rng.sample(t[1], rng.choice([1, len(t[1])]))])
        return t
    if k == "tv":
        r = rng.random()
        a = coercible_variant(rng, t[1])
        if r < 0.4:
            return ["tv", a]
        if r < 0.7:
            return ["g", rng.choice(["list", "set", "Sequence"]), [a]]
        return ["g", "tuple", [a] * rng.choice([1, 2])]
    o, args = t[1], t[2]
    if o == "MultiInputObj":
        a = coercible_variant(rng, args[0])
        return rng.choice([a, ["g", "list", [a]], ["g", "MultiInputObj", [a]], ["tv", a]])
    if o in te.MAP_ORIGINS:
        return ["g", rng.choice(te.MAP_ORIGINS), [coercible_variant(rng, args[0]), coercible_variant(rng, args[1])]]
    if o == "tuple":
        r = rng.random()
        if r < 0.6:
            return ["g", "tuple", [coercible_variant(rng, a) for a in args]]
        a = coercible_variant(rng, args[0])
        return rng.choice([["tv", a], ["g", "list", [a]], ["g", "set", [a]]])
    a = coercible_variant(rng, args[0])
    o2 = rng.choice(["list", "tuple-var", "set", "frozenset", "Sequence", "MutableSequence", "SetABC", "Iterable", "Collection", "MultiInputObj", o, o])
    if o2 == "tuple-var":
        return ["tv", a]
    return ["g", o2, [a]]


def gen_pair(rng):
    depth = rng.choice([0, 1, 1, 2, 2, 3])
    T = te.gen_type(rng, depth)
    r = rng.random()
    if r < 0.15:
        S, stream = T, "same"
    elif r < 0.65:
        S, stream = coercible_variant(rng, T), "coercible-variant"
    elif r < 0.85:
        S, stream = te.neighbour_type(rng, T), "neighbour"
    else:
        S, stream = te.gen_type(rng, rng.choice([0, 1, 2])), "random"
    return {"S": S, "T": T, "stream": stream}


def _load_corpus():
    """corpus/typing/c21.jsonl: witnesses of the known findings (finding != null) and regression cases
    (near misses that must stay rejected / accepted connections that must keep working)."""
    wit, reg = [], []
    for line in (core.VERIF / "corpus" / "typing" / "c21.jsonl").read_text().splitlines():
        if line.strip():
            rec = json.loads(line)
            (wit.append((rec["finding"], rec["case"])) if rec["finding"] else reg.append(rec["case"]))
    return wit, reg


WITNESSES, CORPUS = _load_corpus()


def correspondence(ctx):
    core.assert_repo_loaded()
    known = {f["id"] for f in ctx.known()}
    status = {}
    for fid, c in WITNESSES:
        chk, _ = impl_check(c["T"], c["S"])
        runs = [impl_coerce(c["T"], te.val_to_py(v)) for v in c["vals"]]
        fails = chk == ["ok"] and all(te.conforms(c["S"], te.val_to_py(v)) for v in c["vals"]) and any(r[0] != "ok" for r in runs)
        status.setdefault(fid, []).append((fails, f"check_type({te.ty_str(c['S'])} -> {te.ty_str(c['T'])}) = {chk}; run time {runs}"))
    for fid, l in status.items():
        if fid in known:
            ctx.finding(fid, all(x[0] for x in l), "; ".join(x[1] for x in l))
    run_cases(ctx, [json.loads(json.dumps(c)) for _, c in WITNESSES] + json.loads(json.dumps(CORPUS)))
    n = ctx.pick(4000, 60000)
    for _ in range(max(1, n // 20000)):
        run_cases(ctx, [gen_pair(ctx.rng) for _ in range(min(n, 20000))])


def search(ctx):
    run_cases(ctx, [gen_pair(ctx.rng) for _ in range(ctx.pick(8000, 60000))])


def replay(ctx, rec):
    run_cases(ctx, [rec["case"]])
