"""C11 — At-most-once execution per identity; rerun and read-only caches as documented (DESIGN §6 C11, §5.4).

Case = a history (≤ 8 submissions, plus planted leftovers) over the pool of harness/engines/cachehist.py: five python
tasks (deterministic, always failing, fail-first, ok-first), two flat workflows whose node identities coincide with
standalone tasks, and two NESTED workflows (a workflow as a node: depth 2 and depth 3, the inner workflow identities
coinciding with the standalone workflows); every submission picks a cache root among three locations, an ordered read-only list among the other
locations (one of which may not exist), `rerun` and, for workflows, `propagate_rerun`; `plant` puts a leftover
incomplete job directory (empty, job file only, empty result file, torn result file) at any location.

  implementation observable  after every operation: returned value / "err", the state of every (location, identity)
                             directory (absent / incomplete / value / err), execution counters (counter files that
                             are task inputs; workflow executions by the identity of the result file)
  model observable           the same from `CacheHist.step` (Lean driver)
  spec oracle (independent)  `cachehist.reference`: one abstract cache per location (complete results only), in plain
                             Python; the implementation must return the same values, execute exactly when the abstract
                             cache executes, and leave every location other than the root untouched (names, sizes,
                             mtimes of everything under it, snapshotted before/after)
"""

from __future__ import annotations

import json

from harness import core
from harness.extractors.job_skeleton import extract_job_skeleton
from harness.extractors.cachehist import extract_rerun_call_sites
from harness.engines import cachehist as ch

META = {
    "engine": "JobProto",
    "category": "proof",
    "design_ref": "§6 C11, §5.4, §7 D8 (fixed)",
    "technique": "Lean 4 refinement to an abstract cache + counting invariant by induction over submission histories; "
    "differential correspondence on real cache directories (debug and cf workers)",
    "text": "Lean theorems over histories of ANY length, any number of cache locations / read-only lists / workflow nodes, "
    "arbitrary (also flaky) task bodies and leftover incomplete directories anywhere: C11_refines — Job.run's cached-result "
    "test + load_result over [cache_root]+readonly_caches + the execute branch + expand_workflow behave exactly like an "
    "abstract cache holding only complete results (same return values, same executions); C11_at_most_once — executions of an "
    "identity into a root ≤ 1 + rerun submissions + submissions that saw an errored result + killed runs there (C11_once: a "
    "deterministically succeeding task executes at most once); C11_returns_fresh — every submission of a deterministic task "
    "returns the value of a fresh execution; C11_rerun_executes / C11_propagate_rerun / C11_no_propagate; C11_reuse — a "
    "complete result in any listed location is reused whatever leftovers precede it; C11_readonly_untouched(_history) — "
    "only the cache root is ever written.  C11_shadow_regression: the D8 witness now behaves as the abstract cache; "
    "C11_shadow_old_witness documents that the pinned load_result did not.  Tied to pydra/engine/job.py, result.py, "
    "submitter.py by replaying generated histories on real directories. C11_skeleton (decide over the skeleton of Job.run / run_async regenerated from the source on every run): the cached-result test sits under the job lock, a cached result ends the run before anything is cleared or written, the result is saved also when the body raises, rerun skips the test.",
    "note": "Trusted: Lean kernel; hand-written model CacheHist.lean (workflows nested to any depth, node jobs sequential, first "
    "failing node ends the workflow; one function for the synchronous and the asynchronous expansion, tied to the source by "
    "C11_call_sites); the file-system observation (directory state, counter files); generator reach.",
    "rule": "case = history of ≤ 8 submissions (+ ≤ 3 plants) and a worker; distinct by canonical JSON; non-trivial = some "
    "identity is submitted at least twice and the history contains a non-empty read-only list, a plant or a rerun",
    "assumptions": [
        "submissions of one history are sequential (concurrent submitters are C10's subject)",
        "a checksum identifies the task (C06/C07); workflow and node identities are disjoint (checksum prefix)",
        "node jobs of a workflow run one after the other and a failing node ends the workflow (chains)",
        "no workflow contains a workflow of its own identity (hypothesis Op.Acyclic of the counting theorems)",
    ],
    "trusted": ["model of Job.run's cache protocol / load_result / expand_workflow written by hand (JobProto/CacheHist.lean)"],
}

_NS = "PydraModel.JobProto.CacheHist."
OBLIGATIONS = [
    _NS + n
    for n in (
        "C11_refines",
        "C11_at_most_once",
        "C11_at_most_once_from",
        "C11_once",
        "C11_returns_fresh",
        "C11_rerun_executes",
        "C11_propagate_rerun",
        "C11_no_propagate",
        "C11_reuse",
        "C11_readonly_untouched",
        "C11_readonly_untouched_history",
        "C11_shadow_regression",
        "C11_shadow_old_witness",
        "C11_nested_rerun_regression",
        "C11_witness_nested_flag",
        "C11_call_sites",
    )
]
OBLIGATIONS.append("PydraModel.JobProto.Skel.C11_skeleton")  # decide over the regenerated Job.run / run_async skeleton
LEAN_TARGETS = ["PydraModel.Props.C11", "PydraModel.JobProto.HashCheckSkel", "PydraModel.JobProto.CacheHistCallSites"]
EXTRACTORS = [extract_job_skeleton, extract_rerun_call_sites]
MODEL_TARGETS = ["PydraModel.JobProto.CacheHist", "PydraModel.DriverUtil"]

CORPUS = core.VERIF / "corpus" / "cachehist" / "histories.jsonl"
PLANT_KINDS = ["emptydir", "emptydir", "jobonly", "emptyresult"]
WATCHDOG_S = float(__import__("os").environ.get("VERIF_WATCHDOG_S", "900"))  # per history; generous: the machine may be heavily loaded


def gen_history(rng, max_subs: int, worker: str = "debug", torn: bool = False) -> dict:
    focus_t = rng.sample(range(7), rng.choice([1, 2, 2, 3]))
    focus_w = rng.choice([[], [0], [1], [0, 1], [2], [0, 2], [3], [2, 3], [1, 3]])
    ops, subs, plants = [], 0, 0
    n_subs = rng.randint(2, max_subs)
    while subs < n_subs:
        r = rng.random()
        root = rng.randrange(3)
        others = [l for l in range(ch.N_LOCS) if l != root]
        ro = rng.sample(others, rng.choice([0, 0, 1, 1, 2, 3]))
        if r < 0.18 and plants < 3:
            keys = [f"t{n}" for n in focus_t] + [f"w{n}" for n in focus_w]
            kind = "torn" if (torn and rng.random() < 0.3) else rng.choice(PLANT_KINDS)
            ops.append(["plant", rng.randrange(ch.N_LOCS), rng.choice(keys), kind])
            plants += 1
        elif r < 0.40 and focus_w:
            n = rng.choice(focus_w)
            ops.append(["submitWf", n, ch.WF_NODES[n], root, ro, rng.random() < 0.3, rng.random() < 0.6])
            subs += 1
        else:
            ops.append(["submit", rng.choice(focus_t), root, ro, rng.random() < 0.2])
            subs += 1
    return {"ops": ops, "worker": worker}


def nontrivial(case) -> bool:
    keys = [(o[0], o[1]) for o in case["ops"] if o[0] != "plant"]
    rep = len(keys) != len(set(keys))
    spice = any(o[0] == "plant" or (o[0] == "submit" and (o[3] or o[4])) or (o[0] == "submitWf" and (o[4] or o[5])) for o in case["ops"])
    return rep and spice


def run_cases(ctx, cases, with_model=True):
    impls = []
    for c, r in zip(cases, ch.ChildRunner("harness.engines.cachehist:child_history", ctx.scratch, WATCHDOG_S).run(cases, "c11")):
        if "ok" in r:
            impls.append((r["ok"]["trace"], r["ok"]["untouched"]))
        elif "harness_error" in r:
            raise RuntimeError("harness function failed in the child: " + r["harness_error"] + "\n" + r.get("trace", ""))
        else:  # hang / crash of the implementation: a finding about this history, not an infrastructure problem
            impls.append(([{"out": "HANG" if "hang" in r else "CRASH", "cells": None, "execs": None}], False))
    ans = ctx.driver("CacheHist", [ch.model_case(c) for c in cases]) if with_model else None
    for k, (c, (tr, untouched)) in enumerate(zip(cases, impls)):
        model = None
        if ans is not None:
            if "trace" in ans[k]:
                model = ans[k]["trace"]
            else:
                ctx.tie_broken.append({"kind": "model-driver", "detail": ans[k]})
        ref_outs, ref_counts = ch.reference(c)
        outs_ok = [t["out"] for t in tr] == ref_outs
        execs_ok = [t["execs"] for t in tr] == ref_counts
        spec_ok = outs_ok and execs_ok and untouched
        what = "submission history" + ("" if outs_ok else " [returned values differ from the abstract cache]") + (
            "" if execs_ok else " [executions differ from the abstract cache]"
        ) + ("" if untouched else " [a location other than the cache root was modified]")
        ctx.count(f"worker={c.get('worker', 'debug')}")
        ctx.count(f"ops={len(c['ops'])}")
        for o in c["ops"]:
            ctx.count("op=" + o[0] + (":" + o[3] if o[0] == "plant" else ""))
            if o[0] == "submit" and o[4] or o[0] == "submitWf" and o[5]:
                ctx.count("rerun")
            if o[0] != "plant" and (o[3] if o[0] == "submit" else o[4]):
                ctx.count("readonly-list-nonempty")
        ctx.judge(c, tr, model, spec_ok, nontrivial=nontrivial(c), what=what)


def load_corpus(tier="thorough"):
    out = [json.loads(l) for l in CORPUS.read_text().splitlines() if l.strip() and not l.startswith("#")]
    return [c for c in out if tier == "thorough" or c.get("tier") != "thorough"]


def correspondence(ctx):
    import time

    t0 = time.time()
    core.assert_repo_loaded()
    corpus = load_corpus(ctx.tier)
    # corpus first: the D8 witness (fixed: must pass) in all plant flavours, the stale-_errored regression, rerun/propagate;
    # then generated histories (one driver call for everything: the Lean interpreter's start-up dominates under load)
    cases = list(corpus)
    n_debug = ctx.pick(40, 500)
    cases += [gen_history(ctx.rng, 8, "debug", torn=(i % 25 == 7)) for i in range(n_debug)]
    n_cf = ctx.pick(1, 15)
    cases += [gen_history(ctx.rng, ctx.pick(3, 5), "cf") for _ in range(n_cf)]
    run_cases(ctx, cases)
    ctx.extra["correspondence_s"] = round(time.time() - t0, 1)


def search(ctx):
    run_cases(ctx, load_corpus(), with_model=False)
    run_cases(ctx, [gen_history(ctx.rng, 8, "debug") for _ in range(ctx.pick(150, 1500))], with_model=False)


def replay(ctx, rec):
    run_cases(ctx, [rec["case"]])
