"""C08 — Value hashing is deterministic, discriminating and context-free (DESIGN §6 C08, engine Hash §5.3)."""

from __future__ import annotations

import copy
import json
from pathlib import Path

from harness import core
from harness.engines import hashing as H
from harness.extractors.hash_lits import hash_lits

META = {
    "engine": "Hash",
    "category": "proof",
    "design_ref": "§6 C08, §5.3, §2.3",
    "technique": "Lean 4 theorems by structural induction over the value grammar, digest function H a parameter "
    "(collision-extraction form, no injectivity assumed); serializer literals regenerated from the source and the tag table "
    "re-checked by decide; differential correspondence hex-for-hex with a Lean BLAKE2b",
    "text": "Lean theorems for values of any size and depth, with the digest function H an arbitrary function that returns "
    "16 bytes: (order) two values with the same content whose sets were iterated and whose dicts were filled in any other "
    "order get the same hash — sets and frozensets are ordered by the digests of their elements, dict items by the byte "
    "representation of their keys; the only hypothesis left is well-formedness (the keys of one dict are pairwise different) "
    "(C08_order_indep; C08_sorted_perm: sorted() of a permutation is the same list); (discrimination) equal "
    "hashes of two values of the grammar G0 imply that the values have the same type and content up to set/dict order, "
    "or else exhibit two different byte strings among their sub-encodings with the same H-image (C08_discriminates); "
    "(context) hash_single with its id-keyed memo returns, for every value without reference cycles whose live objects "
    "have unique ids, the hash the value gets alone, whatever was hashed before in the same Cache (C08_context_free).  "
    "Witness theorem for what the tree does not satisfy: a member of a reference cycle hashed after another member gets "
    "another hash (C08_witness_cycle, D66).  Repaired defects D6 / D68 (sets and mapping keys ordered by value): regression "
    "theorems C08_regression_set_of_sets / C08_regression_unorderable_set / C08_regression_unorderable_keys, the old algorithms "
    "are documented by C08_old_sorted_by_value / C08_old_keys_sorted_by_value.  "
    "The tag literals come from pydra/utils/hash.py on every run "
    "(Gen/HashLits.lean; heads_prefix_free / len_seps_ok / words_ok / sources_ok are closed by decide).  The model is tied to the code by hashing generated "
    "values and near-miss pairs with the real hash_function and with the model instantiated with a Lean BLAKE2b "
    "(itself compared with hashlib on every run).",
    "note": "Trusted: Lean kernel; hand-written model (Hash/Model.lean) of the serializers; harness conversion of Python "
    "objects to model values (which attributes the generic fallback sees, ast.dump of function sources, id() numbering); a "
    "str is represented by its UTF-8 bytes (UTF-8 preserves code-point order); CPython list.sort for < 64 elements is "
    "count_run + binary insertion.  Not modelled (implementation checked against the oracle only): user classes hashed "
    "through __dict__, non-scalar dict keys, object arrays, file sets.",
    "rule": "case = (value, near-miss value, aspect) from a typed grammar (depth <= 4, width <= 4; scalars incl. the int64/long "
    "boundary, ±0.0, inf; str/bytes incl. separator look-alikes; list/tuple/set/frozenset/dict; attrs, slots and plain "
    "objects; inline types; functions from generated source, exec'd without source, closures, lambdas; functools.partial objects "
    "and bound methods; numpy arrays (C / Fortran / transposed / strided layouts) and "
    "scalars of 9 dtypes, 14 shapes; shared sub-objects; Python-equal values of different type (1 / True / 1.0, 0 / -0.0, (1, 2) / "
    "(True, 2.0), …) as keys, elements and plain values of sibling containers), or (context values, value) hashed with one Cache; distinct by "
    "canonical JSON of the pair and aspect; non-trivial = at least one of the two values is not a bare scalar",
    "assumptions": [
        "a lambda, like a function without retrievable source, is identified by its code object; the content of a function is its parameter list and body (name, annotations are not content; closure cells are C06's subject); "
        "a function without retrievable source is identified by its code object, name included",
        "attrs attributes declared eq=False are not content (documented in bytes_repr); neither is an entry of an instance __dict__ whose "
        "value is a bound method (skipped by the fallback's is_special_or_method filter, whatever object the method is bound to)",
        "the content of an array is its dtype, shape and elements in index order; its memory layout (C, Fortran, transposed or strided view) is not content",
        "floats are compared by bit pattern (0.0 and -0.0 are different contents); NaN does not occur inside sets or as dict key",
        "id() is unique among simultaneously live objects; every object reachable from the hashed value stays alive during the call",
    ],
    "trusted": [
        "model of pydra/utils/hash.py written by hand (Hash/Model.lean); literals and source skeletons regenerated (Gen/HashLits.lean)",
        "Lean BLAKE2b (Hash/Blake2b.lean) used by the driver only, validated against hashlib.blake2b on every run",
    ],
}

_NS = "PydraModel.Hash."
OBLIGATIONS = [
    _NS + n
    for n in (
        "C08_sorted_perm",
        "C08_order_indep",
        "C08_discriminates",
        "C08_keys_self_delimiting",
        "C08_context_free",
        "C08_context_free_seq",
        "C08_hashFunction_pure",
        "C08_regression_set_of_sets",
        "C08_regression_unorderable_set",
        "C08_old_sorted_by_value",
        "C08_regression_unorderable_keys",
        "C08_old_keys_sorted_by_value",
        "C08_witness_cycle",
        "C08_witness_layout_dependent_serialisation",
        "C08_key_repr_memo_free",
        "C08_untracked_memo_free",
        "C08_witness_value_keyed_key_memo",
        "heads_prefix_free",
        "len_seps_ok",
        "words_ok",
        "Sources.sources_ok",
    )
]
LEAN_TARGETS = ["PydraModel.Props.C08", "Drivers.Hash"]
MODEL_TARGETS = ["PydraModel.Hash.DriverImpl", "Drivers.Hash"]
EXTRACTORS = [hash_lits]

CORPUS = core.VERIF / "corpus" / "hash" / "c08.jsonl"


# ---------------------------------------------------------------------------------------------------------------
# match rules of the known findings (predicates on the case)


def _strip(s, fn):
    """copy of the spec with every node n for which fn(n) is not None replaced by that token"""
    s = copy.deepcopy(s)

    def go(n):
        t = fn(n)
        if t is not None:
            return {"k": "str", "v": t}
        if "xs" in n:
            n["xs"] = [go(x) for x in n["xs"]]
        if "items" in n:
            n["items"] = [[go(kv[0]), go(kv[1])] for kv in n["items"]]
        if "kw" in n:
            n["kw"] = {a: go(v) for a, v in n["kw"].items()}
        if n["k"] == "def":
            n["v"] = go(n["v"])
        return n

    return go(s)


def defect_of_pair(a, b, ha, hb, same_expected) -> str | None:
    """Which known finding explains that the pair (a, b) violates the property: none is listed for pairs any more
    (D6, D65, D67, D68 are repaired), so every such pair is a violation."""
    return None


# ---------------------------------------------------------------------------------------------------------------


def _nontrivial(*specs) -> bool:
    return any(s["k"] not in ("none", "bool", "int", "float", "complex", "str", "bytes") for s in specs)


def _hexof(m):
    return m if isinstance(m, str) or m is None else m["hex"]


def run_pairs(ctx, pairs: list[dict], moddir: Path):
    """pairs: {"a": spec, "b": spec, "same": bool, "aspect": str}"""
    rows = []
    q = []
    for p in pairs:
        ba, bb = H.Builder(moddir), H.Builder(moddir)
        va, vb = ba.build(p["a"]), bb.build(p["b"])
        ha, hb = H.impl_hash(va), H.impl_hash(vb)
        # determinism: the same object hashed again, and a separately built equal object
        again = H.impl_hash(va)
        rebuilt = H.impl_hash(H.Builder(moddir).build(p["a"]))
        ca, cb = H.to_case(va), H.to_case(vb)
        rows.append((p, ha, hb, again, rebuilt, ca, cb))
        for c in (ca, cb):
            if c is not None:
                q.append({"op": "hash", "v": c, "alone": True})
    ans = H.model(ctx, q)
    it = iter(ans) if ans is not None else None
    for p, ha, hb, again, rebuilt, ca, cb in rows:
        ma = H.model_tag(next(it)) if (it is not None and ca is not None) else None
        mb = H.model_tag(next(it)) if (it is not None and cb is not None) else None
        model = {"a": _hexof(ma), "b": _hexof(mb)} if (ma is not None and mb is not None) else None
        if model is None:
            ctx.count("model-declines")
        elif isinstance(ma, dict) and ma["hex"] != ma["alone"]:
            ctx.count("model:memo-differs-from-alone")
        impl = {"a": ha, "b": hb}
        same_content = H.canon_key(p["a"]) == H.canon_key(p["b"])
        assert same_content == bool(p["same"]), f"generator/oracle disagree on {p}"
        ok = not ha.startswith("!") and not hb.startswith("!")
        ok = ok and ((ha == hb) == same_content)
        # deterministic; a separately rebuilt equal value hashes equally
        ok = ok and again == ha and rebuilt == ha
        defect = None if ok else defect_of_pair(p["a"], p["b"], ha, hb, same_content)
        ctx.count("aspect:" + p["aspect"].split(":")[0])
        ctx.count("pair:same" if same_content else "pair:near-miss")
        for s in (p["a"],):
            ctx.count("root:" + s["k"])
        ctx.judge(
            {"kind": "pair", **p},
            impl,
            model,
            ok,
            nontrivial=_nontrivial(p["a"], p["b"]),
            key=json.dumps([H.canon(p["a"]), H.canon(p["b"]), p["aspect"]], sort_keys=True),
            defect=defect,
            what="hash_function on a value and a near miss",
        )


def defect_of_ctx(case) -> str | None:
    """D66: the value lies on a reference cycle and another member of that cycle was hashed before it."""
    return "D66" if any(H.has_cycle(c) for c in case["ctx"]) or H.has_cycle(case["v"]) else None


def run_ctx(ctx, cases: list[dict], moddir: Path):
    """cases: {"ctx": [spec…], "v": spec}: all values built in one environment, hashed with ONE Cache, v last."""
    rows, q = [], []
    for c in cases:
        b = H.Builder(moddir)
        objs = [b.build(s) for s in c["ctx"]]
        v = b.build(c["v"])
        seq = H.impl_hash_ctx(objs + [v])
        alone = H.impl_hash(v)
        cs = H.to_cases(objs + [v])
        cv = H.to_case(v)
        rows.append((c, seq, alone, cs, cv))
        if cs is not None and cv is not None:
            q.append({"op": "hash_ctx", "vs": cs})
            q.append({"op": "hash", "v": cv})
    ans = H.model(ctx, q)
    it = iter(ans) if ans is not None else None
    for c, seq, alone, cs, cv in rows:
        model = None
        if it is not None and cs is not None and cv is not None:
            a1, a2 = next(it), next(it)
            if "hexes" in a1 and "hex" in a2:
                model = {"in_context": a1["hexes"][-1], "alone": a2["hex"]}
        impl = {"in_context": seq[-1], "alone": alone}
        ok = len(seq) == len(c["ctx"]) + 1 and not alone.startswith("!") and seq[-1] == alone
        ctx.count("ctx:cyclic" if defect_of_ctx(c) else "ctx:dag")
        ctx.judge(
            {"kind": "ctx", **c},
            impl,
            model,
            ok,
            nontrivial=_nontrivial(c["v"]),
            key=json.dumps(c, sort_keys=True),
            defect=None if ok else defect_of_ctx(c),
            what="hash_object with a shared Cache vs hash_function alone",
        )


def gen_pair(rng):
    for _ in range(50):
        a = H.gen_value(rng, rng.choice([0, 1, 1, 2, 2, 3, 3, 4]))
        m = H.mutate(rng, a)
        if m is None:
            continue
        b, aspect, same = m
        if not H.valid(b):
            continue
        try:  # a mutation may have moved a `use` in front of its definition
            H.canon_key(b)
        except KeyError:
            continue
        # the oracle decides what "same" is; a mutation that happens not to change the content is an equal pair
        same = H.canon_key(a) == H.canon_key(b)
        return {"a": a, "b": b, "same": same, "aspect": aspect if not same or aspect.startswith("same:") else "same:coincidence"}
    raise RuntimeError("no mutation applies")


def gen_ctx(rng):
    names: list = []
    ctxs = [H.gen_value(rng, rng.randint(1, 3), names) for _ in range(rng.randint(1, 3))]
    if rng.random() < 0.12:
        cyc = H.gen_cyclic(rng)
        # hash another member of the cycle first where there is one
        inner = [n for n in H.walk(cyc) if n.get("name") == "c1"]
        if inner:
            return {"ctx": ctxs + [cyc], "v": {"k": "use", "name": "c1"}}
        return {"ctx": ctxs + [{"k": "list", "xs": [cyc]}], "v": {"k": "use", "name": "c0"}}
    # the value shares sub-objects with the context
    v = H.gen_value(rng, rng.randint(1, 3), list(names))
    if names and rng.random() < 0.7:
        v = {"k": rng.choice(["list", "tuple"]), "xs": [{"k": "use", "name": rng.choice(names)}, v, {"k": "use", "name": rng.choice(names)}]}
    return {"ctx": ctxs, "v": v}


def _defined_names(s):
    return [n["name"] for n in H.walk(s) if n["k"] == "def" or n.get("name")]


def in_process_set_order_pair():
    """Two equal frozensets of frozensets whose iteration orders differ inside ONE process (slot collision), found
    by search over small int frozensets (their hashes do not depend on PYTHONHASHSEED).  Before fix 847ae56e (D6) their
    hashes differed."""
    fs = [frozenset([i, j]) for i in range(12) for j in range(i + 1, 12)]
    for x in fs:
        for y in fs:
            if x is y or x < y or y < x or x == y:
                continue
            s1, s2 = frozenset([x, y]), frozenset([y, x])
            if list(s1) != list(s2):
                return s1, s2
    return None


def correspondence(ctx):
    core.assert_repo_loaded()
    moddir = ctx.scratch / "mods"
    H.validate_blake2b(ctx)
    known = {f["id"] for f in ctx.known()}
    # corpus first ---------------------------------------------------------------------------------------------
    rows = [json.loads(l) for l in CORPUS.read_text().splitlines() if l.strip()]
    pairs = [r for r in rows if r["kind"] == "pair"]
    ctxs = [r for r in rows if r["kind"] == "ctx"]
    status: dict[str, list] = {}
    for r in pairs:
        va, vb = H.Builder(moddir).build(r["a"]), H.Builder(moddir).build(r["b"])
        ha, hb = H.impl_hash(va), H.impl_hash(vb)
        fails = ha.startswith("!") or hb.startswith("!") or ((ha == hb) != r["same"])
        if r.get("finding"):
            status.setdefault(r["finding"], []).append((fails, f"{r['name']}: {ha} / {hb}"))
        if r.get("fixed") and fails:
            ctx.notes.append(f"fixed defect {r['fixed']} fails again: {r['name']}")
    for r in ctxs:
        b = H.Builder(moddir)
        objs = [b.build(s) for s in r["ctx"]]
        v = b.build(r["v"])
        seq, alone = H.impl_hash_ctx(objs + [v]), H.impl_hash(v)
        if r.get("finding"):
            status.setdefault(r["finding"], []).append((seq[-1] != alone, f"{r['name']}: in context {seq[-1]}, alone {alone}"))
    w = in_process_set_order_pair()
    d6_pair = None
    if w is not None:
        # regression for the repaired D6: two equal frozensets of frozensets with DIFFERENT iteration orders in this process
        h1, h2 = H.impl_hash(w[0]), H.impl_hash(w[1])
        ctx.extra["d6_in_process_regression"] = {"order1": [sorted(x) for x in w[0]], "order2": [sorted(x) for x in w[1]], "hashes": [h1, h2]}
        if h1 != h2:
            ctx.notes.append("fixed defect D6 fails again: frozenset of frozensets hashes by iteration order")

        def fs(s):
            return {"k": "frozenset", "xs": [{"k": "int", "v": str(i)} for i in sorted(s)]}

        d6_pair = {
            "a": {"k": "frozenset", "xs": [fs(x) for x in w[0]]},
            "b": {"k": "frozenset", "xs": [fs(x) for x in w[1]]},
            "same": True,
            "aspect": "same:set-build-order",
        }
    for fid in sorted(known):
        st = status.get(fid, [])
        ctx.finding(fid, any(f for f, _ in st), "; ".join(d for _, d in st)[:600])
    for fid in status:
        if fid not in known and any(f for f, _ in status[fid]):
            ctx.notes.append(f"corpus witness of {fid} fails but {fid} is not listed for C08")
    run_pairs(ctx, [{k: r[k] for k in ("a", "b", "same", "aspect")} for r in pairs] + ([d6_pair] if d6_pair else []), moddir)
    run_ctx(ctx, [{k: r[k] for k in ("ctx", "v")} for r in ctxs], moddir)
    # generated --------------------------------------------------------------------------------------------------
    n_pairs, n_ctx = ctx.pick(150, 2500), ctx.pick(40, 600)
    batch = 400
    todo = [gen_pair(ctx.rng) for _ in range(n_pairs)]
    # regressions of D6 / D65 / D67 / D68 are visited on purpose in a small share of the cases
    for _ in range(ctx.pick(6, 60)):
        a, b = ctx.rng.sample(H.PEP585_EXPRS, 2)
        todo.append({"a": {"k": "list", "xs": [{"k": "type", "v": a}]}, "b": {"k": "list", "xs": [{"k": "type", "v": b}]}, "same": False, "aspect": "type-expr"})
        k1, k2 = ctx.rng.sample(["str", "int", "bytes"], 2)
        xs = [H.gen_key(ctx.rng, k1), H.gen_key(ctx.rng, k2), {"k": "none"}]
        todo.append({"a": {"k": "set", "xs": xs}, "b": {"k": "set", "xs": xs[::-1]}, "same": True, "aspect": "same:set-build-order"})
        items = [[H.gen_key(ctx.rng, k1), {"k": "int", "v": "1"}], [H.gen_key(ctx.rng, k2), {"k": "int", "v": "2"}]]
        todo.append({"a": {"k": "dict", "items": items}, "b": {"k": "dict", "items": items[::-1]}, "same": True, "aspect": "same:dict-insertion-order"})
        b1, b2 = ctx.rng.sample(["x * 2", "x * 3", "x + 1"], 2)
        lam = {"k": "func", "name": "f", "params": ["x"], "lambda": True}
        todo.append({"a": {**lam, "body": [b1]}, "b": {**lam, "body": [b2]}, "same": False, "aspect": "function:lambda-body"})
    # partials and bound methods (D70, repaired): near misses in the wrapped function, one argument, one keyword, one attribute
    # of the bound instance
    for _ in range(ctx.pick(10, 120)):
        a = H.gen_partial(ctx.rng, 2) if ctx.rng.random() < 0.6 else H.gen_method(ctx.rng, 2)
        for _try in range(20):
            m = H.mutate(ctx.rng, a)
            if m is None or not H.valid(m[0]):
                continue
            try:
                same = H.canon_key(a) == H.canon_key(m[0])
            except KeyError:
                continue
            todo.append({"a": a, "b": m[0], "same": same, "aspect": m[1] if (not same or m[1].startswith("same:")) else "same:coincidence"})
            break
    # array memory layout: equal content in two layouts (EQUAL hashes), different contents over one raw buffer (DIFFERENT)
    for _ in range(ctx.pick(12, 150)):
        for kind in ("layout", "raw"):
            a, b, same = H.gen_layout_pair(ctx.rng, kind)
            if ctx.rng.random() < 0.4:  # inside a container
                w = ctx.rng.choice(["list", "tuple"])
                a, b = {"k": w, "xs": [a, {"k": "int", "v": "1"}]}, {"k": w, "xs": [b, {"k": "int", "v": "1"}]}
            todo.append({"a": a, "b": b, "same": same, "aspect": "same:array-layout" if same else "raw-buffer:same-memory-other-content"})
    # Python-equal but different values (1 / True / 1.0, 0 / False / -0.0, (1, 2) / (True, 2.0), …) as keys, elements and plain
    # values of two SIBLINGS inside one container: the second must not be mistaken for the first
    eq_ctx = []
    for _ in range(ctx.pick(24, 300)):
        a, b, aspect, (x, y2) = H.gen_eq_sibling_pair(ctx.rng)
        if not (H.valid(a) and H.valid(b)):
            continue
        same = H.canon_key(a) == H.canon_key(b)
        todo.append({"a": a, "b": b, "same": same, "aspect": aspect if not same else "same:coincidence"})
        eq_ctx.append({"ctx": [x], "v": y2})  # … nor when hashed with a shared Cache after it
    # aliasing is not content: one object (a File, a container, an instance) referenced several times vs separate equal objects
    for _ in range(ctx.pick(16, 200)):
        a = H.gen_aliased(ctx.rng)
        b = H.unshare(copy.deepcopy(a))
        todo.append({"a": a, "b": b, "same": True, "aspect": "same:aliasing"})
    # plain-class instances whose only difference is a callable stored on the instance
    for _ in range(ctx.pick(12, 150)):
        a, b, aspect, _call = H.gen_callable_attr_pair(ctx.rng)
        if ctx.rng.random() < 0.3:
            a, b = {"k": "list", "xs": [a, {"k": "int", "v": "1"}]}, {"k": "list", "xs": [b, {"k": "int", "v": "1"}]}
        todo.append({"a": a, "b": b, "same": False, "aspect": aspect})
    for i in range(0, len(todo), batch):
        run_pairs(ctx, todo[i : i + batch], moddir)
    run_ctx(ctx, eq_ctx, moddir)
    cs = [gen_ctx(ctx.rng) for _ in range(n_ctx)]
    for i in range(0, len(cs), batch):
        run_ctx(ctx, cs[i : i + batch], moddir)


def search(ctx):
    moddir = ctx.scratch / "mods"
    eq_pairs, eq_ctx = [], []
    for _ in range(ctx.pick(150, 600)):
        a, b, aspect, (x, y2) = H.gen_eq_sibling_pair(ctx.rng)
        if H.valid(a) and H.valid(b):
            same = H.canon_key(a) == H.canon_key(b)
            eq_pairs.append({"a": a, "b": b, "same": same, "aspect": aspect if not same else "same:coincidence"})
            eq_ctx.append({"ctx": [x], "v": y2})
    run_pairs(ctx, eq_pairs, moddir)
    run_ctx(ctx, eq_ctx, moddir)
    for _ in range(ctx.pick(60, 300)):
        for kind in ("layout", "raw"):
            a, b, same = H.gen_layout_pair(ctx.rng, kind)
            run_pairs(ctx, [{"a": a, "b": b, "same": same, "aspect": "same:array-layout" if same else "raw-buffer:same-memory-other-content"}], moddir)
    run_pairs(ctx, [gen_pair(ctx.rng) for _ in range(ctx.pick(600, 4000))], moddir)
    run_ctx(ctx, [gen_ctx(ctx.rng) for _ in range(ctx.pick(150, 1000))], moddir)


def replay(ctx, rec):
    moddir = ctx.scratch / "mods"
    c = rec["case"]
    if c.get("kind") == "ctx":
        run_ctx(ctx, [{"ctx": c["ctx"], "v": c["v"]}], moddir)
    else:
        run_pairs(ctx, [{k: c[k] for k in ("a", "b", "same", "aspect")}], moddir)
