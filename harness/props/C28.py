"""C28 — Batch-scheduler workers follow the scheduler's verdict (DESIGN §6 C28, engine Batch §5.8).

Layers, all compared with the Lean model (`lean/PydraModel/Batch/Model.lean`, driver `Drivers/Batch.lean`):

  matchers    the regex strings read from pydra/workers/slurm.py on this run, applied with CPython's `re`, vs the
              hand-written matchers (`findOpt`, `firstDigits`, `sacctSearch`) on adversarial text
  worker      `SlurmWorker.run(job)` in a child interpreter against a scripted fake scheduler (poll_delay=0): verdict,
              every scheduler command line, requeues  vs  `slurmRun`  vs  the table as the harness reads the property
  submission  `Submitter(worker="slurm")(task)` for a plain task and for a one-node workflow, the fake sbatch really
              running the batch script (or not: lost result)  vs  `submitPlain / submitNode`  vs  the property
  load_and_run  the batch script run by the fake sbatch over a corrupted `_job.pklz`, with a raise injected in Job.run
              before anything is saved, and with a failing task body: what result / error files are left, which exception
              the script dies of  vs  `loadAndRun`  vs  the three outcomes asked for (regressions of D72 and D72s)
  SGE         one submission through `SgeWorker` (known finding D18sge: it cannot run)
"""

from __future__ import annotations

import json
import re
import time
from pathlib import Path

from harness import core
from harness.engines import batch as B
from harness.extractors.env_regexes import extract_env_regexes, read_slurm

META = {
    "engine": "Batch",
    "category": "proof",
    "design_ref": "§6 C28, §5.8",
    "technique": "Lean 4 theorems (verdict table by induction over scheduler histories of any length on a response-stream machine; "
    "parser lemmas for accounting lines of any padding; option-detection lemmas for user strings of any length) + regex/logic "
    "pins regenerated from /repo + differential correspondence with a scripted fake scheduler in watched child processes",
    "text": "Lean theorems: for every user argument string without --no-requeue and every scheduler history of any length "
    "(pending/running rounds, final states with any column padding, missing accounting) the SLURM worker returns exactly "
    "when the scheduler reports COMPLETED with exit code 0, raises for every other final state and for missing accounting, "
    "issues `scontrol requeue` and keeps polling after CANCELLED/TIMEOUT/PREEMPTED (requeue count = number of such reports), "
    "keeps polling while RUNNING/PENDING, is still polling when the history ends first (C28_slurm_table); a failing sbatch is "
    "reported at once (C28_submit_failed); the job is submitted exactly once whatever the scheduler answers "
    "(C28_single_submission); well-formed accounting lines are read as (state, exit code) (C28_sacct_parse); a plain "
    "submission is complete exactly when the scheduler reports success AND the result exists (C28_final_plain); for a "
    "workflow node the same holds unless success is reported without a result (C28_final_node_partial; witness "
    "C28_witness_lost = known finding D24; C28_witness_norequeue).  User options: user tokens first and verbatim, each "
    "default appended exactly when the user's string holds none, the user's error file is the one read "
    "(C28_sbatch_args, C28_option_detected, C28_error_honoured, C28_witness_user_error).  load_and_run: unloadable pickle (given a Path) -> errored result + error "
    "file + loader's exception; job raises without result -> errored result written; result saved by the job kept "
    "(C28_load_and_run, C28_load_and_run_leaves_result, kwargs of Result(...) regenerated: C28_load_and_run_pinned; D72 "
    "regression C28_witness_D72; the batch scripts pass a str, converted to a Path since repair D72s: C28_witness_D72s, "
    "C28_batch_script_path_pinned).  SGE: every submission raises "
    "TypeError before any qsub (C28_sge_crash, from regenerated facts C28_sge_source_pinned; known finding D18sge).  The "
    "regex strings, state lists, tests and command tuples are regenerated from the source and pinned (C28_regex_pinned, "
    "C28_logic_pinned).",
    "note": "Trusted: Lean kernel; hand-written matchers (compared with CPython re on the extracted regex strings on every run); "
    "the fake scheduler and the child/watchdog harness; `\\d`/`\\w` modelled for ASCII scheduler output.",
    "rule": "worker case = (user -J/-o/-e combination and spelling, other options, scheduler history of <= 8 rounds over "
    "{pending, running, completed, failed, cancelled, timeout, preempted, node_fail, missing accounting, …}, error-file text); "
    "distinct by canonical JSON; non-trivial = history with at least 2 rounds or a user option present; matcher cases are "
    "counted separately (non-trivial = some match)",
    "assumptions": [
        "scheduler output is ASCII; sbatch/squeue/sacct/scontrol behave as scripted (responses are inputs of the model)",
        "user options are written `-X value` or `--long=value` (both spellings generated); `-Xvalue` and `--long value` are not generated",
        "NODE_FAIL / OUT_OF_MEMORY / BOOT_FAIL are failures (DESIGN §6 C28); SLURM has no 'evicted' state (SGE's eviction path is unreachable: D18sge)",
    ],
    "trusted": ["model of SlurmWorker.run/_poll_job/_verify_exit_code and of the SgeWorker.run prefix written by hand (Batch/Model.lean)"],
}

_NS = "PydraModel.Batch."
OBLIGATIONS = [
    _NS + n
    for n in (
        "C28_regex_pinned",
        "C28_logic_pinned",
        "C28_slurm_table",
        "C28_submit_failed",
        "C28_sacct_parse",
        "C28_single_submission",
        "C28_final_plain",
        "C28_final_node_partial",
        "C28_witness_lost",
        "C28_witness_norequeue",
        "C28_witness_sacct",
        "C28_sbatch_args",
        "C28_option_detected",
        "C28_error_honoured",
        "C28_witness_user_error",
        "C28_load_and_run_pinned",
        "C28_load_and_run",
        "C28_load_and_run_leaves_result",
        "C28_witness_D72",
        "C28_witness_D72s",
        "C28_batch_script_path_pinned",
        "C28_sge_source_pinned",
        "C28_sge_crash",
    )
]
LEAN_TARGETS = ["PydraModel.Props.C28"]
MODEL_TARGETS = ["PydraModel.Batch.Model", "PydraModel.DriverUtil"]
EXTRACTORS = [extract_env_regexes]

ERRTEXTS = [
    "Traceback (most recent call last):\n  File x\nValueError: boom-{tok}\n",
    "Traceback\nException: plain-{tok}\n",
    "something went wrong {tok}\nno colon here\n",
    "RuntimeError: one line only {tok}",
    "",
    "slurmstepd: error: *** JOB CANCELLED {tok} ***\n",
    "KeyError: 'k-{tok}'\nException: Exception: twice-{tok}\n",
]


# ------------------------------------------------------------------------------------------------
# matcher fidelity

OPT_FRAGS = ["-J ", "-J", "--job-name=", "-o ", "--output=", "-e ", "--error=", "x", "name", "/p/%j.err", " ", "  ", "\t", "--no-requeue", "--no-requeu", "-", "--", "=", "a-J b", "--mem=4G", "\n", "é", " "]
ACCT_FRAGS = ["42", "7", " ", "  ", "COMPLETED", "FAILED", "CANCELLED", "+", "0:0", "1:0", ":", "0", "by", "_", "NODE_FAIL", "\n", "12:", ":3", "x", "-", "OUT_OF_ME+"]


def run_matchers(ctx, n: int):
    sl = read_slurm()
    rj, ro, re_, rid, rs = (re.compile(sl[k]) for k in ("jobname", "output", "error", "jobid", "sacct"))
    rng = ctx.rng
    users = ["".join(rng.choice(OPT_FRAGS) for _ in range(rng.choice([0, 1, 2, 3, 5, 8]))) for _ in range(n)]
    texts = ["".join(rng.choice(ACCT_FRAGS) for _ in range(rng.choice([1, 2, 3, 5, 8, 12]))) for _ in range(n)]
    q = [{"op": "find_opts", "user": u} for u in users] + [{"op": "sacct", "text": t} for t in texts] + [{"op": "jobid", "text": t} for t in texts]
    ans = ctx.driver("Batch", q)
    g = lambda m: m.group() if m else None  # noqa: E731
    for i, u in enumerate(users):
        impl = {"jobname": g(rj.search(u)), "output": g(ro.search(u)), "error": g(re_.search(u)), "split": u.split(), "no_requeue": "--no-requeue" in u}
        model = ans[i] if ans is not None else None
        ctx.count("matcher:opts")
        ctx.judge({"kind": "opts", "user": u}, impl, model, True, nontrivial=any(impl[k] for k in ("jobname", "output", "error")), what="look-behind regexes vs findOpt")
    for i, t in enumerate(texts):
        m = rs.search(t)
        impl = {"match": [m.group("status"), m.group("exit_code")] if m else None}
        model = ans[n + i] if ans is not None else None
        ctx.count("matcher:sacct")
        ctx.judge({"kind": "sacct", "text": t}, impl, model, True, nontrivial=m is not None, what="_sacct_re vs sacctSearch")
        impl = {"jobid": g(rid.search(t))}
        model = ans[2 * n + i] if ans is not None else None
        ctx.judge({"kind": "jobid", "text": t}, impl, model, True, nontrivial=impl["jobid"] is not None, what="job-id regex vs firstDigits")


# ------------------------------------------------------------------------------------------------
# worker level


def gen_worker_case(rng, cid: int, workdir: str, combo=None, history=None, p_norequeue=0.06) -> dict:
    ua = B.gen_user_args(rng, f"{workdir}/u", combo, p_norequeue)
    hist = history if history is not None else B.gen_history(rng)
    jobid = rng.choice(["42", "7", "123456", "9000001"])
    tok = f"t{cid}"
    errtext = rng.choice(ERRTEXTS).format(tok=tok)
    kind = rng.random() if history is None else 1.0  # corpus cases with a given history are never turned into sbatch failures
    if kind < 0.06:
        resps = [{"rc": 1, "out": "", "err": f"sbatch: error: Batch job submission failed {tok}\n"}]
        hist, special = [], "sbatch_rc"
    elif kind < 0.10:
        resps = [{"rc": 0, "out": "no id here\n", "err": ""}]
        hist, special = [], "no_jobid"
    else:
        resps = B.render_history(hist, jobid, ua["no_requeue"], rng, errtext, False)
        special = None
    return {
        "id": cid,
        "level": "worker",
        "workdir": workdir,
        "user": ua["user"],
        "combo": ua["combo"],
        "vals": ua["vals"],
        "no_requeue": ua["no_requeue"],
        "history": hist,
        "jobid": jobid,
        "errtext": errtext,
        "tok": tok,
        "special": special,
        "responses": resps,
    }


def rel(s: str, case: dict, obs: dict) -> str:
    s = s.replace(case["workdir"], "<W>")
    if obs.get("uid"):
        s = s.replace(obs["uid"], "<U>")
    return s


def d24_match_worker(case: dict) -> bool:
    """D24 at worker level: under --no-requeue a CANCELLED/TIMEOUT/PREEMPTED record is returned as done"""
    if not case["no_requeue"] or case.get("special"):
        return False
    w = B.spec_walk(case["history"], True)
    return w["terminal"] in ("cancelled", "cancelled_by", "timeout", "preempted")


def judge_worker(ctx, cases: list[dict], results: dict):
    q = []
    prepared = []
    for c in cases:
        o = results.get(c["id"], {})
        info = {"ok": "verdict" in o}
        prepared.append(info)
        if not info["ok"]:
            continue
        wd = c["workdir"]
        sd = f"{wd}/cache/slurm_scripts/{o['uid']}"
        defaults = {"job_name": f"{o['job_name']}.{o['uid']}", "out_file": f"{sd}/slurm-%j.out", "err_file": f"{sd}/slurm-%j.err", "script": f"{sd}/batchscript_{o['uid']}.sh"}
        # files a failure message may be read from: whatever exists now at the default and at the user's error path
        cands = {defaults["err_file"].replace("%j", c["jobid"])}
        if c["combo"][2]:
            cands.add(c["vals"]["e"].replace("%j", c["jobid"]))
        files = []
        for p in sorted(cands):
            if Path(p).is_file():
                files.append([p, Path(p).read_text()])
        info["defaults"] = defaults
        info["qi"] = len(q)
        q.append({"op": "slurm_run", "user": c["user"], "defaults": defaults, "files": files, "responses": [{"rc": r["rc"], "out": r["out"], "err": r["err"]} for r in c["responses"]]})
    ans = ctx.driver("Batch", q)
    for c, info in zip(cases, prepared):
        o = results.get(c["id"], {})
        ctx.count(f"worker:rounds={min(len(c['history']), 8)}")
        ctx.count("worker:opts=" + "".join("-sl"[i] for i in c["combo"]))
        for ev in c["history"]:
            ctx.count(f"event:{ev}")
        if c["special"]:
            ctx.count(f"worker:{c['special']}")
        if c["no_requeue"]:
            ctx.count("worker:--no-requeue")
        if o.get("hang") or "child_error" in o or not info["ok"]:
            ctx.judge(slim(c), {"hang": bool(o.get("hang")), "error": o.get("child_error")}, None, False, what="submission hung or the child failed")
            continue
        n_scripted = len(c["responses"])
        calls = o["calls"][: n_scripted + 1]  # the call that found the script exhausted is the last one that counts
        v = dict(o["verdict"])
        v.pop("value", None)
        if v["kind"] == "raised" and v["cls"] not in ("Exception", "RuntimeError"):
            v["msg"] = ""
        impl = {"verdict": {k: rel(x, c, o) if isinstance(x, str) else x for k, x in v.items()}, "calls": [[rel(a, c, o) for a in cl] for cl in calls]}
        model = None
        if ans is not None:
            a = ans[info["qi"]]
            if "error" in a:
                ctx.tie_broken.append({"kind": "model-driver", "detail": a["error"], "case": slim(c)})
            else:
                mv = dict(a["verdict"])
                if mv["kind"] == "raised" and mv["cls"] not in ("Exception", "RuntimeError"):
                    mv["msg"] = ""
                model = {"verdict": {k: rel(x, c, o) if isinstance(x, str) else x for k, x in mv.items()}, "calls": [[rel(x, c, o) for x in cl] for cl in a["calls"]]}
        # ---- the property, read by the harness
        ok = True
        why = []
        got = {"done": "complete", "raised": "failed", "stillPolling": "stillPolling"}[o["verdict"]["kind"]]
        tools = [cl[0] for cl in calls]
        if c["special"]:
            want = {"final": "failed", "tools": ["sbatch"], "requeues": 0}
        else:
            want = B.spec_walk(c["history"], c["no_requeue"])
        if got != want["final"]:
            ok = False
            why.append(f"final {got} != {want['final']}")
        if tools != want["tools"]:
            ok = False
            why.append(f"tools {tools} != {want['tools']}")
        # command lines
        jid = c["jobid"]
        for cl in calls[1:]:
            exp = {"squeue": ["squeue", "-h", "-j", jid], "sacct": ["sacct", "-n", "-X", "-j", jid, "-o", "JobID,State,ExitCode"], "scontrol": ["scontrol", "requeue", jid]}.get(cl[0])
            if cl != exp:
                ok = False
                why.append(f"command {cl}")
        # user options honoured, not duplicated
        ps = B.parse_sbatch_argv(calls[0])
        user_tokens = c["user"].split()
        if ps["tokens"][: len(user_tokens)] != user_tokens:
            ok = False
            why.append("user tokens not passed verbatim first")
        for k, ix in zip("Joe", c["combo"]):
            vals = ps["opts"][k]
            if len(vals) != 1:
                ok = False
                why.append(f"option {k} given {len(vals)} times")
            elif ix and vals[0] != c["vals"][k]:
                ok = False
                why.append(f"user option {k} not honoured")
        if ps["script"] != info["defaults"]["script"] or not Path(ps["script"]).is_file():
            ok = False
            why.append("batch script")
        # a failure reported by the scheduler with a readable error file is reported with the job's own error line
        if want["final"] == "failed" and not c["special"] and want.get("terminal") not in ("missing",) and got == "failed":
            lines = c["errtext"].split("\n")
            if len(lines) >= 2 and "Error" in lines[-2] and o["verdict"].get("cls") == "Exception":
                if c["tok"] not in o["verdict"].get("msg", ""):
                    ok = False
                    why.append("failure message is not the job's error line")
        defect = "D24" if d24_match_worker(c) else None
        nontrivial = len(c["history"]) >= 2 or any(c["combo"])
        ctx.judge(slim(c), impl, model, ok, nontrivial=nontrivial, defect=defect, what="; ".join(why) or "SlurmWorker.run")


def slim(c: dict) -> dict:
    return {k: v for k, v in c.items() if k not in ("workdir",)}


# ------------------------------------------------------------------------------------------------
# submission level

SUBMISSION_CASES = [
    # (task, history, run the batch script?, expected final)
    ("inc", ["pending", "completed"], True, "complete"),
    ("boom", ["running", "failed"], True, "failed"),
    ("wf_inc", ["completed"], True, "complete"),
    ("wf_boom", ["failed"], True, "failed"),
    ("inc", ["completed"], False, "failed"),  # lost result, plain task: reported, not complete
    ("inc", ["cancelled", "pending", "completed"], True, "complete"),
]


# what the batch script's interpreter (`load_and_run`) must leave behind when the job cannot be loaded or fails:
# (task, corrupt the job pickle?, raise injected inside Job.run before anything is saved?, class of the original exception)
LOAD_AND_RUN_CASES = [
    ("inc", True, None, "UnpicklingError"),  # unloadable pickle -> errored result + error file next to it, loader's exception re-raised
    ("inc", False, "run.populated", "VerifInjected"),  # job raises, no result yet -> errored result written
    ("boom", False, None, "ValueError"),  # job raises after saving its own errored result -> kept
]


def gen_lr_case(rng, cid: int, workdir: str, spec) -> dict:
    task, corrupt, inject, orig = spec
    c = gen_submission_case(rng, cid, workdir, (task, ["failed"], True, "failed"))
    c["lr"] = {"corrupt": corrupt, "inject": inject, "orig": orig}
    c["inject"] = inject
    if corrupt:
        c["responses"][0]["corrupt"] = True
    return c


def judge_load_and_run(ctx, cases: list[dict], results: dict):
    cases = [c for c in cases if c.get("lr")]
    q = []
    for c in cases:
        lr = c["lr"]
        body_raises = c["task"] == "boom" and not lr["inject"]
        q.append({"op": "load_and_run", "pickle_loads": not lr["corrupt"], "parent_exists": True, "run_raises": bool(lr["inject"]) or c["task"] == "boom", "result_by_run": body_raises, "error_by_run": body_raises})
    ans = ctx.driver("Batch", q)
    for i, c in enumerate(cases):
        o = results.get(c["id"], {})
        lr = c["lr"]
        ctx.count("load_and_run:" + ("corrupt-pickle" if lr["corrupt"] else ("raise-before-save" if lr["inject"] else "body-raises")))
        if "results" not in o:
            ctx.judge(slim(c), {"error": o.get("child_error"), "hang": o.get("hang")}, None, False, what="load_and_run scenario did not run")
            continue
        where = (lambda d: d.startswith("slurm_scripts/")) if lr["corrupt"] else (lambda d: not d.startswith("slurm_scripts/"))
        errored = any(v.get("errored") for d, v in o["results"].items() if where(d))
        errfile = any(where(d) for d in o["error_files"])
        exc = o.get("script_exc")
        cat = "original" if exc == lr["orig"] else (exc if exc in ("TypeError", "AttributeError") else f"other:{exc}")
        impl = {"errored_result": errored, "error_file": errfile, "exc": cat}
        model = None
        if ans is not None and "exc" in ans[i]:
            a = ans[i]
            body_raises = c["task"] == "boom" and not lr["inject"]
            model = {"errored_result": a["errored_result_written"] or (a["result_kept"] and body_raises), "error_file": a["error_file_written"] or body_raises, "exc": a["exc"]}
        ok = errored and errfile and cat == "original" and (o.get("script_rc") or 0) != 0
        if lr["corrupt"]:  # the scheduler's FAILED is then reported with the loader's own error line
            ok = ok and o.get("final", {}).get("kind") == "raised" and "UnpicklingError" in o.get("final", {}).get("msg", "")
        ctx.judge({**slim(c), "scenario": "load_and_run"}, impl, model, ok, nontrivial=True, what="what load_and_run leaves behind")


def gen_submission_case(rng, cid: int, workdir: str, spec) -> dict:
    task, hist, run, expect = spec
    ua = B.gen_user_args(rng, f"{workdir}/u", None, 0.0)
    jobid = "42"
    resps = B.render_history(hist, jobid, False, rng, None if run else "", run)
    return {"id": cid, "level": "submission", "workdir": workdir, "task": task, "user": ua["user"], "combo": ua["combo"], "vals": ua["vals"], "no_requeue": False, "history": hist, "jobid": jobid, "run": run, "expect": expect, "responses": resps}


def judge_submission(ctx, cases: list[dict], results: dict):
    # model: the worker's verdict on the scripted responses (the defaults only matter for messages), then what the
    # submitter makes of it given whether a result file exists
    dummy = {"job_name": "main.u", "out_file": "/x/slurm-%j.out", "err_file": "/x/slurm-%j.err", "script": "/x/b.sh"}
    q1 = [{"op": "slurm_run", "user": c["user"], "defaults": dummy, "files": [], "responses": [{"rc": r["rc"], "out": r["out"], "err": r["err"]} for r in c["responses"]]} for c in cases]
    a1 = ctx.driver("Batch", q1)
    ans = None
    if a1 is not None:
        q = []
        for c, a in zip(cases, a1):
            o = results.get(c["id"], {})
            q.append({"op": "final", "verdict": a["verdict"]["kind"], "result_exists": bool(o.get("result_files")) if "result_files" in o else c["run"], "context": "node" if c["task"].startswith("wf") else "plain"})
        ans = ctx.driver("Batch", q)
    for i, c in enumerate(cases):
        o = results.get(c["id"], {})
        ctx.count(f"submission:{c['task']}:{'run' if c['run'] else 'lost'}")
        if o.get("hang"):
            got = "hang"
        elif "final" not in o:
            ctx.judge(slim(c), {"error": o.get("child_error")}, None, False, what="child failed")
            continue
        else:
            f = o["final"]
            got = "complete" if (f["kind"] == "complete" and not f.get("errored") and f.get("out") == 2) else "failed"
        model = ans[i]["final"] if ans is not None and "final" in ans[i] else None
        ok = got == c["expect"]
        tools = [cl[0] for cl in o.get("calls", [])]
        ok = ok and tools[: len(B.spec_walk(c["history"], False)["tools"])] == B.spec_walk(c["history"], False)["tools"]
        lost_node = (not c["run"]) and c["task"].startswith("wf") and B.spec_walk(c["history"], False)["final"] == "complete"
        ctx.judge(slim(c), got, model, ok, nontrivial=True, defect="D24" if lost_node else None, what="Submitter(worker=slurm)(task)")


# ------------------------------------------------------------------------------------------------


def start_d24_witness(runner: B.Runner, scratch: Path, rng):
    wd = str(scratch / "d24")
    c = gen_submission_case(rng, 900001, wd, ("wf_inc", ["completed"], False, "failed"))
    return runner.start([c]), c


def finish_d24_witness(ctx, runner: B.Runner, h, c, cpu_need: float, wall_cap: float):
    """the workflow submission with a lost result: hang = still alive, all scripted responses consumed, CPU burning"""
    t0 = time.time()
    sched = Path(c["workdir"]) / "sched"
    base_cpu = None
    verdict = None
    while True:
        if h["proc"].poll() is not None:
            res = runner.results(h).get(c["id"], {})
            verdict = ("finished", res.get("final"))
            break
        ncalls = len(list((sched / "log").glob("*.argv"))) if (sched / "log").exists() else 0
        cpu = B.tree_cpu(h["proc"].pid)
        if ncalls >= len(c["responses"]) and not (sched / "exhausted").exists():
            if base_cpu is None:
                base_cpu = cpu
            if cpu - base_cpu >= cpu_need:
                verdict = ("hang", f"{cpu - base_cpu:.1f} CPU-s after the last scheduler call, no further call, no return")
                break
        if time.time() - t0 > wall_cap:
            verdict = ("hang", "wall cap") if base_cpu is not None else ("unknown", "child did not get to the scheduler calls")
            break
        time.sleep(0.2)
    runner.kill(h)
    return verdict


def correspondence(ctx):
    core.assert_repo_loaded()
    scratch = Path(ctx.scratch)
    runner = B.Runner(scratch / "run", cpu_limit=ctx.pick(20.0, 40.0), wall_limit=ctx.pick(120.0, 300.0))
    try:
        _correspondence(ctx, scratch, runner)
    finally:
        runner.close()


def _correspondence(ctx, scratch, runner):
    known = {f["id"] for f in ctx.known()}
    # ---- corpus first.  D24 witness runs in the background (a hang takes time to recognise)
    h24, c24 = start_d24_witness(runner, scratch, ctx.rng)
    cid = 0
    cases = []

    def wd(i):
        return str(scratch / "w" / f"c{i}")

    # D18 (repaired) regression: user -e in both spellings, failing and succeeding job
    for combo in ((0, 0, 1), (0, 0, 2)):
        for hist in (["failed"], ["completed"]):
            cid += 1
            cases.append(gen_worker_case(ctx.rng, cid, wd(cid), combo, hist, 0.0))
    # --no-requeue + CANCELLED (D24's second face)
    cid += 1
    w_nr = gen_worker_case(ctx.rng, cid, wd(cid), (0, 0, 0), ["cancelled"], 0.0)
    w_nr["user"] = (w_nr["user"] + " --no-requeue").strip()
    w_nr["no_requeue"] = True
    w_nr["special"] = None
    w_nr["responses"] = B.render_history(["cancelled"], w_nr["jobid"], True, ctx.rng, w_nr["errtext"], False)
    cases.append(w_nr)
    # all 27 combinations of -J/-o/-e (absent / short / long), each with a generated history
    for a in range(3):
        for b in range(3):
            for e in range(3):
                cid += 1
                cases.append(gen_worker_case(ctx.rng, cid, wd(cid), (a, b, e)))
    # every event once as the only and as the last round
    for ev in B.EVENTS + B.EXTRA_EVENTS:
        for hist in ([ev], ["pending", ev]) if (ev in B.EVENTS or not ctx.quick) else ([ev],):
            cid += 1
            cases.append(gen_worker_case(ctx.rng, cid, wd(cid), None, hist, 0.0))
    for _ in range(ctx.pick(15, 400)):
        cid += 1
        cases.append(gen_worker_case(ctx.rng, cid, wd(cid)))
    for c in cases:
        if c["special"]:
            c["history"] = []
    res = runner.run_all(cases)
    judge_worker(ctx, cases, res)
    # ---- submission level
    subs = []
    specs = SUBMISSION_CASES if not ctx.quick else [SUBMISSION_CASES[0], SUBMISSION_CASES[2], SUBMISSION_CASES[3], SUBMISSION_CASES[4]]
    for _ in range(ctx.pick(1, 6)):
        for spec in specs:
            cid += 1
            subs.append(gen_submission_case(ctx.rng, cid, wd(cid), spec))
    for _ in range(ctx.pick(1, 3)):
        for spec in LOAD_AND_RUN_CASES:
            cid += 1
            subs.append(gen_lr_case(ctx.rng, cid, wd(cid), spec))
    # ---- SGE (same child as the submissions)
    cid += 1
    sge = {"id": cid, "level": "submission", "workdir": wd(cid), "worker": "sge", "task": "inc", "user": "", "responses": [{"rc": 0, "out": "Your job-array 77.1-1:1 has been submitted\n", "err": ""}]}
    res = runner.run_all(subs + [sge])
    judge_submission(ctx, subs, res)
    judge_load_and_run(ctx, subs, res)
    o = res.get(cid, {})
    f = o.get("final", {})
    sge_crash = f.get("kind") == "raised" and f.get("cls") == "TypeError" and not o.get("calls")
    if "D18sge" in known:
        ctx.finding("D18sge", sge_crash, f"SgeWorker submission -> {f.get('kind')} {f.get('cls')} {str(f.get('msg'))[:80]!r}, {len(o.get('calls', []))} scheduler calls")
    ans = ctx.driver("Batch", [{"op": "sge_run", "tasks": 1}])
    model = None
    if ans is not None:
        model = {"kind": ans[0]["verdict"]["kind"], "cls": ans[0]["verdict"].get("cls"), "calls": len(ans[0]["calls"])}
    ctx.count("sge")
    ctx.judge({"kind": "sge"}, {"kind": f.get("kind"), "cls": f.get("cls"), "calls": len(o.get("calls", []))}, model, False if sge_crash else f.get("kind") == "complete", defect="D18sge" if sge_crash else None, what="SgeWorker submission")
    # ---- matchers
    run_matchers(ctx, ctx.pick(1500, 20000))
    # ---- D24 witness verdict
    v = finish_d24_witness(ctx, runner, h24, c24, cpu_need=ctx.pick(5.0, 15.0), wall_cap=ctx.pick(600.0, 900.0))
    hang = v[0] == "hang"
    if "D24" in known:
        ctx.finding("D24", hang, f"workflow node, sacct COMPLETED 0:0, no result file: {v}")
    ans = ctx.driver("Batch", [{"op": "final", "verdict": "done", "result_exists": False, "context": "node"}])
    model = ans[0]["final"] if ans is not None else None
    got = "hang" if hang else ("complete" if v[0] == "finished" and (v[1] or {}).get("kind") == "complete" else ("failed" if v[0] == "finished" else "unknown"))
    ctx.count("submission:wf_inc:lost")
    ctx.judge(slim(c24), got, model, got == "failed", defect="D24" if hang else None, what="workflow submission with a lost result")


def search(ctx):
    scratch = Path(ctx.scratch)
    runner = B.Runner(scratch / "search", cpu_limit=15.0, wall_limit=200.0)
    cases = []
    for i in range(ctx.pick(150, 600)):
        cid = 500000 + i
        cases.append(gen_worker_case(ctx.rng, cid, str(scratch / "s" / f"c{cid}"), None, None, 0.0))
    for c in cases:
        if c["special"]:
            c["history"] = []
    try:
        judge_worker(ctx, cases, runner.run_all(cases))
    finally:
        runner.close()


def replay(ctx, rec):
    scratch = Path(ctx.scratch)
    runner = B.Runner(scratch / "replay", cpu_limit=25.0, wall_limit=300.0)
    try:
        _replay(ctx, rec, scratch, runner)
    finally:
        runner.close()


def _replay(ctx, rec, scratch, runner):
    c = dict(rec["case"])
    if c.get("kind") in ("opts", "sacct", "jobid", "sge"):
        run_matchers(ctx, 50)
        return
    old = None
    c["workdir"] = str(scratch / "r" / "c0")
    # user paths and responses mention the old work directory only through <W>-free absolute paths: regenerate them
    if c.get("level") == "worker":
        c2 = gen_worker_case(ctx.rng, c["id"], c["workdir"], tuple(c["combo"]), c["history"], 0.0)
        c2["jobid"] = c["jobid"]
        if c.get("no_requeue"):
            c2["user"] = (c2["user"] + " --no-requeue").strip()
            c2["no_requeue"] = True
        if not c.get("special"):
            c2["special"] = None
            c2["responses"] = B.render_history(c2["history"], c2["jobid"], c2["no_requeue"], ctx.rng, c2["errtext"], False)
        judge_worker(ctx, [c2], runner.run_all([c2]))
    else:
        spec = (c["task"], c["history"], c["run"], c["expect"])
        c2 = gen_submission_case(ctx.rng, c["id"], c["workdir"], spec)
        judge_submission(ctx, [c2], runner.run_all([c2]))
    _ = old
