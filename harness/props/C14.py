"""C14 — A failing job never stops independent jobs; dependents never run; errors name every failed job (DESIGN §6 C14)."""

from __future__ import annotations

import itertools

from harness import core
from harness.engines import sched

META = {
    "engine": "Sched",
    "category": "proof",
    "design_ref": "§6 C14, §5.5",
    "technique": "Lean 4 invariant proof over all schedules + final-state theorem + controlled-worker differential correspondence",
    "text": "Lean theorems for every acyclic workflow graph, any number of nodes and jobs, every limit and every schedule: at every "
    "instant nothing of a node downstream of a failed job is dispatched and everything dispatched belongs to a node that is not "
    "downstream of a failure (C14_dependents_never_run); and for every fault-free schedule under which the loop reaches its "
    "normal end (C14_full): every job of every node not downstream of a failure was dispatched and has a result on disk, "
    "nodes downstream of a failure never got a job, the submission fails iff some job failed and its error then lists exactly "
    "the failed jobs.  Full after the D10 repair (update_status guards job.done in the running loop); C14_regression_D10 "
    "replays the old witness in the model.  In half of the generated cases (and in a corpus line) the nodes with failing jobs hold a "
    "multi-element numpy array input, because the error report formats the repr of every failed job's task (regression of the "
    "repaired finding D74: an array-valued `value != default` in Task.__repr__ replaced the error naming the failed jobs).  C14_dependents_never_run_interleaved / C14_full_interleaved are the same statements for "
    "the finer semantics in which bodies start, finish and fail before every node.done / p.done read of a poll (Sched/Interleaved.lean; the "
    "semantics with atomic polls is its special case roundI_nil, and C14_race_instance is the gated witness of the check as a run of it); with the current order of "
    "tests no hypothesis on the freshness of the tables is needed (nodeDecide_spec).  The repaired defect D64 (a job failing "
    "while get_runnable_tasks is scanning made a successor pass the `p.errored` test on stale tables, be started behind the "
    "failure and abort the workflow) is documented by C14_stale_tables_witness (old order) / C14_stale_tables_regression "
    "(current order: every predecessor refreshed first) and replayed on the real code with the load_result gate.  Dependence is "
    "at node granularity as in the scheduler.  Tied to "
    "pydra/engine/submitter.py and WorkflowOutputs._from_job by running workflows of 2-6 nodes with every/random fail sets "
    "under the controlled worker with schedules that force 'seen running, then fails', comparing per iteration tasks / "
    "dispatches / pending futures / NodeExecution tables, the executed bodies, the cached results and the jobs named by the error.",
    "note": "Trusted: Lean kernel; hand-written model (Sched/Model.lean, Sched/Interleaved.lean), one update_status call atomic w.r.t. the environment; 'depends on' = some "
    "node upstream has a failing job (the live branch of NodeExecution.get_runnable_tasks waits for whole predecessor nodes, so a "
    "job of an inherited split is treated as depending on every job of the upstream node); the termination of the run is C18's subject.",
    "rule": "case = (workflow graph of 2-6 nodes with splits, fail set, max_concurrent, recorded schedule); distinct by canonical "
    "JSON; non-trivial = >= 3 jobs and a schedule policy other than FIFO completion (every case has >= 1 failing job)",
    "assumptions": ["one NodeExecution.update_status call is atomic with respect to changes on disk (bodies may start, finish and fail before every node.done / p.done read of a poll: *_interleaved theorems); futures are reported complete between polls", "the worker never loses a job (no 'vanish' move)"],
    "trusted": ["model of NodeExecution.update_status / get_runnable_tasks and of the error collection written by hand (Sched/Model.lean)"],
}

_NS = "PydraModel.Sched."
OBLIGATIONS = [
    _NS + n
    for n in ("C14_dependents_never_run", "C14_full", "C14_regression_D10", "C14_stale_tables_witness", "C14_stale_tables_regression",
              "C14_dependents_never_run_interleaved", "C14_full_interleaved", "C14_race_instance")
]
LEAN_TARGETS = ["PydraModel.Props.C14"]
MODEL_TARGETS = ["PydraModel.Sched.Model", "PydraModel.DriverUtil"]


def spec(case, obs):
    """independent oracle: which bodies must have run, which must not, what the error must name"""
    if obs.get("outcome") in ("HANG", "DEVICE-TIMEOUT", "LIVELOCK"):
        return False, f"submission did not end: {obs.get('outcome')} {obs.get('msg', '')[:200]}"
    fail = set(case.get("fail") or [])
    jobs = sched.node_jobs(case)
    dead = sched.doomed_nodes(case, fail)
    must = {t for n, ts in jobs.items() if n not in dead for t in ts}
    executed = set(obs.get("executed") or [])
    cache = obs.get("cache") or {}
    if executed != must:
        return False, f"executed {sorted(executed)} but the jobs without a failed ancestor are {sorted(must)}"
    bad_cache = [t for t in must if cache.get(t) != ("err" if t in fail else "ok")]
    if bad_cache:
        return False, f"no (or wrong) cached result for {bad_cache}"
    failed = sorted(must & fail)
    if not failed:
        return (obs["outcome"] == "ok"), "no job failed but the submission did not succeed" if obs["outcome"] != "ok" else ""
    if obs["outcome"] == "ok":
        return False, f"jobs {failed} failed but the submission succeeded"
    if sorted(obs.get("named") or []) != failed:
        return False, f"the error names {obs.get('named')} but the failed jobs are {failed}"
    return True, ""


def gen_cases(rng, n, forced):
    cases = []
    for i in range(n):
        c = sched.gen_graph(rng)
        tags = sched.all_tags(c)
        c["k"] = rng.choice([None, None, 2, 3])
        nf = rng.choice([1, 1, 1, 2, 2, 3])
        c["fail"] = rng.sample(tags, min(nf, len(tags)))
        c["policy"] = {"seed": rng.randrange(10**6), "style": rng.choice(forced)}
        if i % 2 == 0:
            array_inputs(c)
        cases.append(c)
    return cases


def array_inputs(c):
    """the nodes with a failing job hold a multi-element numpy array input: the error report formats `{job.task!r}` of
    every failed job, and `Task.__repr__` compares each value with the field default (repaired finding D74: the
    array-valued `!=` in a boolean context raised and replaced the error that names the failed jobs)"""
    for nd in c["nodes"]:
        if any(t in c["fail"] for t in sched.node_jobs(c)[nd["name"]]) and nd.get("emit") is None:
            nd["arr"] = True


def exhaustive_fail_sets(rng, n_graphs):
    """thorough tier: every fail set of graphs with <= 5 jobs, under the 'seen running, then fails' policy"""
    cases = []
    while len(cases) < n_graphs * 12:
        g = sched.gen_graph(rng, 2, 4, allow_dup=False)
        tags = sched.all_tags(g)
        if not (3 <= len(tags) <= 5):
            continue
        for r in range(1, len(tags) + 1):
            for fs in itertools.combinations(tags, r):
                c = dict(g)
                c.update({"k": None, "fail": list(fs), "policy": {"seed": rng.randrange(10**6), "style": "failslast"}})
                if len(cases) % 3 == 0:
                    c["nodes"] = [dict(nd) for nd in c["nodes"]]
                    array_inputs(c)
                cases.append(c)
    return cases[: n_graphs * 12]


# corpus/sched/C14.jsonl: witnesses of the repaired findings D64 (a job fails *during* a poll; two variants, forced with the
# load_result gate of pydra/utils/verif_hooks.py) and D10, then hand-made schedules.  All must pass.
CORPUS = sched.load_corpus("C14")


def correspondence(ctx):
    core.assert_repo_loaded()
    # corpus (D64 and D10 witnesses) first, then generated cases, in one batch
    res = sched.explore(ctx, [dict(c) for c in CORPUS]
                        + gen_cases(ctx.rng, ctx.pick(12, 70), ["failslast", "failslast", "random", "greedy", "lazy"]),
                        spec, "C14 failure isolation")
    forced = [bool((o.get("race") or {}).get("forced")) for (c, o, _, _, _) in res if c.get("race")]
    ctx.extra["intra_poll_races_forced"] = sum(forced)
    if not all(forced):
        ctx.tie_broken.append({"kind": "race-not-forced", "detail": "the load_result gate did not produce the interleaving of the D64 witness"})
    if not ctx.quick:
        sched.explore(ctx, exhaustive_fail_sets(ctx.rng, 5), spec, "C14 all fail sets")


def search(ctx):
    sched.explore(ctx, gen_cases(ctx.rng, ctx.pick(40, 300), ["failslast", "random", "greedy", "lazy", "fifo"]), spec, "C14 search")


def replay(ctx, rec):
    sched.explore(ctx, [rec["case"]], spec, "C14 replay")
