"""C13 — Failures are reported and never cached as success (DESIGN §6 C13, engine JobProto §5.4).

Devices: (i) single-process histories of submissions of tasks that fail in different ways (python body raising an
Exception / SystemExit, shell task with non-zero exit, workflow with a failing node, python tasks whose return value
does not provide every output) followed by resubmissions and by a corrected variant, with execution counters in the
task bodies; debug worker in the harness process, cf worker in processes forked from the zygote.  Return-value
binding: `PythonTask._run` + `Outputs._from_job` called directly on generated (outputs, returned object) pairs.
Model side: `history` / `bind` of the Lean driver on the GENERATED skeleton.
"""

from __future__ import annotations

import shutil
import typing as ty

from harness import core
from harness.engines import jobproto as jp
from harness.extractors.job_skeleton import extract_job_skeleton, extract_shell_exec
from harness.props.C35 import _mk, _set_body, inproc

META = {
    "engine": "JobProto",
    "category": "proof",
    "design_ref": "§6 C13, §5.4",
    "technique": "Lean 4: decision logic + invariant, finite part evaluated by the kernel on the skeleton REGENERATED from "
    "Job.run / Job.run_async and lifted to every initial world; decision theorem for the return-value binding (any number "
    "of outputs); differential histories on the real code",
    "text": "Lean theorems: C13_not_cached (+_async): from every initial world a call whose body raises (Exception or "
    "BaseException) propagates the exception and leaves a complete ERRORED result (never a successful one), the error file "
    "and the job record; C13_retry_executes: the next submission enters the body again; C13_reported (+_async): Task.__call__ "
    "reports the exception itself (debug worker / BaseException) or a RuntimeError with the RECORDED error; "
    "C13_success_reported: a successful submission reports its outputs whatever was cached before (regression of D61); "
    "C13_binding_full / C13_binding_missing: binding of a python task's return value succeeds iff the object is usable and "
    "provides every mandatory output, for any number of outputs (regression of D9).  FULL on the current tree.",
    "note": "Trusted: Lean kernel; AST skeleton extractor; hand-written action semantics and the model of Submitter.__call__/"
    "Task.__call__ (`submit`); `None` returned by a python function is read as 'every output is None' (the code's convention).",
    "rule": "case = history of (task kind, worker, body behaviour, rerun) submissions, or (declared outputs, returned object) "
    "for the binding; non-trivial = a failing submission followed by >= 1 more submission, or >= 2 outputs",
    "assumptions": ["task bodies fail deterministically as told by the control directory; shell failure = non-zero exit code"],
    "trusted": ["hand-written semantics (JobProto/Model.lean, Bind.lean) and harness/extractors/job_skeleton.py"],
}

_NS = "PydraModel.JobProto."
OBLIGATIONS = [
    _NS + n
    for n in (
        "C13_not_cached",
        "C13_not_cached_async",
        "C13_retry_executes",
        "C13_reported",
        "C13_reported_async",
        "C13_success_reported",
        "C13_success_reported_async",
        "C13_regression_D61",
        "C13_regression_D60",
        "C13_shell_rc",
        "C13_shell_not_cached",
        "nativeRcTest_failsOnNonzero",
        "RcTest.failsOnNonzero_sound",
        "C13_binding_full",
        "C13_binding_missing",
        "C13_binding_no_nothing",
        "C13_binding_regression_D9",
        "CheckRun.failure",
        "CheckRun.success",
        "CheckAsync.failure",
        "CheckAsync.success",
        "failure_lift",
        "report_lift",
    )
]
LEAN_TARGETS = ["PydraModel.Props.C13", "Drivers.JobProto"]
MODEL_TARGETS = ["PydraModel.JobProto.Model", "PydraModel.JobProto.Bind", "PydraModel.JobProto.ShellExec", "PydraModel.Gen.JobSkeleton", "PydraModel.DriverUtil",
                 "Drivers.JobProto"]  # fmt: skip
EXTRACTORS = [extract_job_skeleton, extract_shell_exec]

RECORDED = "task body told to fail"

# ------------------------------------------------------------------------------------------------------------------
# histories

# shell bodies: ordinary exit statuses, death by signal (negative return code), a python child that aborts, the
# one-byte wrap of the exit status; "+out": the declared output file is written before the command dies
SH_BODIES = ["ok", "fail", "sig:SEGV", "sig:KILL", "sig:ABRT", "abortpy", "exit:255", "exit:1", "exit:256"]
BODIES = {"py": ["ok", "fail", "sysexit"], "sh": SH_BODIES, "shout": SH_BODIES + ["sig:SEGV+out", "sig:KILL+out", "abortpy+out"],
          "wf": ["ok", "fail"]}  # fmt: skip
SHELL = ("sh", "shout")


def fails(task: str, body: str) -> bool:
    """does this body make the task fail?  (the property's notion: a shell command fails when its return code is
    not 0 — killed by a signal included; decided from what the OS reports, not from what pydra does)"""
    if task in SHELL:
        return jp.body_return_code(body) != 0
    return body != "ok"


def gen_history(rng, task: str, worker: str, n: int) -> dict:
    steps = []
    for k in range(n):
        body = rng.choice(BODIES[task]) if k else rng.choice([b for b in BODIES[task] if fails(task, b)])
        steps.append({"body": body, "rerun": rng.random() < 0.25})
    # end with the corrected variant and a cached resubmission
    steps += [{"body": "ok", "rerun": False}, {"body": "ok", "rerun": False}]
    return {"kind": "history", "task": task, "worker": worker, "steps": steps}


def _corpus(name: str) -> list[dict]:
    """corpus first: witnesses of (repaired) defects and minimised past disagreements, /verif/corpus/jobproto/*.jsonl"""
    import json

    p = core.VERIF / "corpus" / "jobproto" / f"{name}.jsonl"
    return [json.loads(line)["case"] for line in p.read_text().splitlines() if line.strip()]


# D61 (fixed by 7c090a81), D60 (fixed by 4d7dacb4) and the cf-worker error report
CORPUS = _corpus("c13_histories")


def run_history(ctx, case, zy) -> list[dict]:
    b = _mk(ctx)
    spec = {"task": case["task"], "x": 1, "ctl": str(b / "ctl"), "cache": str(b / "cache"), "worker": case["worker"]}
    chk = jp.checksum(spec)
    out = []
    for st in case["steps"]:
        _set_body(b, st["body"])
        s = {**spec, "rerun": st["rerun"]}
        if case["worker"] == "debug":
            rep = inproc(s, {})
        else:
            r = zy.run(s)
            if r["hang"]:
                # the submission did not return within the watchdog: the failure was not reported (a violation of the
                # property, not an infrastructure problem — the same task returns within a second when it works)
                rep = {"outcome": "hang", "outputs": None, "cwd": "orig", "msg": f"no return within {jp.WATCHDOG:.0f} s"}
            elif r["report"] is None:
                raise core.Infra(f"C13: submission ended without a report: {case} {r}")
            else:
                rep = r["report"]
        o = jp.observe(spec["cache"], chk, spec["ctl"])
        msg = (rep.get("msg") or "") + " ".join(rep.get("notes") or [])
        out.append(
            {
                "outcome": rep["outcome"],
                "outputs": rep.get("outputs"),
                "recorded_error_shown": RECORDED in msg or "Error running" in msg or "boom" in msg,
                "not_retrieved": "NOT RETRIEVED" in msg,
                "execs": o["execs"],
                "result": o["result"],
                "errFile": o["errFile"],
                "jobFile": o["jobFile"],
                "cwd": rep["cwd"],
            }
        )
    shutil.rmtree(b, ignore_errors=True)
    return out


def history_query(case) -> dict:
    debug = case["worker"] == "debug"
    steps = []
    for st in case["steps"]:
        env = {"rerun": st["rerun"], "prov": False, "bodyFails": None}
        if case["task"] in SHELL:
            env["shellRc"] = jp.body_return_code(st["body"])  # the model applies the regenerated test of Native.execute
        else:
            env["bodyFails"] = {"ok": None, "fail": False, "sysexit": True}[st["body"]]
        steps.append({"env": env, "fault": {"kind": "none"},
                      "submit": {"raiseErrors": debug, "inProcess": debug}, "then": "next" if debug else "death"})  # fmt: skip
    return {"op": "history", "prog": "run", "core": dict(jp.FRESH_CORE), "errInit": "absent", "jobInit": "absent", "steps": steps}


def classify(o: dict, debug: bool) -> str:
    """the implementation's outcome in the vocabulary of the model's `Report`"""
    if o["outcome"] == "ok":
        return "outputs" if o["outputs"] and all(v is not None for v in o["outputs"].values()) else "outputsNone"
    if o["outcome"] == "SystemExit":
        return "originalBaseException"
    if o["outcome"] == "RuntimeError" and o["not_retrieved"]:
        return "failedNotRetrieved"
    if o["outcome"] == "RuntimeError" and not debug:
        return "failedWithRecordedError" if o["recorded_error_shown"] else "failedWithoutRecordedError"
    return "originalException"


def impl_view(case, hs):
    debug = case["worker"] == "debug"
    return [{"report": classify(o, debug), "execs": o["execs"], "result": o["result"], "errFile": o["errFile"], "jobFile": o["jobFile"],
             "cwd": o["cwd"]} for o in hs]  # fmt: skip


def model_view(ans):
    out, ex = [], 0
    for s in ans["steps"]:
        ex += s["execs"]
        c = s["coreAfterSubmit"]
        out.append({"report": s["report"], "execs": ex, "result": c["result"] if c["dir"] else "absent",
                    "errFile": s["errFile"] if c["dir"] else "absent", "jobFile": s["jobFile"] if c["dir"] else "absent", "cwd": c["cwd"]})  # fmt: skip
    return out


def history_ok(case, hs) -> tuple[bool, str]:
    """Exactly the property: a failing submission reports the failure with the recorded error and leaves no
    successful result; the next submission executes again; a success is never empty."""
    debug = case["worker"] == "debug"
    exp = jp.expected_outputs({"task": case["task"], "x": 1})
    prev_execs, prev_result = 0, "absent"
    for st, o in zip(case["steps"], hs):
        executes = st["rerun"] or prev_result != "ok"
        if o["outcome"] == "hang":
            return False, "the submission did not return (watchdog)"
        if executes and o["execs"] != prev_execs + 1:
            return False, f"expected the body to run (result was {prev_result}): executions {prev_execs} -> {o['execs']}"
        if not executes and o["execs"] != prev_execs:
            return False, "a cached good result was not served"
        if executes and fails(case["task"], st["body"]):
            if o["outcome"] == "ok":
                return False, "a failing submission was reported as success"
            if o["result"] == "ok" or o["result"] == "ok_noout":
                return False, f"a failing body left a successful result ({o['result']})"
            rep = classify(o, debug)
            if rep in ("failedNotRetrieved", "failedWithoutRecordedError"):
                return False, f"the failure was reported without the recorded error ({rep})"
            if o["errFile"] != "complete":
                return False, f"error file is {o['errFile']}"
        else:
            if o["outcome"] != "ok":
                return False, f"a submission whose body succeeds (or is cached) failed: {o['outcome']}"
            if o["outputs"] != exp:
                return False, f"outputs {o['outputs']} instead of {exp}"
        prev_execs, prev_result = o["execs"], o["result"]
    return True, ""


# ------------------------------------------------------------------------------------------------------------------
# return-value binding

NAMES = ["a", "b", "c", "d", "e", "f"]
_BIND_CLASSES: dict = {}


def _gen(ret: ty.Any):
    return ret


def bind_class(outs: tuple):
    """outs = ((name, mandatory), …) -> python task class whose function returns its input `ret`"""
    from pydra.compose import python

    if outs not in _BIND_CLASSES:
        spec = {n: (python.out(type=ty.Any) if m else python.out(type=ty.Any, default="DEFAULT")) for n, m in outs}
        _BIND_CLASSES[outs] = python.define(_gen, outputs=spec)
    return _BIND_CLASSES[outs]


def gen_bind(rng) -> dict:
    n = rng.choice([1, 1, 2, 2, 2, 3, 4])
    outs = [[NAMES[i], rng.random() < 0.7] for i in range(n)]
    kind = rng.choice(["none", "tuple", "tuple", "dict", "dict", "dict", "other"])
    ret = {"kind": kind}
    if kind == "tuple":
        ret["n"] = rng.choice([n, n, max(0, n - 1), n + 1, 1])
    elif kind == "dict":
        ret["keys"] = sorted(i for i in range(n + 2) if rng.random() < 0.6)
    elif kind == "other":
        ret["what"] = rng.choice(["int", "list", "str"])
    return {"kind": "bind", "outs": outs, "ret": ret}


BIND_CORPUS = _corpus("c13_bind")  # first entry: D9 (fixed by c0520c29)


def run_bind(case) -> dict:
    import attrs

    cls = bind_class(tuple((n, bool(m)) for n, m in case["outs"]))
    r = case["ret"]
    if r["kind"] == "none":
        obj = None
    elif r["kind"] == "tuple":
        obj = tuple(("E", i) for i in range(r["n"]))
    elif r["kind"] == "dict":
        obj = {NAMES[k]: ("K", k) for k in r["keys"]}
    else:
        obj = {"int": 5, "list": [("E", 0), ("E", 1)], "str": "xy"}[r["what"]]

    class Stub:
        return_values: dict
        cache_dir = "/nonexistent"

    job = Stub()
    job.return_values = {}
    try:
        task = cls(ret=obj)
        task._run(job, False)
        out = cls.Outputs._from_job(job)
    except Exception as e:
        return {"err": core.exc_tag(e)}
    vals = []
    for k, (n, _) in enumerate(case["outs"]):
        v = getattr(out, n)
        if v is obj and obj is not None:
            d = "whole"
        elif v is None:
            d = "None"
        elif v is attrs.NOTHING:
            d = "NOTHING"
        elif v == "DEFAULT":
            d = "default"
        elif isinstance(v, tuple) and len(v) == 2 and v[0] == "E":
            d = {"elem": v[1]}
        elif isinstance(v, tuple) and len(v) == 2 and v[0] == "K":
            d = {"key": v[1]}
        else:
            d = repr(v)
        vals.append([k, d])
    return {"ok": vals}


def bind_query(case) -> dict:
    r = case["ret"]
    ret = {"kind": r["kind"] if r["kind"] != "other" else "other", "n": r.get("n", 0), "keys": r.get("keys", [])}
    return {"op": "bind", "ret": ret, "outs": [[k, bool(m)] for k, (_, m) in enumerate(case["outs"])]}


def bind_ok(case, res) -> tuple[bool, str]:
    """the property's clause: a return value that does not provide every mandatory output is reported as failed"""
    r, n = case["ret"], len(case["outs"])
    missing = []
    for k, (name, mand) in enumerate(case["outs"]):
        if not mand:
            continue
        if r["kind"] == "none":
            provided = True  # `None` stands for "every output is None"
        elif n == 1:
            provided = True  # the returned object is the single output
        elif r["kind"] == "tuple":
            provided = r["n"] == n
        elif r["kind"] == "dict":
            provided = k in r["keys"]
        else:
            provided = False
        if not provided:
            missing.append(name)
    if missing and "ok" in res:
        return False, f"mandatory outputs {missing} not provided, yet the task succeeded"
    if "ok" in res and any(d == "NOTHING" for (k, d) in res["ok"] if case["outs"][k][1]):
        return False, "a mandatory output is NOTHING after a successful run"
    return True, ""


# ------------------------------------------------------------------------------------------------------------------


def run_all(ctx, hist, binds):
    core.assert_repo_loaded()
    need_zy = any(h["worker"] != "debug" for h in hist) or not getattr(ctx, "_skel_done", False)
    zy = jp.Zygote(ctx.scratch) if need_zy else None
    try:
        if zy is not None and not getattr(ctx, "_skel_done", False):
            from harness.props.C12 import py_positions

            sk = jp.safe_skeletons(ctx)
            jp.validate_skeleton(ctx, zy, None if sk is None else py_positions(sk["run"]))
            ctx._skel_done = True
        obs = [run_history(ctx, h, zy) for h in hist]
    finally:
        if zy is not None:
            zy.close()
    bobs = [run_bind(b) for b in binds]
    rcs = sorted({jp.body_return_code(st["body"]) for h in hist if h["task"] in SHELL for st in h["steps"]})
    ans = ctx.driver("JobProto", [history_query(h) for h in hist] + [bind_query(b) for b in binds] + [{"op": "shell_rc", "rc": rc} for rc in rcs])
    if ans is not None and rcs:
        # the regenerated test of Native.execute, evaluated by Lean and by the Python mirror of `RcTest.eval`
        from harness.extractors import job_skeleton as js

        try:
            t = js.shell_exec()["native_test"]
            for rc, a in zip(rcs, ans[len(hist) + len(binds) :]):
                ctx.count(f"shell-rc:{'neg' if rc < 0 else 'zero' if rc == 0 else 'pos'}")
                if a.get("raises") != js.rc_test_eval(t, rc):
                    ctx.tie_broken.append({"kind": "rc-test-mirror", "rc": rc, "driver": a, "python": js.rc_test_eval(t, rc)})
        except Exception as e:
            ctx.tie_broken.append({"kind": "extraction", "extractor": "shell_exec", "detail": f"{core.exc_tag(e)}: {e}"})
    for k, (h, hs) in enumerate(zip(hist, obs)):
        ok, why = history_ok(h, hs)
        model = None
        if ans is not None and h["task"] in ("py", "sh", "shout"):
            model = {"error": ans[k]["error"]} if "error" in ans[k] else model_view(ans[k])
        ctx.count(f"history:{h['task']}/{h['worker']}")
        for st in h["steps"]:
            ctx.count(f"step:{st['body']}{'/rerun' if st['rerun'] else ''}")
        ctx.judge(h, impl_view(h, hs) if h["task"] in ("py", "sh", "shout") else [classify(o, h["worker"] == "debug") for o in hs], model, ok,
                  what=why or "history of failing / corrected submissions", nontrivial=len(h["steps"]) >= 2)  # fmt: skip
    for k, (b, r) in enumerate(zip(binds, bobs)):
        ok, why = bind_ok(b, r)
        model = None if ans is None else ans[len(hist) + k]
        ctx.count(f"bind:{b['ret']['kind']}/outs={len(b['outs'])}/{'ok' if 'ok' in r else r['err']}")
        ctx.judge(b, r, model, ok, what=why or "return-value binding", nontrivial=len(b["outs"]) >= 2)


def histories(ctx, big: bool):
    hs = list(CORPUS)
    plan = [("py", "debug", 5), ("sh", "debug", 5), ("shout", "debug", 5), ("wf", "debug", 1), ("py", "cf", 1)]
    if big:
        plan = [("py", "debug", 40), ("sh", "debug", 40), ("shout", "debug", 40), ("wf", "debug", 8), ("py", "cf", 6),
                ("wf", "cf", 4), ("sh", "cf", 4), ("shout", "cf", 4)]  # fmt: skip
    for task, worker, n in plan:
        for _ in range(n):
            hs.append(gen_history(ctx.rng, task, worker, ctx.rng.randint(1, 3)))
    return hs


def correspondence(ctx):
    binds = BIND_CORPUS + [gen_bind(ctx.rng) for _ in range(ctx.pick(150, 3000))]
    run_all(ctx, histories(ctx, not ctx.quick), binds)


def search(ctx):
    run_all(ctx, histories(ctx, True), BIND_CORPUS + [gen_bind(ctx.rng) for _ in range(5000)])


def replay(ctx, rec):
    c = rec["case"]
    if c.get("kind") == "bind":
        run_all(ctx, [], [c])
    else:
        run_all(ctx, [c], [])
