"""C05 — Equivalent splitter spellings agree; ill-formed split/combine is rejected early (DESIGN §6 C05, engine StateAlg §5.1)."""

from __future__ import annotations

import copy
import json

from harness import core
from harness.engines import statealg as sa

META = {
    "engine": "StateAlg",
    "category": "proof",
    "design_ref": "§6 C05, §5.1",
    "technique": "Lean 4 algebraic laws on the splitter normal form and the nested-loop reference + decision-logic theorems for the "
    "validation in Task.split / Task.combine / Submitter / State; differential correspondence on pairs of equivalent spellings and "
    "on perturbed (malformed) requests through the public path",
    "text": "Lean theorems, for splitters of any size: a one-element list/tuple has the normal form and RPN of its element "
    "(C05_singleton), the normal form is compositional in every list position (C05_context), and spellings with the same normal "
    "form give the same RPN, states, job inputs, grouping and errors for all inputs (C05_same_normal_form); nested outer (inner) "
    "chains re-bracket freely in the reference (C05_rebracket_outer / _inner), which transfers to the model for ALL trees "
    "(C05_rebracket_model, C05_rebracket_outer_model, C05_rebracket_inner_model, via C01).  Task.split raises exactly for the "
    "ill-formed requests — field twice, splitter field without value, value for a field not in the splitter, overwrite, "
    "container_ndim for an unsplit field (ValueError), non-sequence value / unknown input (TypeError) — C05_reject_iff; "
    "Task.combine / Submitter / State.combiner_validation reject exactly a combiner that is overwritten, names no task input, has "
    "no splitter, or is not split (C05_combine_reject_iff).  'Before any job is executed': on the call-site skeleton regenerated "
    "from the current source on every run (Gen/StateCallSites.lean), Task.split / Task.combine construct no Job and run nothing, "
    "Submitter.__call__ builds the State and raises 'combining without splitting' before its Job(...) and submit, "
    "NodeExecution.start calls prepare_states before _split_task and every Job(...), prepare_states runs its validations in "
    "order, and none of the State functions constructs a Job (C05_before_jobs, by decide; C05_before_jobs_meaning); in addition "
    "observed on every rejected request (zero task job directories, zero task-body executions).",
    "note": "Trusted: Lean kernel; hand-written model of _ordering (after the repair of D33) and of the validation code; the call-event "
    "extraction (harness/engines/rules.py:_function_events: positional order of calls, `guarded` flag) and the choice of the nine "
    "functions that make up the path; the implicit Split wrapper workflow job/directory is allowed to exist (DESIGN §6 C05).",
    "rule": "case = pair of equivalent splitter trees (random one-element wrapping / unwrapping / re-bracketing of outer or inner "
    "chains) with list lengths, or a valid request perturbed in one of 8 ways; distinct by canonical JSON; non-trivial = the two "
    "spellings differ and have >= 2 fields, or the request is malformed",
    "assumptions": ["field values are plain lists (container_ndim = 1); the task has inputs a..f, z"],
    "trusted": ["model of _ordering and of Task.split / Task.combine validation written by hand (StateAlg/Model.lean)"],
}

_NS = "PydraModel.StateAlg."
OBLIGATIONS = [
    _NS + n
    for n in (
        "C05_singleton",
        "C05_context",
        "C05_same_normal_form",
        "C05_rebracket_outer",
        "C05_rebracket_inner",
        "C05_rebracket_model",
        "C05_rebracket_outer_model",
        "C05_rebracket_inner_model",
        "C05_reject_iff",
        "C05_combine_reject_iff",
        "C05_before_jobs",
        "C05_before_jobs_meaning",
    )
]
EXTRACTORS = [sa.extract_state_call_sites]
LEAN_TARGETS = ["PydraModel.Props.C05"]
MODEL_TARGETS = ["PydraModel.StateAlg.Model", "PydraModel.StateAlg.Spec", "PydraModel.DriverUtil"]

TASK_FIELDS = list(range(len(sa.FIELDS))) + [6]  # a..f and z
NAME_IX = {f: i for i, f in enumerate(sa.FIELDS)} | {"z": 6, "q": 7}

# the repaired D33 witness (a one-element list at a non-first position): regression pair that must agree
D33_PAIR = (sa.O(sa.F(0), sa.O(sa.F(1))), sa.O(sa.F(0), sa.F(1)))


# ---------------------------------------------------------------------------------------------------------------
# equivalent spellings


def subtrees(t, path=()):
    yield path, t
    k = sa.kind(t)
    if k != "f":
        for i, c in enumerate(t[k]):
            yield from subtrees(c, path + (i,))


def replace_at(t, path, new):
    if not path:
        return new
    t = copy.deepcopy(t)
    node = t
    for i in path[:-1]:
        node = node[sa.kind(node)][i]
    node[sa.kind(node)][path[-1]] = new
    return t


def rewrite(rng, t):
    """one random meaning-preserving rewrite; returns (tree, label)"""
    opts = []
    for path, sub in subtrees(t):
        k = sa.kind(sub)
        opts.append(("wrap", path, sub))
        if k != "f" and len(sub[k]) == 1:
            opts.append(("unwrap", path, sub))
        if k != "f" and len(sub[k]) >= 3:
            opts.append(("group", path, sub))
        if k != "f" and any(sa.kind(c) == k and len(c[k]) >= 1 for c in sub[k]):
            opts.append(("flatten", path, sub))
    what, path, sub = rng.choice(opts)
    k = sa.kind(sub)
    if what == "wrap":
        new = {rng.choice("oi"): [sub]}
    elif what == "unwrap":
        new = sub[k][0]
    elif what == "group":
        cs = sub[k]
        i = rng.randint(0, len(cs) - 2)
        j = rng.randint(i + 2, min(len(cs), i + len(cs) - 1)) if i > 0 else rng.randint(2, len(cs) - 1)
        new = {k: cs[:i] + [{k: cs[i:j]}] + cs[j:]}
    else:
        cs = sub[k]
        idx = rng.choice([n for n, c in enumerate(cs) if sa.kind(c) == k and len(c[k]) >= 1])
        new = {k: cs[:idx] + cs[idx][k] + cs[idx + 1 :]}
    return replace_at(t, path, new), what


def equivalent_pair(rng, nfields):
    fs = rng.sample(range(len(sa.FIELDS)), nfields)
    t = sa.gen_tree(rng, fs, max_depth=3)
    t2, labels = t, []
    for _ in range(rng.randint(1, 3)):
        t2, lab = rewrite(rng, t2)
        labels.append(lab)
    lens = sa.assign_lengths(rng, t, 3, 0, repair=rng.random() < 0.85)
    return sa.flat_case_from(t, lens), sa.flat_case_from(t2, lens), labels


# ---------------------------------------------------------------------------------------------------------------
# malformed requests

KINDS = [
    "dup", "missing", "extra", "comb_not_split", "comb_not_field", "combine_without_split",
    "overwrite_split", "resplit_kwargs_only", "resplit_overwrite_explicit", "resplit_overwrite_kwargs",
    "inner_unequal", "valid",
]  # fmt: skip
RUN_KINDS = ("valid", "resplit_overwrite_explicit", "resplit_overwrite_kwargs")  # well-formed: must run
PRESPLIT_VALUE = [1, 2]  # what `.split("f", f=[1, 2])` leaves in field f when a later split(overwrite=True) replaces it


def patch_f(outputs, replaced: bool):
    """after an overwriting second split, field f keeps the first split's list as a plain value"""
    if replaced or outputs is None:
        return outputs
    if outputs and isinstance(outputs[0], list) and outputs[0] and isinstance(outputs[0][0], list):
        return [patch_f(g, replaced) for g in outputs]
    return [v[:5] + [PRESPLIT_VALUE] + v[6:] for v in outputs]


def malformed(rng, kind):
    """a request for sa.public_level plus the driver queries that decide what the model says"""
    nf = rng.choice([1, 2, 2, 3, 3, 4])
    fs = rng.sample(range(len(sa.FIELDS)), nf)
    t = sa.gen_tree(rng, fs, max_depth=3, p_single=0.1)
    lens = sa.assign_lengths(rng, t, 3, 1, repair=True)
    case = sa.flat_case_from(t, lens)
    vals = {i: v for i, v, _ in case["fields"]}
    others = [i for i in range(len(sa.FIELDS)) if i not in fs]
    req = {"splitter": None, "kwargs": {sa.FIELDS[i]: vals[i] for i in fs}, "container_ndim": None, "combiner": None}
    spl = t
    if kind == "dup":
        if nf == 1:
            spl = sa.O(t, sa.F(fs[0]))
        else:
            a, b = rng.sample(fs, 2)
            spl = json.loads(json.dumps(t).replace(json.dumps(sa.F(a)), json.dumps(sa.F(b))))  # a's leaf now names b
            if rng.random() < 0.5:
                req["kwargs"].pop(sa.FIELDS[a])
    elif kind == "missing":
        req["kwargs"].pop(sa.FIELDS[rng.choice(fs)])
    elif kind == "extra":
        req["kwargs"][sa.FIELDS[rng.choice(others)]] = [7, 8]
    elif kind == "comb_not_split":
        req["combiner"] = [sa.FIELDS[rng.choice(others)]] + ([sa.FIELDS[rng.choice(fs)]] if rng.random() < 0.5 else [])
        rng.shuffle(req["combiner"])
    elif kind == "comb_not_field":
        req["combiner"] = ["q"]
    elif kind == "combine_without_split":
        req["do_split"] = False
        req["kwargs"] = {}
        req["combiner"] = [sa.FIELDS[rng.choice(range(len(sa.FIELDS)))]]
    elif kind in ("overwrite_split", "resplit_kwargs_only", "resplit_overwrite_explicit", "resplit_overwrite_kwargs"):
        # a second .split(...) on a task that is already split over f: rejected unless overwrite=True, whether the
        # splitter is given explicitly or derived from the keyword arguments; with overwrite it replaces the first split
        if 5 in fs and kind != "resplit_overwrite_explicit" and rng.random() < 0.7:
            return malformed(rng, kind)
        req["presplit"] = True
        if kind in ("resplit_kwargs_only", "resplit_overwrite_kwargs"):
            spl = sa.O(*[sa.F(i) for i in fs]) if len(fs) > 1 else sa.O(sa.F(fs[0]))  # `splitter = list(inputs)`
            req["kwargs_only"] = True
        if kind.startswith("resplit_overwrite"):
            req["overwrite"] = True
    elif kind == "inner_unequal":
        a, b = rng.sample(range(len(sa.FIELDS)), 2)
        la, lb = rng.sample([1, 2, 3], 2)
        spl = sa.I(sa.F(a), sa.F(b)) if rng.random() < 0.6 else sa.I(sa.O(sa.F(a)), sa.F(b))
        cnt = sa.Counter(1)
        req["kwargs"] = {sa.FIELDS[a]: sa.rect_value([la], cnt), sa.FIELDS[b]: sa.rect_value([lb], cnt)}
        case = {"splitter": spl, "fields": [[a, req["kwargs"][sa.FIELDS[a]], 1], [b, req["kwargs"][sa.FIELDS[b]], 1]], "combiner": []}
    elif kind == "valid":
        if rng.random() < 0.5:
            req["combiner"] = [sa.FIELDS[i] for i in rng.sample(fs, rng.randint(1, nf))]
    req["splitter"] = None if req.get("kwargs_only") else sa.to_py(spl)
    # what the model is asked
    kw = [NAME_IX[k] for k in req["kwargs"]]
    queries = []
    if req.get("do_split", True):
        queries.append(
            {
                "op": "split_check",
                "splitter": None if req.get("kwargs_only") else spl,
                "kwargs": kw,
                "task_fields": TASK_FIELDS,
                "has_splitter": bool(req.get("presplit")),
                "overwrite": bool(req.get("overwrite")),
                "ndim_names": [],
                "non_seq": [],
            }
        )
    if req["combiner"] is not None:
        queries.append(
            {
                "op": "combine_check",
                "task_fields": TASK_FIELDS,
                "has_combiner": False,
                "overwrite": False,
                "combiner": [NAME_IX[c] for c in req["combiner"]],
                "has_splitter": req.get("do_split", True),
            }
        )
    # the State stage (combiner_validation, shapes): only meaningful when the request got that far
    st_case = {
        "splitter": spl,
        "fields": [[NAME_IX[k], v, 1] for k, v in req["kwargs"].items() if NAME_IX[k] in sa.tree_fields(spl)],
        "combiner": [NAME_IX[c] for c in (req["combiner"] or []) if c in NAME_IX and NAME_IX[c] < 6],
    }
    queries.append(sa.model_query(st_case))
    f_replaced = (not req.get("presplit")) or 5 in sa.tree_fields(spl)
    return {"kind": kind, "request": req, "state_case": st_case, "f_replaced": f_replaced}, queries


def model_of_malformed(answers, f_replaced=True) -> dict:
    """first rejecting stage wins; otherwise the outputs the model predicts"""
    for a in answers[:-1]:
        if a.get("model") != "ok":
            return {"rejected": True, "task_jobs": 0, "body_runs": 0}
    obs = sa.observable(sa.model_view(answers[-1], "model", "public"), "public")
    if "outputs" in obs:
        obs = {"outputs": patch_f(obs["outputs"], f_replaced)}
    return obs


# ---------------------------------------------------------------------------------------------------------------


def correspondence(ctx):
    core.assert_repo_loaded()
    rng = ctx.rng
    pairs = [(sa.flat_case_from(D33_PAIR[0], {0: 2, 1: 1}), sa.flat_case_from(D33_PAIR[1], {0: 2, 1: 1}), ["d33-regression"], "state")]
    pairs.append(pairs[0][:3] + ("public",))
    for _ in range(ctx.pick(300, 5000)):
        a, b, labs = equivalent_pair(rng, rng.choice([1, 2, 2, 3, 3, 3, 4, 4, 4, 4, 4, 5, 6]))
        pairs.append((a, b, labs, "state"))
    for _ in range(ctx.pick(20, 400)):
        a, b, labs = equivalent_pair(rng, rng.choice([2, 2, 3, 3, 4, 4]))
        o = sa.oracle_case(a)
        if not o.get("rejected") and len(o["rows"]) > 24:
            continue
        pairs.append((a, b, labs, "public"))
    mal = []
    for n in range(ctx.pick(60, 720)):
        mal.append(malformed(rng, KINDS[n % len(KINDS)]))  # every kind, round robin

    # model: started first, runs in the background while the implementation is exercised
    queries = []
    for a, b, _, _ in pairs:
        queries += [sa.model_query(a), sa.model_query(b)]
    offs = []
    for _, qs in mal:
        offs.append((len(queries), len(qs)))
        queries += qs
    job = sa.DriverJob(ctx, queries)

    # implementation
    impl_pairs = []
    for n, (a, b, labs, level) in enumerate(pairs):
        if level == "state":
            impl_pairs.append((sa.state_level(a), sa.state_level(b)))
        else:
            impl_pairs.append((sa.public_level(a, ctx.scratch / f"pa{n}"), sa.public_level(b, ctx.scratch / f"pb{n}")))
    impl_mal = [sa.public_level(None, ctx.scratch / f"m{n}", request=m["request"]) for n, (m, _) in enumerate(mal)]
    ans = job.result()

    for n, ((a, b, labs, level), (ia, ib)) in enumerate(zip(pairs, impl_pairs)):
        oa, ob = sa.observable(ia, level), sa.observable(ib, level)
        model = None
        if ans is not None:
            model = [sa.observable(sa.model_view(ans[2 * n], "model", level), level), sa.observable(sa.model_view(ans[2 * n + 1], "model", level), level)]
        nf = len(a["fields"])
        for lab in labs:
            ctx.count(f"rewrite:{lab}")
        ctx.count(f"{level}:pair:fields={nf}")
        case = {"a": a, "b": b, "level": level, "rewrites": labs}
        differs = a["splitter"] != b["splitter"]
        if nf <= 6:  # all trees are gated since the repair of D1
            ctx.judge(case, [oa, ob], model, oa == ob, nontrivial=differs and nf >= 2, key=json.dumps([a["splitter"], b["splitter"], level, [len(v) for _, v, _ in a["fields"]]]), what="C05 equivalent spellings")
        else:
            ctx.count("outside-quantifier")
            if model is None or [oa, ob] == model:
                ctx.judge(case, [oa, ob], model, True, nontrivial=False, what="C05 equivalent spellings (>4 fields)")
                if oa != ob:
                    ctx.count("outside-quantifier:spellings-differ (D1 region)")
            elif oa == ob:
                ctx.count("outside-quantifier:impl-agrees-but-model-differs")
            else:
                ctx.judge(case, [oa, ob], model, True, nontrivial=False, what="C05 equivalent spellings (>4 fields)")

    for n, ((m, _), impl) in enumerate(zip(mal, impl_mal)):
        obs = sa.observable(impl, "public")
        model = None
        if ans is not None:
            o, k = offs[n]
            sub = ans[o : o + k]
            if any("error" in x for x in sub):
                ctx.tie_broken.append({"kind": "model-driver-rejects-case", "case": m, "detail": [x.get("error") for x in sub]})
            else:
                model = model_of_malformed(sub, m["f_replaced"])
        ctx.count(f"request:{m['kind']}:" + ("rejected@" + impl.get("stage", "?") + ":" + impl.get("class", "") if impl.get("rejected") else "ran"))
        if m["kind"] in RUN_KINDS:
            # a well-formed request must not be rejected (the reference is the nested-loop oracle on the state case);
            # a second split with overwrite=True replaces the first one
            orc = sa.observable(sa.oracle_case(m["state_case"]), "public")
            if "outputs" in orc:
                orc = {"outputs": patch_f(orc["outputs"], m["f_replaced"])}
            spec_ok = obs == orc
        else:
            spec_ok = bool(obs.get("rejected")) and obs["task_jobs"] == 0 and obs["body_runs"] == 0
        ctx.judge({"malformed": m}, obs, model, spec_ok, nontrivial=m["kind"] != "valid", key=json.dumps([m["kind"], m["request"]], sort_keys=True), what=f"C05 request {m['kind']}")


def search(ctx):
    rng = ctx.rng
    for _ in range(ctx.pick(3000, 15000)):
        a, b, labs = equivalent_pair(rng, rng.choice([1, 2, 2, 3, 3, 4, 4, 4]))
        oa, ob = sa.observable(sa.state_level(a), "state"), sa.observable(sa.state_level(b), "state")
        ctx.judge({"a": a, "b": b, "level": "state"}, [oa, ob], None, oa == ob, what="C05 search")
    for n in range(ctx.pick(150, 600)):
        m, _ = malformed(rng, rng.choice([k for k in KINDS if k not in RUN_KINDS]))
        obs = sa.observable(sa.public_level(None, ctx.scratch / f"s{n}_{ctx.evaluations}", request=m["request"]), "public")
        ctx.judge({"malformed": m}, obs, None, bool(obs.get("rejected")) and obs["task_jobs"] == 0 and obs["body_runs"] == 0, what="C05 search")


def replay(ctx, rec):
    c = rec["case"]
    if "malformed" in c:
        m = c["malformed"]
        obs = sa.observable(sa.public_level(None, ctx.scratch / "replay", request=m["request"]), "public")
        ok = bool(obs.get("rejected")) and obs["task_jobs"] == 0 and obs["body_runs"] == 0
        ctx.judge(c, obs, None, ok, what="C05 replay")
    else:
        level = c.get("level", "state")
        f = sa.state_level if level == "state" else (lambda x: sa.public_level(x, ctx.scratch / f"r{id(x)}"))
        oa, ob = sa.observable(f(c["a"]), level), sa.observable(f(c["b"]), level)
        ctx.judge(c, [oa, ob], None, oa == ob, what="C05 replay")
