"""C34 — File inputs are staged according to their copy mode (DESIGN §6 C34, engine Files §5.9).

Implementation under test: the staging loop of `Job.inputs` (pydra/engine/job.py), `copy_nested_files` with its
FileSet-keyed memo and its reduction of `supported_modes` by `MountIndentifier.on_cifs/on_same_mount`, and
`TypeParser.apply_to_instances` (pydra/utils/typing.py).

Two routes to the real code:
  direct   `Job(task, …).inputs` of a python task whose fields are typed `Any | FileSet` (or `Any`: not staged), every
           copy mode and collation fileformats defines, nested values with repeated and equal-but-distinct objects, mount
           table patched, `FileSet.copy` wrapped by a recorder;  model = Lean `stageInputs` with the *recorded* primitive.
  public   a shell task (`python report.py <x> <ys…>`) run by the debug worker, uninstrumented: the child process reports
           path, inode, link-ness and content of every argument it received;  model = `stageInputs` with the
           counter-suffix reference primitive.
(Python tasks never see staged files: `PythonTask._run` passes `asdict(self)`, not `job.inputs`, to the function — the
 observation point of the property is `Job.inputs`, which is what the direct route reads.)
"""

from __future__ import annotations

import json
import os
import re
import typing as ty
from pathlib import Path

from harness import core
from harness.engines import files as F
from harness.props import C33 as _C33

META = {
    "engine": "Files",
    "category": "proof",
    "design_ref": "§6 C34, §5.9, §10",
    "technique": "Lean 4 theorems over a state-passing model of Job.inputs' staging loop / copy_nested_files / "
    "apply_to_instances (FileSet.copy is a parameter with an explicit contract) + differential correspondence on real "
    "files incl. replay of the recorded primitive calls through the model",
    "text": "Lean theorems, for field lists and nested values of any size, given the stated contract of fileformats' "
    "FileSet.copy and whenever staging returns (C34_partial): nested containers keep shape and non-file values "
    "(C34_shape); the staged value is the plain tree map under a resolver that depends on (class, paths) only and exactly "
    "one FileSet.copy call is made per distinct (class, paths) of a field (C34_memo); each call's operation is among "
    "copy_mode & reduced supported modes — never a symlink with a path on CIFS, never a hard link across mounts, a real "
    "copy for copy_mode=copy with destinations inside the job directory that did not exist before, 'leave' passes the "
    "original object (C34_mode, C34_supported_symlink/_hardlink/_keeps).  The staging gate contains_type(FileSet, type) is "
    "true iff SOME leaf of the declared type tree is a file class, and then every file leaf of the value is staged per the "
    "mode (C34_gate, C34_every_file_staged).  The id-keyed cache of apply_to_instances is "
    "proved inert (C34_idmemo_inert).  The full statement fails on the pinned tree: each field gets a NEW clash set, so "
    "equal names (or the same object) in two fields raise FileExistsError (C34_witness_cross_field, C34_full_fails; "
    "known finding D50).  Tie to pydra: Job.inputs on real files for every copy mode/collation with a patched mount "
    "table, and shell tasks whose child process reports what it received.",
    "note": "Trusted: Lean kernel; hand-written model; the contract of fileformats.FileSet.copy (assumed, sampled on every "
    "run).  Hollowness (DESIGN §10): 'a copy is independent / a link shows the original content' is fileformats' doing and "
    "enters only through the contract; pydra's own share is the loop, the memo, the mount-based mask and the traversal.",
    "rule": "case = (file-sets on disk, Python objects, per field: DECLARED TYPE (a type tree: file classes at any tuple "
    "position / depth of lists, dict values, unions, optionals; or no file class at all) with a conforming nested value, "
    "copy mode, collation; mount table; "
    "job directory location); distinct by canonical JSON; non-trivial = at least two file leaves in a staged field and "
    "(a repeated or equal object, or same names from different directories, or depth >= 2, or a mount entry that "
    "changes the supported modes)",
    "assumptions": [
        "FileSet.copy contract (Files/Lemmas.lean `Contract`)",
        "input values are nested lists / tuples / dicts",
        "the job directory holds nothing but pydra's own files when inputs are staged",
    ],
    "trusted": [
        "model of Job.inputs' loop / copy_nested_files / apply_to_instances written by hand (Files/Model.lean)",
        "contract of fileformats.FileSet.copy: a hypothesis of every C34 theorem, sampled against fileformats 0.18.2 on every run",
        "Mount lookup model of C38 (PydraModel.Mount.Model), used read-only",
    ],
}

_NS = "PydraModel.Files."
OBLIGATIONS = [
    _NS + n
    for n in (
        "C34_partial",
        "C34_shape",
        "C34_memo",
        "C34_mode",
        "C34_gate",
        "C34_every_file_staged",
        "C34_supported_symlink",
        "C34_supported_hardlink",
        "C34_supported_keeps",
        "C34_idmemo_inert",
        "C34_witness_cross_field",
        "C34_witness_shared_set_ok",
        "C34_full_fails",
        "copyOneRef_contract",
        "traverse_spec",
    )
]
LEAN_TARGETS = ["PydraModel.Props.C34", "Drivers.Files"]
MODEL_TARGETS = ["PydraModel.Files.Model", "PydraModel.DriverUtil", "Drivers.Files"]

CORPUS = core.VERIF / "corpus" / "files"
MODE_NAMES = sorted(F.MODES)
expected_contents = _C33.expected_contents


# --------------------------------------------------------------------------------------
# the task under test (direct route): one class per (number of fields, modes, collations, typed flags)


def _stage_fn1(f0):
    return 0


def _stage_fn2(f0, f1):
    return 0


def _stage_fn3(f0, f1, f2):
    return 0


def _stage_fn4(f0, f1, f2, f3):
    return 0


_FNS = {1: _stage_fn1, 2: _stage_fn2, 3: _stage_fn3, 4: _stage_fn4}
_TASKS: dict = {}


def stage_task(specs: tuple):
    """specs = ((mode, coll, declared type as JSON text), …)"""
    from fileformats.generic import FileSet
    from pydra.compose import python

    if specs not in _TASKS:
        inputs = {}
        for i, (mode, coll, tdesc) in enumerate(specs):
            inputs[f"f{i}"] = python.arg(
                type=F.ty_python(json.loads(tdesc)),
                copy_mode=FileSet.CopyMode[mode],
                copy_collation=FileSet.CopyCollation[coll],
            )
        _TASKS[specs] = python.define(inputs=inputs, outputs=["out"])(_FNS[len(specs)])
    return _TASKS[specs]


# --------------------------------------------------------------------------------------
# generation


def gen_direct(rng) -> dict:
    while True:
        c = _gen_direct(rng)
        if not F.file_key_clash(c):
            return c


def _gen_direct(rng) -> dict:
    use_mounts = rng.random() < 0.45
    while True:
        sets = F.gen_sets(rng, simple=False, use_mounts=use_mounts)
        if sets:
            break
    objs = list(range(len(sets)))
    for _ in range(rng.choice([0, 0, 1, 2])):
        objs.append(rng.randrange(len(sets)))
    nf = rng.choice([1, 1, 2, 2, 3, 4])
    staged_budget = 1 if rng.random() < 0.6 else nf  # mostly one staged field: several fall into D50 when names coincide
    fields = []
    for i in range(nf):
        typed = rng.random() < 0.85
        mode = rng.choice(MODE_NAMES) if rng.random() < 0.7 else rng.choice(["copy", "link", "hardlink", "symlink", "any"])
        coll = rng.choice(["any", "any", "siblings", "adjacent"])
        if staged_budget > 0 and typed:
            staged_budget -= 1
            v = F.gen_tree(rng, len(objs), rng.choice([0, 1, 2, 3]), False, [], int_keys=False)  # pydra hashes inputs: str keys
        else:
            v = rng.choice([{"a": 3}, {"a": None}, {"l": []}, {"a": "s"}, {"l": [{"a": 1}]}]) if typed else F.gen_tree(rng, len(objs), 1, False, [], int_keys=False)
        fields.append({"name": f"f{i}", "value": v, "mode": mode, "coll": coll, "typed": typed})
    return {
        "op": "stage",
        "via": "direct",
        "sets": sets,
        "objs": objs,
        "fields": fields,
        "table": F.gen_table(rng) if use_mounts else [],
        "dest_root": rng.choice(["cache", "mA/cache", "mB/cache", "mA2/cache"]) if use_mounts else "cache",
        "dest": "cache",
    }


def gen_typed(rng, tdesc: dict | None = None) -> dict:
    """The DECLARED TYPE of a field as the generated aspect: one field whose type is drawn from `F.type_templates()` with a
    conforming value (a file may sit at any position / depth), next to an untyped and a plain field."""
    sets = F.gen_sets(rng, simple=True, use_mounts=False)
    have = {p for st in sets for p in st["paths"]}
    for extra in ({"cls": "File", "paths": ["n1/in.dat"]}, {"cls": "Directory", "paths": ["n2/indir"]}, {"cls": "File", "paths": ["n3/in.dat"]}):
        if not (have & set(extra["paths"])):
            sets.append(extra)
    objs = list(range(len(sets))) + [rng.randrange(len(sets))]
    t = tdesc or rng.choice(F.type_templates())
    while True:
        v = F.gen_typed_value(rng, t, sets, objs)
        if v is not None:
            break
        t = rng.choice(F.type_templates())
    mode = rng.choice(["copy", "copy", "link", "hardlink", "symlink", "hardlink_or_copy", "link_or_copy", "any"])
    fields = [{"name": "f0", "value": v, "mode": mode, "coll": "any", "ty": t}]
    if rng.random() < 0.5:
        fields.append({"name": "f1", "value": {"a": rng.choice([0, 3, "s", None])}, "mode": "any", "coll": "any", "ty": {"k": "atom", "n": "Any"}})
    return {"op": "stage", "via": "direct", "sets": sets, "objs": objs, "fields": fields, "table": [],
            "dest_root": "cache", "dest": "cache"}  # fmt: skip


def gen_clash(rng, mode: str) -> dict:
    """Two DIFFERENT files with the same name from different directories inside ONE staged field's nested value (plus a
    repeat of one of them), for the given copy mode."""
    name = rng.choice(["out.txt", "res", "data.nii.gz", "a b.txt", "x.", ".hidden"])
    d1, d2 = rng.sample(["n1", "n2", "n3"], 2)
    cls = "TextFile" if name.endswith(".txt") and rng.random() < 0.3 else "File"
    sets = [{"cls": cls, "paths": [f"{d1}/{name}"]}, {"cls": cls, "paths": [f"{d2}/{name}"]}]
    if rng.random() < 0.5:
        sets.append({"cls": "Directory", "paths": [f"n3/{rng.choice(F.DIR_NAMES)}x"]})
    leaves = [{"o": 0}, {"o": 1}, {"o": rng.choice([0, 1])}] + ([{"o": 2}] if len(sets) > 2 else []) + [{"a": rng.choice(F.ATOMS)}]
    rng.shuffle(leaves)
    shape = rng.choice(["l", "t", "d", "nested"])
    if shape == "d":
        v = {"d": [[{"a": f"k{i}"}, c] for i, c in enumerate(leaves)]}
    elif shape == "nested":
        v = {"l": [leaves[0], {"t": leaves[1:3]}, {"d": [[{"a": "k"}, {"l": leaves[3:]}]]}]}
    else:
        v = {shape: leaves}
    fields = [{"name": "f0", "value": v, "mode": mode, "coll": rng.choice(["any", "siblings", "adjacent"]), "typed": True}]
    if rng.random() < 0.4:
        fields.append({"name": "f1", "value": {"a": rng.choice([0, 3, "s", None])}, "mode": "any", "coll": "any", "typed": rng.random() < 0.5})
    return {"op": "stage", "via": "direct", "sets": sets, "objs": list(range(len(sets))), "fields": fields, "table": [],
            "dest_root": "cache", "dest": "cache"}  # fmt: skip


def gen_public(rng) -> dict:
    use_mounts = rng.random() < 0.4
    dirs = F.SRC_DIRS if use_mounts else F.SRC_DIRS[:3]
    sets, used = [], set()
    for _ in range(rng.choice([2, 3, 3, 4])):
        d = rng.choice(dirs)
        # distinct names without blanks: a clash would be renamed "name (1).ext", and a blank in a path splits the
        # shell argument (D14, property C23) — clashes inside one field are exercised on the direct route
        nm = rng.choice(["out.txt", "res", "data.nii.gz", "g.dat", "a..b", "x.", "notes.txt"])
        if nm in used:
            continue
        used.add(nm)
        sets.append({"cls": "File", "paths": [f"{d}/{nm}"]})
    if rng.random() < 0.3:
        d = rng.choice(dirs)
        if "dir.d" not in used:
            sets.append({"cls": "Directory", "paths": [f"{d}/dir.d"]})
    n = len(sets)
    files_only = [i for i, s in enumerate(sets) if s["cls"] == "File"]
    x = rng.randrange(n)
    ys = [rng.choice(files_only) for _ in range(rng.choice([0, 1, 2, 3, 4]))]
    mode_x, mode_ys = rng.choice(MODE_NAMES), rng.choice(MODE_NAMES)
    coll = rng.choice(["any", "siblings"])
    return {
        "op": "stage",
        "via": "public",
        "sets": sets,
        "objs": list(range(n)),
        "fields": [
            {"name": "x", "value": {"o": x}, "mode": mode_x, "coll": coll, "typed": True},
            {"name": "ys", "value": {"l": [{"o": y} for y in ys]}, "mode": mode_ys, "coll": coll, "typed": True},
        ],
        "table": F.gen_table(rng) if use_mounts else [],
        "dest_root": rng.choice(["cache", "mA/cache", "mB/cache", "mA2/cache"]) if use_mounts else "cache",
        "dest": "cache",
    }


# --------------------------------------------------------------------------------------
# oracle


def set_dirs_differ(s: dict) -> bool:
    return len({os.path.dirname(p) for p in s["paths"]}) > 1


def oracle_selection(case: dict, root: Path, dest: Path, f: dict, s: dict) -> int:
    """Operations the copy mode asks for and the mounts allow (independent of the model: C38's reference lookup)."""
    table = F.abs_table(case, root)
    sup = F.oracle_supported(table, [str(root / p) for p in s["paths"]], str(dest))
    sel = F.MODES[f["mode"]] & sup
    if F.COLLS[f["coll"]] >= 1 and len(s["paths"]) > 1 and set_dirs_differ(s):
        sel &= ~1  # fileformats: files cannot be left in place when they have to become siblings
    return sel


def staged(f: dict) -> bool:
    v = f["value"]
    truthy = bool(v["a"]) if "a" in v else ("o" in v or "ref" in v or bool(v.get("l") or v.get("t") or v.get("d")))
    return F.ty_has_file(F.field_ty(f)) and truthy  # the oracle's gate: a file class ANYWHERE in the declared type


def norm_name(n: str) -> str:
    return re.sub(r" \(\d+\)", "", n)


def d50_match(case: dict) -> bool:
    """Match rule of D50: two different staged fields, neither able to leave its files in place, would put the same
    name (up to a counter suffix) into the job directory."""
    names = F.basenames_by_field({**case, "fields": [{**f, "truthy": staged(f), "ty": F.ANY_OR_FILESET if staged(f) else {"k": "atom", "n": "Any"}} for f in case["fields"]]})
    cand = []
    for f, ns in zip(case["fields"], names):
        if staged(f) and ns and not (F.MODES[f["mode"]] & 1 and not any(
            F.COLLS[f["coll"]] >= 1 and len(case["sets"][case["objs"][o]]["paths"]) > 1 and set_dirs_differ(case["sets"][case["objs"][o]])
            for o in F.tree_leaves(f["value"], [])
        )):
            cand.append({norm_name(n) for n in ns})
    return any(cand[i] & cand[j] for i in range(len(cand)) for j in range(i + 1, len(cand)))


def oracle(case, root, dest, err, values, src_objs, created) -> tuple[bool, str]:
    unsat = False
    for f in case["fields"]:
        if staged(f):
            for o in F.tree_leaves(f["value"], []):
                if oracle_selection(case, root, dest, f, case["sets"][case["objs"][o]]) == 0:
                    unsat = True
    if err is not None:
        if err == "UnsatisfiableCopyModeError" and unsat:
            return True, ""
        return False, f"raised {err}"
    if unsat:
        return False, "a copy mode that cannot be satisfied was not rejected"
    tops = set()
    for f, v in zip(case["fields"], values):
        pairs: list = []
        if not F.same_shape(f["value"], v, src_objs, {}, pairs):
            return False, f"shape/non-file values of field {f['name']} changed"
        if not staged(f):
            if any(res is not src_objs[o] for o, res in pairs):
                return False, "a field that is not to be staged was modified"
            continue
        within: dict = {}
        for o, res in pairs:
            s = case["sets"][case["objs"][o]]
            src = src_objs[o]
            sel = oracle_selection(case, root, dest, f, s)
            left = res is src or sorted(map(str, res.fspaths)) == sorted(map(str, src.fspaths))  # (an equal object's result)
            kind = F.fs_kind(sorted(src.fspaths), sorted(res.fspaths), left)
            if kind in ("missing", "broken-sym", "source-missing") or not all(os.path.exists(p) for p in res.fspaths):
                return False, f"staged entry {sorted(F.rel(p, root) for p in res.fspaths)} does not exist ({kind})"
            if not sel & {"leave": 1, "hard": 2, "sym": 4, "copy": 8}[kind]:
                return False, f"{s['paths']} staged by '{kind}' which copy_mode={f['mode']} (with the mounts) does not allow"
            if type(res) is not type(src):
                return False, "class changed"
            if kind != "leave":
                for p in res.fspaths:
                    if not str(p).startswith(str(dest) + "/"):
                        return False, f"{p} not inside the job directory"
                    tops.add(Path(str(p)[len(str(dest)) + 1 :]).parts[0])
                got = sorted(json.dumps(F.read_content(p), sort_keys=True) for p in res.fspaths)
                if got != expected_contents(case, case["objs"][o]):
                    return False, "staged content differs from the original"
                if kind in ("hard", "sym") and s["cls"] != "Directory" and len(s["paths"]) == 1:
                    if os.stat(next(iter(res.fspaths))).st_ino != os.stat(next(iter(src.fspaths))).st_ino:
                        return False, "a link does not show the original"
                if kind == "copy" and s["cls"] != "Directory":
                    if {os.stat(p).st_ino for p in res.fspaths} & {os.stat(p).st_ino for p in src.fspaths}:
                        return False, "a copy shares the original's inode"
            if o in within and within[o] is not res:
                return False, "one file object came back as two different staged objects"
            within[o] = res
    if created is not None and set(created) != tops:
        return False, f"entries in the job directory {sorted(created)} are not exactly the staged ones {sorted(tops)} (staged more than once?)"
    return True, ""


def nontrivial(case: dict) -> bool:
    for f in case["fields"]:
        if not staged(f):
            continue
        leaves = F.tree_leaves(f["value"], [])
        if len(leaves) < 2:
            continue
        sets_used = [case["objs"][o] for o in leaves]
        names = [os.path.basename(p) for si in set(sets_used) for p in case["sets"][si]["paths"]]
        if len(leaves) != len(set(leaves)) or len(sets_used) != len(set(sets_used)) or len(names) != len(set(names)):
            return True
        if F.tree_depth(f["value"]) >= 2:
            return True
        if case.get("table") and any(t == "cifs" for _p, t in case["table"]):
            return True
    return False


# --------------------------------------------------------------------------------------
# implementation runs


def run_direct(ctx, case: dict, n: int) -> dict:
    from pydra.engine.job import Job
    from pydra.engine.submitter import Submitter

    root = ctx.scratch / f"d{n}"
    env = F.materialise({**case, "dest": case["dest_root"]}, root)
    labelled: dict = {}
    values = [F.build_value(f["value"], env["objs"], labelled) for f in case["fields"]]
    task_cls = stage_task(tuple((f["mode"], f["coll"], json.dumps(F.field_ty(f), sort_keys=True)) for f in case["fields"]))
    task = task_cls(**{f"f{i}": v for i, v in enumerate(values)})
    # pydra coerces values to the declared type (parametrised containers are rebuilt): what matters is that the value the
    # task holds has the generated shape with the very same file objects at its leaves
    for i, f in enumerate(case["fields"]):
        pairs: list = []
        if not F.same_shape(f["value"], getattr(task, f"f{i}"), env["objs"], {}, pairs) or any(r is not env["objs"][o] for o, r in pairs):
            raise RuntimeError(f"the task constructor changed the value of a field typed {F.ty_str(F.field_ty(f))}: "
                               "the harness no longer drives Job.inputs as intended")
    sub = Submitter(worker="debug", cache_root=root / case["dest_root"])
    job = Job(task=task, submitter=sub, name="main")
    dest = job.cache_dir
    dest.mkdir(parents=True, exist_ok=True)
    before = set(os.listdir(dest))
    err, inputs = None, None
    with F.patched_mounts(case, root), F.Recorder() as rec:
        try:
            inputs = job.inputs
        except Exception as e:  # noqa: BLE001
            err = core.exc_tag(e)
    res_values = [inputs[f"f{i}"] for i in range(len(values))] if inputs is not None else None
    return finish(ctx, case, root, dest, before, err, res_values, env["objs"], rec.calls)


def finish(ctx, case, root, dest, before, err, res_values, src_objs, calls, reported=None) -> dict:
    created = sorted(set(os.listdir(dest)) - before - F.RESERVED) if dest.is_dir() else []
    by_content = {}
    for o, obj in enumerate(src_objs):
        by_content.setdefault(expected_contents(case, case["objs"][o])[0], obj)

    def kind_of(res):
        for o in src_objs:
            if res is o:
                return "leave"
        try:
            c = sorted(json.dumps(F.read_content(p), sort_keys=True) for p in res.fspaths)[0]
            src = by_content.get(c)
            if src is None:
                return "unknown-source"
            if sorted(map(str, src.fspaths)) == sorted(map(str, res.fspaths)):
                return "leave"
            return F.fs_kind(sorted(src.fspaths), sorted(res.fspaths), False)
        except Exception:  # noqa: BLE001
            return "unreadable"

    impl = {"err": err, "fields": None, "created": [F.rel(dest / c, root) for c in created]}
    if res_values is not None:
        table = F.ObjTable()
        impl["fields"] = [
            {"name": f["name"], "value": F.canon_impl_value(v, root, table, kind_of)} for f, v in zip(case["fields"], res_values)
        ]
    if calls is not None:
        impl["copies"] = [
            {"src": sorted(F.rel(p, root) for p in c["self"].fspaths), "dst": sorted(F.rel(p, root) for p in c["out"].fspaths),
             "op": c["op"]}
            for c in calls if "out" in c
        ]  # fmt: skip
    try:
        spec_ok, why = oracle(case, root, dest, err, res_values, src_objs, created if err is None else None)
    except OSError as e:  # whatever cannot be observed is a failed observation of the property, not a harness crash
        spec_ok, why = False, f"staged files cannot be inspected: {core.exc_tag(e)}"
    ex = sorted({str(p) for o in src_objs for p in o.fspaths} | {str(dest / b) for b in before})
    mcase = {**case, "fields": [{**f, "truthy": _truthy(f["value"])} for f in case["fields"]]}
    if calls is not None:
        q = F.model_request(mcase, root, dest, ex, "script", F.script_from_calls(calls))
    else:
        q = F.model_request(mcase, root, dest, ex, "ref")
    return {"case": case, "root": root, "impl": impl, "spec_ok": spec_ok, "why": why, "q": q, "calls": calls}


def _truthy(v: dict) -> bool:
    return bool(v["a"]) if "a" in v else ("o" in v or "ref" in v or bool(v.get("l") or v.get("t") or v.get("d")))


def run_public(ctx, case: dict, n: int) -> dict:
    """Shell task; the child reports what it got.  The observable is rebuilt from the child's report alone."""
    from pydra.engine.submitter import Submitter

    root = ctx.scratch / f"p{n}"
    env = F.materialise({**case, "dest": case["dest_root"]}, root)
    script = root / "report.py"
    script.write_text(F.REPORT_SCRIPT)
    fx, fys = case["fields"]
    Task = F.report_task(fx["mode"], fys["mode"], fx["coll"])
    objs = env["objs"]
    task = Task(script=str(script), x=objs[fx["value"]["o"]], ys=[objs[c["o"]] for c in fys["value"]["l"]])
    err, res = None, None
    with F.patched_mounts(case, root):
        try:
            with Submitter(worker="debug", cache_root=root / case["dest_root"]) as sub:
                res = sub(task, raise_errors=True)
        except Exception as e:  # noqa: BLE001
            err = core.exc_tag(e)
    jobdirs = [d for d in os.listdir(root / case["dest_root"]) if d.startswith("shell-") and (root / case["dest_root"] / d).is_dir()]
    dest = root / case["dest_root"] / (jobdirs[0] if jobdirs else "no-job-dir")
    before = {"_job.pklz"}
    res_values = None
    if res is not None:
        # rebuild "values" from the report: a fresh wrapper per reported path, shared when the same path is reported
        # for occurrences of one object (what the child can tell); kinds are read off the file system afterwards
        lines = [json.loads(l) for l in res.outputs.stdout.splitlines() if l.strip()]
        classes, _ = F._ff()
        cache: dict = {}
        leaf_objs = [fx["value"]["o"]] + [c["o"] for c in fys["value"]["l"]]
        vals = []
        for o, line in zip(leaf_objs, lines):
            src = objs[o]
            p = Path(line["p"])
            if sorted(map(str, src.fspaths)) == [str(p)]:
                vals.append(src)
            else:
                key = (o, str(p))
                if key not in cache:
                    cache[key] = type(src)(p)
                vals.append(cache[key])
        if len(lines) != len(leaf_objs):
            err = "report-length-mismatch"
        else:
            res_values = [vals[0], vals[1:]]
    elif err is None:
        err = "no-result"
    out = finish(ctx, case, root, dest, before, err, res_values, objs, None)
    return out


# --------------------------------------------------------------------------------------
# verdicts


def judge_all(ctx, runs: list[dict]):
    qs = [r["q"] for r in runs if r["q"] is not None]
    ans = ctx.driver("Files", qs) if qs else []
    it = iter(ans) if ans is not None else None
    for r in runs:
        model = None
        if r["q"] is not None and it is not None:
            model = F.canon_model_answer(next(it), r["root"])
        impl = dict(r["impl"])
        case = r["case"]
        if model is not None and "driver-error" not in model:
            if impl.get("copies") is None:
                model.pop("copies", None)
            dest_rel = F.rel(r["q"]["dest"], r["root"])
            model["created"] = sorted({dest_rel + "/" + c[len(dest_rel) + 1 :].split("/")[0] for c in model.get("created", [])})
            if model["err"] is not None:
                model = {"err": model["err"], "fields": None}
                impl = {"err": impl["err"], "fields": None}
            elif case["via"] == "public":
                # the child cannot tell object identity; compare paths/kinds only
                impl, model = _drop_obj(impl), _drop_obj(model)
        defect = "D50" if d50_match(case) else None
        ctx.count(f"via={case['via']}")
        ctx.count("err=" + str(r["impl"]["err"]))
        ctx.count("mounts" if case.get("table") else "no-mounts")
        ctx.count(f"staged-fields={sum(1 for f in case['fields'] if staged(f))}")
        for f in case["fields"]:
            if "ty" in f:
                ctx.count("type=" + F.ty_str(f["ty"]) + (" [staged]" if staged(f) else " [not staged]"))
            if staged(f):
                ctx.count("mode=" + f["mode"])
                ctx.count("coll=" + f["coll"])
        ctx.judge(case, impl, model, r["spec_ok"], nontrivial=nontrivial(case), defect=defect, what=r["why"])
        if r["calls"]:
            F.judge_contract(ctx, r["calls"], r["root"])


def _drop_obj(obs):
    obs = json.loads(json.dumps(obs))

    def walk(t):
        if isinstance(t, dict):
            t.pop("obj", None)
            for v in t.values():
                walk(v)
        elif isinstance(t, list):
            for v in t:
                walk(v)

    walk(obs)
    return obs


def load_corpus(name: str) -> list[dict]:
    p = CORPUS / name
    return [json.loads(line) for line in p.read_text().splitlines() if line.strip()] if p.exists() else []


def correspondence(ctx):
    core.assert_repo_loaded()
    runs = []
    n = 0
    d50 = []
    for c in load_corpus("C34_direct.jsonl"):
        r = run_direct(ctx, c, n); n += 1  # noqa: E702
        runs.append(r)
        if c.get("witness") == "D50":
            d50.append(r)
    for c in load_corpus("C34_public.jsonl"):
        r = run_public(ctx, c, n); n += 1  # noqa: E702
        runs.append(r)
        if c.get("witness") == "D50":
            d50.append(r)
    if any(f["id"] == "D50" for f in ctx.known()):
        fails = bool(d50) and all((not r["spec_ok"]) and r["impl"]["err"] == "FileExistsError" for r in d50)
        ctx.finding("D50", fails, "; ".join(r["why"] for r in d50) if d50 else "witness missing from corpus")
    for rep in range(ctx.pick(3, 25)):  # every declared-type template (file class at any position / depth, or nowhere)
        for t in F.type_templates():
            c = gen_typed(ctx.rng, t)
            if not F.file_key_clash(c):
                runs.append(run_direct(ctx, c, n)); n += 1  # noqa: E702
    for rep in range(ctx.pick(2, 12)):  # same name from two directories in one field, under EVERY copy mode
        for mode in MODE_NAMES:
            runs.append(run_direct(ctx, gen_clash(ctx.rng, mode), n)); n += 1  # noqa: E702
            ctx.count("forced-clash-in-one-field")
    for _ in range(ctx.pick(220, 3000)):
        runs.append(run_direct(ctx, gen_direct(ctx.rng), n)); n += 1  # noqa: E702
    for _ in range(ctx.pick(8, 120)):
        runs.append(run_public(ctx, gen_public(ctx.rng), n)); n += 1  # noqa: E702
    judge_all(ctx, runs)


def search(ctx):
    n = 100000
    for i in range(ctx.pick(800, 5000)):
        c = gen_clash(ctx.rng, ctx.rng.choice(MODE_NAMES)) if i % 3 == 0 else (gen_typed(ctx.rng) if i % 3 == 1 else gen_direct(ctx.rng))
        r = run_direct(ctx, c, n + i)
        if not r["spec_ok"] and not d50_match(c):
            ctx.judge(c, r["impl"], None, False, what=r["why"])
            return
    for i in range(ctx.pick(40, 300)):
        c = gen_public(ctx.rng)
        r = run_public(ctx, c, n + 50000 + i)
        if not r["spec_ok"] and not d50_match(c):
            ctx.judge(c, r["impl"], None, False, what=r["why"])
            return


def replay(ctx, rec):
    case = rec["case"]
    if "contract-sample" in case:
        ctx.notes.append("replay of a contract sample: re-run the whole check")
        return correspondence(ctx)
    r = run_public(ctx, case, 0) if case.get("via") == "public" else run_direct(ctx, case, 0)
    judge_all(ctx, [r])
