"""C19 — Task execution cannot silently alter its recorded inputs (DESIGN §6 C19, §5.4).

Case = (kind of input value, what the body does to it, initial value, worker, raise_errors).  The pool below has
python tasks over list / dict / set / plain object / numpy array / nested containers / two list fields / file inputs
(copy modes `any` and `copy`) and over HASHABLE-BUT-MUTABLE values (instances of ordinary classes without / with `__eq__`,
with `__slots__`, tuples and frozensets of tuples holding mutable members, `functools.partial` and bound methods holding
a list, frozen dataclass / attrs instances with a list field, these nested in a list / dict and as one of two fields),
whose body — selected by the INPUT `mode` — leaves the value alone, changes it in
place, rebinds a local name, or changes it and restores it; plus shell tasks that append to their file argument under
each copy mode (the only place where staging is in effect, see D63).  Every single-field value kind also runs WRAPPED:
as a state of a split task (2–3 states, one of which changes its value), as a node of a workflow (upstream value →
mutating node → downstream) and as a node of a nested workflow — the jobs a workflow dispatches, whose checksum the
submitting process has computed before the job is pickled into a `cf` worker.

  implementation observable  exception class raised by `Submitter.__call__`, whether the submitter logged an ERROR
                             record, the field names listed by the RuntimeError, whether the one result directory in the
                             (fresh) cache root is named after the checksum of the original inputs, the `errored` flag
                             stored in it, whether the caller's original object / file changed
  model observable           `HashCheck.runJob` + `report` + `writeThrough` (Lean driver) on the hashes (real
                             `hash_function`) of the value before and after a harness-side replica of the body's effect
  spec oracle (independent)  from the pool definition alone: an in-place change must be reported (exception or ERROR log
                             record), the result directory must carry the original checksum, and with copy mode `copy` the
                             original file must be untouched
  D63 match rule             python task, file-set field with copy_mode=copy, body writes to the path it received
  D70 (fixed)                partial / bound-method inputs were hashed as a constant; the witness is a regression case now
"""

from __future__ import annotations

import copy
import dataclasses
import functools
import logging
import os
import re
import shutil
import types
import typing as ty
from pathlib import Path

import attrs
from fileformats.generic import File

from harness import core
from harness.extractors.job_skeleton import extract_job_skeleton
from harness.extractors.pickle_state import extract as extract_pickle_state
from harness.engines.cachehist import ChildRunner
from pydra.compose import python, shell, workflow

META = {
    "engine": "JobProto",
    "category": "proof",
    "design_ref": "§6 C19, §5.4",
    "technique": "Lean 4 decision theorem (hash function, value type and body abstract) + differential correspondence on "
    "python tasks mutating their inputs under the debug and cf workers",
    "text": "Lean theorems for any number of fields, any value type, any hash function, any effect of the body: "
    "C19_detect — after the body `_check_for_hash_changes` raises iff some input's hash differs from its hash at checksum "
    "time, C19_changed_exact — naming exactly those fields; C19_identity — the result is saved under the checksum of the "
    "original inputs whatever the body did (C19_memo_needed: this rests on the Job._checksum memo); C19_value_changed — "
    "collision-extraction form (no injectivity assumed); C19_reported — through Submitter.__call__ a detected change reaches "
    "the caller as the raised RuntimeError or as the submitter's ERROR log record; C19_copy_mode / C19_link_modes — staging with "
    "mode copy isolates the original, the other modes expose it; C19_witness_python_copy (D63) — python tasks never see the staged "
    "copy.  Tied to pydra/engine/job.py, compose/base/task.py, compose/python.py, engine/submitter.py by running the pool. C19_skeleton (decide over the regenerated skeleton of Job.run / run_async): the check is performed once on the normal path, after the body, after the result is saved and after the job lock is released.",
    "note": "Trusted: Lean kernel; hand-written model HashCheck.lean; the real hash_function enters as the parameter `hash` "
    "(its own properties are C08's subject); fileformats' FileSet.copy honours the requested mode (C34); the harness-side "
    "replica of each body's effect.",
    "rule": "case = (kind incl. hashable-but-mutable kinds, mode, initial value, worker, raise_errors); distinct by canonical JSON; non-trivial = the body "
    "touches its input (mutate / restore) or the worker is cf",
    "assumptions": [
        "field names of a task are distinct (attrs)",
        "file bodies move st_mtime_ns when they rewrite a file (stale file hashes for equal (path, mtime) are finding D7 of C09)",
    ],
    "trusted": ["model of Job.checksum / Task._hash_changes / _check_for_hash_changes / Submitter.__call__ error handling written by hand (JobProto/HashCheck.lean)"],
}

_NS = "PydraModel.JobProto.HashCheck."
OBLIGATIONS = [
    _NS + n
    for n in (
        "C19_detect",
        "C19_changed_exact",
        "C19_identity",
        "C19_value_changed",
        "C19_skip_none",
        "C19_skip_misses",
        "C19_witness_skip",
        "C19_roundtrip_preserves",
        "C19_refs_present",
        "C19_detect_worker",
        "C19_drop_refs_silent",
        "C19_drop_refs_fresh_detected",
        "C19_witness_drop_refs",
        "C19_reported_node",
        "C19_pickle_tie",
        "C19_no_check_silent",
        "C19_reported",
        "C19_copy_mode",
        "C19_link_modes",
        "C19_witness_python_copy",
        "C19_memo_needed",
    )
]
OBLIGATIONS.append("PydraModel.JobProto.Skel.C19_skeleton")  # decide over the regenerated Job.run / run_async skeleton
LEAN_TARGETS = ["PydraModel.Props.C19", "PydraModel.JobProto.HashCheckSkel"]
EXTRACTORS = [extract_job_skeleton, extract_pickle_state]
MODEL_TARGETS = ["PydraModel.JobProto.HashCheck", "PydraModel.DriverUtil"]

# --------------------------------------------------------------------------------------------------------------
# the pool


class Box:
    """a plain python object (hashed through its __dict__)"""

    def __init__(self, a, items):
        self.a = a
        self.items = items

    def __eq__(self, o):
        return isinstance(o, Box) and (self.a, self.items) == (o.a, o.items)


# hashable-but-mutable values: `isinstance(v, collections.abc.Hashable)` holds for every one of them, and every one can
# be changed in place (so "hashable" must never be read as "immutable" by the post-run check)


class Plain:
    """ordinary class, no __eq__: identity hash"""

    def __init__(self, a, items):
        self.a = a
        self.items = items


class PlainEq(Plain):
    """ordinary class with __eq__ and a __hash__ over part of its state"""

    def __eq__(self, o):
        return type(o) is type(self) and (self.a, self.items) == (o.a, o.items)

    def __hash__(self):
        return hash(self.a)


class Slotted:
    __slots__ = ("a", "items")

    def __init__(self, a, items):
        self.a = a
        self.items = items


@dataclasses.dataclass(frozen=True)
class FrozenDC:
    a: int
    items: list


@attrs.frozen
class FrozenAttrs:
    a: int
    items: list


class Holder:
    def __init__(self, items):
        self.items = items

    def total(self, k=0):
        return sum(self.items) + k


def addall(items, k=0):
    return sum(items) + k


HM_KINDS = [
    "plain", "plainitems", "plaineq", "slotted", "tuple", "tuple2", "fset", "partial", "bound", "fdc", "fattrs",
    "inlist", "indict",
]  # fmt: skip
CALLABLE_KINDS = {"partial", "bound"}  # D70 (fixed): used to be hashed as a constant


def make_hm(kind: str, val: dict):
    """build the value of a hashable-but-mutable kind from its JSON-able description {"a": int, "items": [ints]}"""
    a, items = val["a"], list(val["items"])
    if kind in ("plain", "plainitems"):
        return Plain(a, items)
    if kind == "plaineq":
        return PlainEq(a, items)
    if kind == "slotted":
        return Slotted(a, items)
    if kind == "tuple":
        return ("rec", items)
    if kind == "tuple2":
        return ("rec", ("in", items), a)
    if kind == "fset":
        return frozenset({("k", Plain(a, items)), ("j", a)})
    if kind == "partial":
        return functools.partial(addall, items, k=a)
    if kind == "bound":
        return Holder(items).total
    if kind == "fdc":
        return FrozenDC(a, items)
    if kind == "fattrs":
        return FrozenAttrs(a, items)
    if kind == "inlist":
        return [Plain(a, items), a]
    if kind == "indict":
        return {"k": ("rec", items), "n": a}
    raise ValueError(kind)


def hm_items(kind: str, v):
    """the mutable list buried in a hashable-but-mutable value"""
    if kind in ("plainitems", "fdc", "fattrs"):
        return v.items
    if kind == "tuple":
        return v[1]
    if kind == "tuple2":
        return v[1][1]
    if kind == "fset":
        return next(e[1] for e in v if isinstance(e[1], Plain)).items
    if kind == "partial":
        return v.args[0]
    if kind == "bound":
        return v.__self__.items
    if kind == "indict":
        return v["k"][1]
    raise ValueError(kind)


def touch(kind: str, v, undo: bool = False):
    """the in-place change of the pool (and its inverse)"""
    if kind in ("plain", "plaineq", "slotted"):
        v.a += -1 if undo else 1
        return
    if kind == "inlist":
        v[0].a += -1 if undo else 1
        return
    if kind in HM_KINDS:
        l = hm_items(kind, v)
        l.pop() if undo else l.append(77)
        return
    if kind == "list":
        v.pop() if undo else v.append(99)
    elif kind == "dict":
        v.pop("added") if undo else v.__setitem__("added", 1)
    elif kind == "set":
        v.discard(-7) if undo else v.add(-7)
    elif kind == "obj":
        v.a += -1 if undo else 1
    elif kind == "objlist":
        v.items.pop() if undo else v.items.append(5)
    elif kind == "ndarray":
        v[0] += -1 if undo else 1
    elif kind == "nested":
        v[0]["k"].pop() if undo else v[0]["k"].append(0)
    elif kind == "file":
        p = str(v)
        if undo:
            raise ValueError("file changes are not undone in the pool")
        with open(p, "ab") as f:
            f.write(b"more")
        st = os.stat(p)
        os.utime(p, ns=(st.st_atime_ns, st.st_mtime_ns + 10**9))
    else:
        raise ValueError(kind)


def body(kind: str, v, mode: str):
    if mode == "none":
        pass
    elif mode == "mutate":
        touch(kind, v)
    elif mode == "restore":
        touch(kind, v)
        touch(kind, v, undo=True)
    elif mode == "rebind":
        v = copy.deepcopy(v)
        touch(kind, v)
    else:
        raise ValueError(mode)
    return 1


@python.define
def PList(v: list, mode: str) -> int:
    from harness.props.C19 import body

    return body("list", v, mode)


@python.define
def PDict(v: dict, mode: str) -> int:
    from harness.props.C19 import body

    return body("dict", v, mode)


@python.define
def PSet(v: set, mode: str) -> int:
    from harness.props.C19 import body

    return body("set", v, mode)


@python.define
def PObj(v: ty.Any, mode: str, kind: str) -> int:
    from harness.props.C19 import body

    return body(kind, v, mode)


@python.define
def PTwo(a: list, b: list, mode: str, which: str) -> int:
    from harness.props.C19 import body

    if "a" in which:
        body("list", a, mode)
    if "b" in which:
        body("list", b, mode)
    return 1


@python.define
def PTwoHM(a: ty.Any, b: ty.Any, mode: str, which: str) -> int:
    from harness.props.C19 import body

    if "a" in which:
        body("tuple", a, mode)
    if "b" in which:
        body("plain", b, mode)
    return 1


@python.define
def PFile(f: File, mode: str) -> int:
    from harness.props.C19 import body

    return body("file", f, mode)


@python.define(inputs={"f": python.arg(type=File, copy_mode=File.CopyMode.copy), "mode": python.arg(type=str)})
def PFileCopy(f, mode) -> int:
    from harness.props.C19 import body

    return body("file", f, mode)


def shell_task(copy_mode: str):
    return shell.define(
        "sh",
        inputs={
            "script": shell.arg(type=str, argstr="", position=1),
            "f": shell.arg(type=File, argstr="", position=2, copy_mode=getattr(File.CopyMode, copy_mode)),
        },
        name="ShAppend_" + copy_mode,
    )


KINDS = ["list", "dict", "set", "obj", "objlist", "ndarray", "nested", "two", "file", "filecopy", "shell"] + HM_KINDS + ["twohm"]
MODES = ["none", "mutate", "rebind", "restore"]
SHELL_MODES = ["copy", "any", "link", "hardlink"]
FIELD_IDS = {"v": 0, "a": 0, "b": 1, "f": 0, "mode": 7, "kind": 8, "which": 8, "script": 9}


def gen_value(rng, kind):
    ints = [rng.randrange(50) for _ in range(rng.randint(1, 4))]
    if kind == "list":
        return ints
    if kind == "dict":
        return {f"k{i}": x for i, x in enumerate(ints)}
    if kind == "set":
        return sorted(set(ints))  # JSON-able; turned into a set when the task is built
    if kind in ("obj", "objlist"):
        return {"a": ints[0], "items": ints[1:]}
    if kind == "ndarray":
        return ints
    if kind == "nested":
        return [{"k": ints}, {"k": [1]}]
    if kind == "two":
        return [ints, [rng.randrange(50)]]
    if kind in HM_KINDS:
        return {"a": ints[0], "items": ints[1:] + [rng.randrange(50)]}
    if kind == "twohm":
        return [{"a": 0, "items": ints}, {"a": rng.randrange(50), "items": [1]}]
    return "".join(rng.choice("abcdef") for _ in range(rng.randint(1, 12)))  # file content


def gen_wrapped(rng, worker="debug", kind=None, form=None, mode=None) -> dict:
    kind = kind or rng.choice(VALUE_KINDS)
    c = {
        "kind": kind,
        "value": gen_value(rng, kind),
        "mode": mode or rng.choice(MODES + ["mutate"]),
        "worker": worker,
        "form": form or rng.choice(FORMS),
        "raise_errors": rng.choice([None, None, True]) if worker == "cf" else None,
    }
    if c["form"] == "split":
        c["states"] = rng.choice([2, 3])
    return c


def gen_case(rng, worker=None) -> dict:
    if rng.random() < 0.3:
        return gen_wrapped(rng, worker or "debug")
    kind = rng.choice(KINDS)
    c = {"kind": kind, "value": gen_value(rng, kind), "worker": worker or "debug"}
    if kind == "shell":
        c["copy_mode"] = rng.choice(SHELL_MODES)
        c["mode"] = rng.choice(["none", "mutate"])
    else:
        c["mode"] = rng.choice(MODES if kind not in ("file", "filecopy") else ["none", "mutate", "mutate"])
    if kind in ("two", "twohm"):
        c["which"] = rng.choice(["a", "b", "ab"])
    c["raise_errors"] = rng.choice([None, True]) if c["worker"] == "cf" else None
    return c


def build(case, sandbox: Path):
    """-> (task, {field: original object}, file path or None)"""
    import numpy as np

    kind, val, mode = case["kind"], copy.deepcopy(case["value"]), case["mode"]
    if kind == "list":
        return PList(v=val, mode=mode), {"v": val}, None
    if kind == "dict":
        return PDict(v=val, mode=mode), {"v": val}, None
    if kind == "set":
        s = set(val)
        return PSet(v=s, mode=mode), {"v": s}, None
    if kind in ("obj", "objlist"):
        b = Box(val["a"], list(val["items"]))
        return PObj(v=b, mode=mode, kind=kind), {"v": b}, None
    if kind == "ndarray":
        a = np.array(val, dtype="int64")
        return PObj(v=a, mode=mode, kind=kind), {"v": a}, None
    if kind == "nested":
        return PObj(v=val, mode=mode, kind=kind), {"v": val}, None
    if kind == "two":
        return PTwo(a=val[0], b=val[1], mode=mode, which=case["which"]), {"a": val[0], "b": val[1]}, None
    if kind in HM_KINDS:
        v = make_hm(kind, val)
        return PObj(v=v, mode=mode, kind=kind), {"v": v}, None
    if kind == "twohm":
        a, b = make_hm("tuple", val[0]), make_hm("plain", val[1])
        return PTwoHM(a=a, b=b, mode=mode, which=case["which"]), {"a": a, "b": b}, None
    fp = sandbox / "in" / "input.txt"
    fp.parent.mkdir(parents=True, exist_ok=True)
    fp.write_text(val)
    os.utime(fp, ns=(10**18, 10**18))
    if kind == "file":
        return PFile(f=File(fp), mode=mode), {}, fp
    if kind == "filecopy":
        return PFileCopy(f=File(fp), mode=mode), {}, fp
    script = sandbox / "in" / ("append.sh" if mode == "mutate" else "read.sh")
    script.write_text('echo more >> "$1"\ntouch -d 2031-01-01 "$1"\n' if mode == "mutate" else 'cat "$1" > /dev/null\n')
    return shell_task(case["copy_mode"])(script=str(script), f=File(fp)), {}, fp


# ---- wrapped forms: the mutating task as a state of a split task, as a node of a workflow, as a node of a nested
# workflow.  These are the jobs a WORKFLOW dispatches: the submitting process has computed `job.checksum` before the job
# is (under cf) pickled into a worker process, so the check there depends on the reference hashes travelling with it.

VALUE_KINDS = ["list", "dict", "set", "obj", "objlist", "ndarray", "nested"] + HM_KINDS
FORMS = ["split", "node", "nested"]


@python.define
def Make(v: ty.Any) -> ty.Any:
    return v


@python.define
def Down(x: ty.Any) -> int:
    return 1


@workflow.define
def WNode(v: ty.Any, mode: str, kind: str) -> int:
    up = workflow.add(Make(v=v), name="up")  # upstream value
    mut = workflow.add(PObj(v=up.out, mode=mode, kind=kind), name="mut")  # the (possibly) mutating node
    down = workflow.add(Down(x=mut.out), name="down")
    return down.out


@workflow.define
def WOuter(v: ty.Any, mode: str, kind: str) -> int:
    inner = workflow.add(WNode(v=v, mode=mode, kind=kind), name="inner")
    tail = workflow.add(Down(x=inner.out), name="tail")
    return tail.out


def make_value(kind: str, val):
    import numpy as np

    val = copy.deepcopy(val)
    if kind in ("list", "dict", "nested"):
        return val
    if kind == "set":
        return set(val)
    if kind in ("obj", "objlist"):
        return Box(val["a"], list(val["items"]))
    if kind == "ndarray":
        return np.array(val, dtype="int64")
    return make_hm(kind, val)


def variant(kind: str, val, i: int):
    """another value of the same kind (for the other states of a split): differs from `val` and from other i"""
    val = copy.deepcopy(val)
    extra = 1000 + i
    if kind in ("list", "ndarray", "set"):
        return val + [extra]
    if kind == "dict":
        return {**val, f"s{i}": extra}
    if kind == "nested":
        val[0]["k"] = val[0]["k"] + [extra]
        return val
    return {"a": val["a"], "items": list(val["items"]) + [extra]}


def build_wrapped(case):
    """-> (task, {field: original object}, checksum of the mutating job, checksum it would have after the change)"""
    kind, val, mode, form = case["kind"], case["value"], case["mode"], case["form"]
    expected = PObj(v=make_value(kind, val), mode=mode, kind=kind)._checksum
    mutated = None
    if mode == "mutate":
        v2 = make_value(kind, val)
        body(kind, v2, "mutate")
        mutated = PObj(v=v2, mode=mode, kind=kind)._checksum
    v = make_value(kind, val)
    if form == "split":
        other = "none" if mode == "mutate" else mode
        n = case.get("states", 3)
        values = [make_value(kind, variant(kind, val, 0)), v] + ([make_value(kind, variant(kind, val, 2))] if n == 3 else [])
        modes = [other, mode] + ([other] if n == 3 else [])
        task = PObj(kind=kind).split(("v", "mode"), v=values, mode=modes)
    elif form == "node":
        task = WNode(v=v, mode=mode, kind=kind)
    elif form == "nested":
        task = WOuter(v=v, mode=mode, kind=kind)
    else:
        raise ValueError(form)
    return task, {"v": v}, expected, mutated


def impl_wrapped(case, sandbox: Path):
    import cloudpickle as cp

    from pydra.engine.submitter import Submitter
    from pydra.utils.hash import hash_function

    task, originals, expected, mutated = build_wrapped(case)
    before = {k: freeze(v) for k, v in originals.items()}
    hashes = field_hashes(case, sandbox, hash_function)
    root = sandbox / "root"
    cap = _Capture()
    lg = logging.getLogger("pydra.submitter")
    lg.addHandler(cap)
    exc, top = None, None
    kw = {"n_procs": 2} if case["worker"] == "cf" else {}
    try:
        with Submitter(cache_root=root, worker=case["worker"], **kw) as sub:
            res = sub(task, raise_errors=case["raise_errors"])
        top = bool(res.errored)
    except Exception as e:
        exc = e
    finally:
        lg.removeHandler(cap)
    stored = None
    if mutated is not None and (root / mutated).exists():
        where = "other"
    elif (root / expected / "_result.pklz").exists():
        where = "orig"
        with open(root / expected / "_result.pklz", "rb") as f:
            stored = bool(cp.load(f).errored)
    else:
        where = "none"
    changed = None
    if case["worker"] == "debug" and isinstance(exc, RuntimeError) and "hashes have changed" in str(exc):
        changed = sorted(FIELD_IDS[m] for m in re.findall(r"^- (\w+): ", str(exc), re.M))
    obs = {
        "exc": core.exc_tag(exc) if exc else None,
        "logged": cap.n > 0,
        "changed": changed,
        "dir": where,
        "stored_errored": stored,
        "orig_changed": any(freeze(v) != before[k] for k, v in originals.items()),
        "top_errored": top,
    }
    return obs, hashes


def freeze(x):
    import numpy as np

    if isinstance(x, np.ndarray):
        return ["nd", x.tolist()]
    if isinstance(x, Box):
        return ["box", x.a, list(x.items)]
    if isinstance(x, (set, frozenset)):
        return ["set", sorted((freeze(e) for e in x), key=repr)]
    if isinstance(x, (Plain, Slotted, FrozenDC, FrozenAttrs)):
        return [type(x).__name__, x.a, list(x.items)]
    if isinstance(x, functools.partial):
        return ["partial", freeze(list(x.args)), freeze(dict(x.keywords))]
    if isinstance(x, types.MethodType):
        return ["method", x.__func__.__name__, list(x.__self__.items)]
    if isinstance(x, (tuple, list)):
        return [type(x).__name__] + [freeze(e) for e in x]
    if isinstance(x, dict):
        return {k: freeze(v) for k, v in x.items()}
    return copy.deepcopy(x)


class _Capture(logging.Handler):
    def __init__(self):
        super().__init__(level=logging.ERROR)
        self.n = 0

    def emit(self, record):
        self.n += 1


def impl_case(case, sandbox: Path):
    from pydra.engine.submitter import Submitter
    from pydra.utils.hash import hash_function

    if case.get("form"):
        return impl_wrapped(case, sandbox)
    task, originals, fp = build(case, sandbox)
    # the reference identity: checksum of an equal task built independently, before anything runs
    ref_task, _, _ = build(case, sandbox)
    orig_checksum = ref_task._checksum
    before = {k: freeze(v) for k, v in originals.items()}
    file_before = fp.read_bytes() if fp else None
    # hashes of the hashed fields before / after a harness-side replica of the body's effect (model input)
    hashes = field_hashes(case, sandbox, hash_function)
    root = sandbox / "root"
    cap = _Capture()
    lg = logging.getLogger("pydra.submitter")
    lg.addHandler(cap)
    exc = None
    kw = {"n_procs": 2} if case["worker"] == "cf" else {}
    try:
        with Submitter(cache_root=root, worker=case["worker"], **kw) as sub:
            sub(task, raise_errors=case["raise_errors"])
    except Exception as e:
        exc = e
    finally:
        lg.removeHandler(cap)
    dirs = [p for p in root.iterdir() if p.is_dir() and (p / "_result.pklz").exists()]
    stored = None
    if len(dirs) == 1:
        import cloudpickle as cp

        with open(dirs[0] / "_result.pklz", "rb") as f:
            stored = bool(cp.load(f).errored)
    changed = None
    if isinstance(exc, RuntimeError) and "hashes have changed" in str(exc):
        changed = sorted(FIELD_IDS[m] for m in re.findall(r"^- (\w+): ", str(exc), re.M))
    orig_changed = any(freeze(v) != before[k] for k, v in originals.items()) or (fp is not None and fp.read_bytes() != file_before)
    obs = {
        "exc": core.exc_tag(exc) if exc else None,
        "logged": cap.n > 0,
        "changed": changed,
        "dir": ("orig" if dirs[0].name == orig_checksum else "other") if len(dirs) == 1 else f"{len(dirs)} result dirs",
        "stored_errored": stored,
        "orig_changed": orig_changed,
    }
    return obs, hashes


def field_hashes(case, sandbox: Path, hash_function):
    """[(field id, hash before, hash after)] of the value fields, from a replica of the body's effect on a copy"""
    import numpy as np

    kind, mode = case["kind"], case["mode"]
    out = []

    def both(fid, v0, k, touched=True):
        v1 = copy.deepcopy(v0)
        if touched:
            body(k, v1, mode)
        out.append((fid, str(hash_function(v0)), str(hash_function(v1))))

    val = copy.deepcopy(case["value"])
    if kind in ("list", "dict", "nested"):
        both(0, val, kind)
    elif kind == "set":
        both(0, set(val), kind)
    elif kind in ("obj", "objlist"):
        both(0, Box(val["a"], list(val["items"])), kind)
    elif kind == "ndarray":
        both(0, np.array(val, dtype="int64"), kind)
    elif kind == "two":
        both(0, val[0], "list", "a" in case["which"])
        both(1, val[1], "list", "b" in case["which"])
    elif kind in HM_KINDS:
        both(0, make_hm(kind, val), kind)
    elif kind == "twohm":
        both(0, make_hm("tuple", val[0]), "tuple", "a" in case["which"])
        both(1, make_hm("plain", val[1]), "plain", "b" in case["which"])
    else:
        d = sandbox / "replica"
        d.mkdir(parents=True, exist_ok=True)
        p = d / "input.txt"
        p.write_text(val)
        os.utime(p, ns=(10**18, 10**18))
        h0 = str(hash_function(File(p)))
        staged_copy = kind == "shell" and case["copy_mode"] == "copy"
        if mode == "mutate" and not staged_copy:
            body("file", File(p), "mutate")
        out.append((0, h0, str(hash_function(File(p)))))
        shutil.rmtree(d)
    return out


def model_queries(case, hashes):
    ids = {}

    def vid(h):
        return ids.setdefault(h, len(ids) + 1)

    is_file = case["kind"] in ("file", "filecopy", "shell")
    same = case["worker"] == "debug"
    fields = [[fid, vid(h0), vid(h1), bool(same or is_file)] for fid, h0, h1 in hashes]
    if case.get("form"):
        # a job dispatched by a workflow: checksum computed by the dispatcher, pickled into the worker under cf
        return [
            {
                "op": "run_node",
                "fields": fields,
                "hash": [[v, v] for v in ids.values()],
                "memo": True,
                "check": True,
                "raise_errors": bool(case["raise_errors"]) or same,
                "submitted": True,
                "pickled": not same,
                "keep_refs": True,
            }
        ]
    q = [
        {
            "op": "run",
            "fields": fields,
            "hash": [[v, v] for v in ids.values()],
            "memo": True,
            "check": True,
            "raise_errors": bool(case["raise_errors"]) or same,
            "same_job": same,
        }
    ]
    if is_file:
        cm = case.get("copy_mode", "copy" if case["kind"] == "filecopy" else "any")
        q.append({"op": "stage", "uses_staged": case["kind"] == "shell", "mode": "leave" if cm == "any" else cm})
    return q


def model_obs(case, hashes, ans):
    run = ans[0]
    if "error" in run:
        return None
    same = case["worker"] == "debug"
    is_file = case["kind"] in ("file", "filecopy", "shell")
    touched = case["mode"] == "mutate"
    if case.get("form"):
        rep = run["report"]
        exc = "RuntimeError" if rep == "raised" else None
        if exc and not same:
            # `expand_workflow_async` formats the failed node as f"... {job.task!r} ..." while it collects the node errors;
            # if that repr itself raises (Task.__repr__ compares every value with its default: ambiguous for a numpy array
            # of more than one element), that exception is what leaves the workflow job instead of the RuntimeError summary
            exc = node_repr_exc(case) or exc
        return {
            "exc": exc,
            "logged": rep == "logged",
            "changed": run["changed"] if rep == "raised" and same else None,
            "dir": run["dir"],
            "stored_errored": False,
            # only a split under the debug worker hands the caller's own objects to the body; a workflow node gets the
            # value its upstream node stored
            "orig_changed": touched and same and case["form"] == "split",
            "top_errored": {"raised": None, "logged": True, "silent": False}[rep],
        }
    if is_file:
        orig_changed = touched and ans[1]["orig_changed"]
    else:
        orig_changed = same and touched
    return {
        "exc": "RuntimeError" if run["report"] == "raised" else None,
        "logged": run["report"] == "logged",
        "changed": run["changed"] if run["report"] == "raised" else None,
        "dir": run["dir"],
        "stored_errored": False,
        "orig_changed": orig_changed,
    }


def node_repr_exc(case):
    """class name of the exception `repr()` of the mutating job's task raises (None if it does not): part of the error
    path of the asynchronous workflow expansion, evaluated here directly on an equal task"""
    v = make_value(case["kind"], case["value"])
    if case["mode"] == "mutate":
        body(case["kind"], v, "mutate")
    try:
        repr(PObj(v=v, mode=case["mode"], kind=case["kind"]))
    except Exception as e:
        return core.exc_tag(e)
    return None


def is_d60(case) -> bool:
    return case["kind"] == "filecopy" and case["mode"] == "mutate"


def defect_of(case):
    if is_d60(case):
        return "D63"
    return None


def spec_ok_of(case, obs) -> tuple[bool, str]:
    """the property, from the pool definition alone"""
    touched = case["mode"] == "mutate"
    staged_copy = case["kind"] == "shell" and case["copy_mode"] == "copy"
    why = []
    if obs["dir"] != "orig":
        why.append("result not stored under the checksum of the original inputs")
    if touched and not staged_copy and not (obs["exc"] or obs["logged"]):
        why.append("in-place change not reported")
    if obs["exc"] in ("HANG", "CRASH"):
        why.append("submission did not return")
    if case["kind"] in ("filecopy",) or staged_copy:
        if obs["orig_changed"]:
            why.append("copy mode 'copy' but the original file changed")
    return (not why), "; ".join(why)


WATCHDOG_S = float(__import__("os").environ.get("VERIF_WATCHDOG_S", "900"))  # per case; generous: the machine may be heavily loaded
HUNG = {"exc": "HANG", "logged": False, "changed": None, "dir": "none", "stored_errored": None, "orig_changed": None}
HEAVY_KINDS = ["list", "plain", "tuple", "fdc"]  # wrapped forms under cf in the quick tier


def child_case(case: dict, sandbox: Path):
    obs, hashes = impl_case(case, sandbox)
    return {"obs": obs, "hashes": [list(h) for h in hashes]}


def run_cases(ctx, cases):
    impls = []
    for c, r in zip(cases, ChildRunner("harness.props.C19:child_case", ctx.scratch, WATCHDOG_S).run(cases, "c19")):
        if "ok" in r:
            impls.append((r["ok"]["obs"], [tuple(h) for h in r["ok"]["hashes"]]))
        elif "harness_error" in r:
            raise RuntimeError("harness function failed in the child: " + r["harness_error"] + "\n" + r.get("trace", ""))
        else:
            from pydra.utils.hash import hash_function

            sb = ctx.scratch / f"c19-hashes-{len(impls)}"
            sb.mkdir()
            impls.append((dict(HUNG, exc="HANG" if "hang" in r else "CRASH"), field_hashes(c, sb, hash_function)))
    queries, spans = [], []
    for c, (_, hs) in zip(cases, impls):
        q = model_queries(c, hs)
        spans.append((len(queries), len(q)))
        queries += q
    ans = ctx.driver("HashCheck", queries)
    for c, (obs, hs), (i0, n) in zip(cases, impls, spans):
        model = model_obs(c, hs, ans[i0 : i0 + n]) if ans is not None else None
        if ans is not None and model is None:
            ctx.tie_broken.append({"kind": "model-driver", "detail": ans[i0]})
        ok, why = spec_ok_of(c, obs)
        ctx.count(f"kind={c['kind']}")
        ctx.count(f"form={c.get('form', 'single')}/{c['worker']}")
        ctx.count(f"mode={c['mode']}")
        ctx.count(f"worker={c['worker']}")
        ctx.count("reported:" + ("raise" if obs["exc"] else "log" if obs["logged"] else "none"))
        ctx.judge(
            c,
            obs,
            model,
            ok,
            nontrivial=c["mode"] in ("mutate", "restore") or c["worker"] == "cf",
        key=None,
            defect=defect_of(c),
            what=why or "hash check after the body",
        )
    return impls


D63_WITNESS = {"kind": "filecopy", "value": "hello", "mode": "mutate", "worker": "debug", "raise_errors": None}

D70_WITNESS = {"kind": "partial", "value": {"a": 1, "items": [1, 2]}, "mode": "mutate", "worker": "debug", "raise_errors": None}

CORPUS = [
    # jobs dispatched by a workflow under the process-pool worker (checksum computed by the dispatcher, job pickled):
    # a variant whose unpickling dropped the reference hashes let exactly these pass silently
    {"kind": "list", "value": [1, 2], "mode": "mutate", "worker": "cf", "form": "node", "raise_errors": None},
    {"kind": "list", "value": [1, 2], "mode": "mutate", "worker": "cf", "form": "split", "states": 3, "raise_errors": None},
    {"kind": "dict", "value": {"k0": 1}, "mode": "mutate", "worker": "cf", "form": "nested", "raise_errors": True},
    # a node whose task cannot be repr()-ed (multi-element ndarray input): the async expansion's error summary raises
    # ValueError instead of RuntimeError — still an error to the caller (alarm of thorough seed 3)
    {"kind": "ndarray", "value": [34, 16, 24], "mode": "mutate", "worker": "cf", "form": "node", "raise_errors": True},
    {"kind": "list", "value": [1, 2], "mode": "mutate", "worker": "debug", "form": "node", "raise_errors": None},
    {"kind": "plain", "value": {"a": 1, "items": [1]}, "mode": "mutate", "worker": "debug", "form": "split", "states": 2, "raise_errors": None},
    {"kind": "tuple", "value": {"a": 0, "items": [1, 2, 3]}, "mode": "restore", "worker": "debug", "form": "nested", "raise_errors": None},
    # hashable-but-mutable inputs (a post-run check that trusted `Hashable` to mean immutable missed exactly these)
    {"kind": "plain", "value": {"a": 1, "items": [1, 2]}, "mode": "mutate", "worker": "debug", "raise_errors": None},
    {"kind": "tuple", "value": {"a": 0, "items": [1, 2, 3]}, "mode": "mutate", "worker": "debug", "raise_errors": None},
    {"kind": "plain", "value": {"a": 1, "items": [1, 2]}, "mode": "mutate", "worker": "cf", "raise_errors": None},
    {"kind": "tuple", "value": {"a": 0, "items": [1, 2, 3]}, "mode": "mutate", "worker": "cf", "raise_errors": True},
    {"kind": "slotted", "value": {"a": 1, "items": [1]}, "mode": "mutate", "worker": "debug", "raise_errors": None},
    {"kind": "fset", "value": {"a": 1, "items": [1]}, "mode": "mutate", "worker": "debug", "raise_errors": None},
    {"kind": "fdc", "value": {"a": 1, "items": [1]}, "mode": "mutate", "worker": "debug", "raise_errors": None},
    {"kind": "fattrs", "value": {"a": 1, "items": [1]}, "mode": "restore", "worker": "debug", "raise_errors": None},
    {"kind": "twohm", "value": [{"a": 0, "items": [1]}, {"a": 2, "items": [1]}], "mode": "mutate", "which": "b", "worker": "debug", "raise_errors": None},
    {"kind": "bound", "value": {"a": 1, "items": [1, 2]}, "mode": "mutate", "worker": "debug", "raise_errors": None},
    {"kind": "list", "value": [1, 2, 3], "mode": "mutate", "worker": "debug", "raise_errors": None},
    {"kind": "list", "value": [1, 2, 3], "mode": "none", "worker": "debug", "raise_errors": None},
    {"kind": "two", "value": [[1], [2]], "mode": "mutate", "which": "b", "worker": "debug", "raise_errors": None},
    {"kind": "two", "value": [[1], [2]], "mode": "mutate", "which": "ab", "worker": "debug", "raise_errors": None},
    {"kind": "file", "value": "hello", "mode": "mutate", "worker": "debug", "raise_errors": None},
    {"kind": "shell", "value": "hello", "mode": "mutate", "copy_mode": "copy", "worker": "debug", "raise_errors": None},
    {"kind": "shell", "value": "hello", "mode": "mutate", "copy_mode": "any", "worker": "debug", "raise_errors": None},
    {"kind": "shell", "value": "hello", "mode": "mutate", "copy_mode": "hardlink", "worker": "debug", "raise_errors": None},
    {"kind": "list", "value": [1, 2, 3], "mode": "mutate", "worker": "cf", "raise_errors": None},
    {"kind": "file", "value": "hello", "mode": "mutate", "worker": "cf", "raise_errors": None},
]


def correspondence(ctx):
    core.assert_repo_loaded()
    # known finding D63 first (its witness is case 0)
    cases = [D63_WITNESS, D70_WITNESS] + CORPUS
    # every hashable-but-mutable kind is changed in place at least once per run (debug worker; random values)
    for k in HM_KINDS:
        cases.append({"kind": k, "value": gen_value(ctx.rng, k), "mode": "mutate", "worker": "debug", "raise_errors": None})
    # jobs dispatched by a workflow: every value kind changed in place once per run in some wrapped form (debug), every
    # form under cf (where the job runs from a pickled copy whose checksum was computed by the dispatcher)
    for i, k in enumerate(VALUE_KINDS):
        forms = FORMS if not ctx.quick else [FORMS[(i + ctx.seed) % 3]]
        cases += [gen_wrapped(ctx.rng, "debug", kind=k, form=f, mode="mutate") for f in forms]
    cf_kinds = HEAVY_KINDS[: ctx.pick(1, 4)] if ctx.quick else VALUE_KINDS
    for i, k in enumerate(cf_kinds):
        forms = FORMS if not ctx.quick or i == 0 else []
        cases += [gen_wrapped(ctx.rng, "cf", kind=k, form=f, mode="mutate") for f in forms]
    cases.append(gen_wrapped(ctx.rng, "cf", kind="list", form="node", mode="none"))
    cases += [gen_case(ctx.rng, "debug") for _ in range(ctx.pick(40, 600))]
    cases += [gen_case(ctx.rng, "cf") for _ in range(ctx.pick(2, 40))]
    impls = run_cases(ctx, cases)
    obs = impls[0][0]
    if any(f["id"] == "D63" for f in ctx.known()):
        ctx.finding("D63", obs["orig_changed"] is True, f"python task, copy_mode=copy, body appends to its file argument -> {obs}")
    # D70 (fixed: partial / bound-method serializers) — its witness is case 1 and must pass like any other case
    ctx.extra["D70_regression_reported"] = bool(impls[1][0]["exc"] or impls[1][0]["logged"])


def search(ctx):
    run_cases(ctx, [D63_WITNESS, D70_WITNESS] + CORPUS + [gen_case(ctx.rng, "debug") for _ in range(ctx.pick(200, 1500))])


def replay(ctx, rec):
    run_cases(ctx, [rec["case"]])
