"""C17 — Workflow results do not depend on worker or schedule (DESIGN §6 C17, engine Sched §5.5)."""

from __future__ import annotations

import json

from harness import core
from harness.engines import sched

META = {
    "engine": "Sched",
    "category": "proof",
    "design_ref": "§6 C17, §5.5",
    "technique": "Lean 4 determinism theorem from the scheduling invariant (job lists are a function of upstream values) + "
    "differential runs under debug, controlled and unmodified process-pool workers",
    "text": "Lean theorems for every acyclic workflow graph whose job lists are built at start() from the values of the predecessor "
    "nodes' jobs (Wf.mkJobs) with pure bodies (Wf.body, value = function of the checksum): under every schedule and limit a "
    "started node gets exactly the jobs of the unique solution of the dataflow equations (jobs_are_reference, an invariant of "
    "the tables), hence every successful submission returns the reference outputs — asynchronous loop with any fault-free "
    "schedule and any max_concurrent (C17_async), synchronous debug loop (C17_sync) — and any two successful runs agree "
    "(C17_determinism).  The synchronous loop always ends: with max_concurrent != 0 it performs at most 2*(jobs) + 2*(nodes) + 3 "
    "iterations, jobs = number of jobs of the reference solution (sync_log_bound, C17_sync_terminates), so the fuel of the model's runSync is no caveat.  With rerun=True under the debug worker without a limit a successful "
    "submission returns the reference outputs of THIS submission's body values whatever the cache held before "
    "(C17_rerun_sync_unlimited); with a limit or an asynchronous worker old and new values can mix (finding D73, C15).  Job lists may be empty (a split over an empty list, literal or produced upstream at run time): the "
    "theorems rest on 'every node is done', and C17_empty_split_regression / C17_while_tasks_witness show by computation that both "
    "loops go on after a zero-job node while a loop that only looks at runnable tasks stops early with different outputs.  Tied "
    "to the code by running generated workflows (splits, inherited splits, duplicate checksums, diamonds, EMPTY splits given "
    "literally or emitted by an upstream node, feeding further nodes alone and next to other work) under the debug worker, the controlled worker with several seeded schedules and k in {1, 2, n}, and the "
    "unmodified cf worker with 1-8 processes, comparing all outputs with each other and with a scheduler-free evaluation of the dataflow.",
    "note": "Trusted: Lean kernel; hand-written model (Sched/Model.lean); purity of bodies and content-addressing of jobs are "
    "hypotheses of the theorem (C06-C08 are about the hash); pickling to worker processes is C29's subject.",
    "rule": "case = (workflow graph, worker configuration / recorded schedule); distinct by canonical JSON; non-trivial = >= 3 jobs "
    "and a configuration other than the debug worker",
    "assumptions": ["task bodies are pure functions of their inputs", "no job fails (the property is about results)"],
    "trusted": ["model of the scheduling loop written by hand (Sched/Model.lean)"],
}

_NS = "PydraModel.Sched."
OBLIGATIONS = [
    _NS + n
    for n in ("jobs_are_reference", "C17_async", "C17_sync", "C17_determinism", "refDyn_ok", "refEmpty_ok",
              "C17_empty_split_regression", "C17_while_tasks_witness", "sync_log_bound", "C17_sync_terminates",
              "C17_rerun_sync_unlimited")
]
LEAN_TARGETS = ["PydraModel.Props.C17"]
MODEL_TARGETS = ["PydraModel.Sched.Model", "PydraModel.DriverUtil"]


def _tags(v):
    """tags of the job values in a (possibly nested) list of outputs; a job value is ["J", tag, deps]"""
    if isinstance(v, list) and len(v) == 3 and v[0] == "J" and isinstance(v[1], str):
        return [v[1]]
    if isinstance(v, list):
        return [t for x in v for t in _tags(x)]
    return [repr(v)]


def norm(v):
    """job values with every grouping level removed (how a combined / inherited split nests its values is the state
    algebra's business, C02/C03; C17 is about the values being the same under every worker and schedule)"""
    if isinstance(v, list) and len(v) == 3 and v[0] == "J" and isinstance(v[1], str):
        return ["J", v[1], [norm(d) for d in v[2]]]
    if isinstance(v, list):
        out = []
        for x in v:
            n = norm(x)
            if isinstance(x, list) and not (len(x) == 3 and x[0] == "J" and isinstance(x[1], str)):
                out.extend(n)
            else:
                out.append(n)
        return out
    return v


def out_tags(outputs, case):
    """per node: the tags of the jobs whose values make up the node's output"""
    res = {}
    for nd in case["nodes"]:
        v = outputs.get(nd["name"]) if outputs else None
        if v is None:
            res[nd["name"]] = None
        elif nd.get("emit") is not None:  # a lister's single job returns a plain list of numbers
            res[nd["name"]] = [nd["name"]] if v == list(range(nd["emit"])) else [repr(v)]
        else:
            res[nd["name"]] = _tags(v)
    return res


def configs(rng, case, n_sched, cf_procs):
    """the runs of one workflow: debug worker, controlled schedules, unmodified cf worker"""
    nj = sched.njobs(case)
    runs = [dict(case, worker="debug", k=None), dict(case, worker="debug", k=rng.choice([1, 2]))]
    for i in range(n_sched):
        k = [1, 2, None][i % 3] if i < 3 else rng.choice([1, 2, 3, None])
        runs.append(dict(case, k=k, fail=[], policy={"seed": rng.randrange(10**6), "style": rng.choice(["random", "random", "lazy", "greedy"])}))
    for p in cf_procs:
        runs.append(dict(case, worker="cf", n_procs=p, k=rng.choice([None, None, 1, 2, nj])))
    return runs


def judge_workflows(ctx, graphs, n_sched, cf_procs):
    all_runs, owner = [], []
    for gi, g in enumerate(graphs):
        g = dict(g, fail=[])
        for r in configs(ctx.rng, g, n_sched, cf_procs):
            all_runs.append(r)
            owner.append(gi)
    obs = sched.run_cases_parallel(all_runs, ctx.scratch, ctx.pick(4, 6))
    qs, qi = [], {}
    for i, (r, o) in enumerate(zip(all_runs, obs)):
        if o.get("outcome") in ("HARNESS-EXCEPTION", "CHILD-DIED"):
            raise core.Infra("sched device failed: " + json.dumps(o)[-600:])
        if not r.get("worker"):
            qi[i] = len(qs)
            qs.append(sched.model_query(r, o.get("schedule") or []))
        elif r["worker"] == "debug":
            mc = sched.model_case(r)
            qi[i] = len(qs)
            qs.append({"op": "sync", "nodes": mc["nodes"], "edges": mc["edges"], "jobs": mc["jobs"], "k": mc["k"], "fail": []})
    ans = ctx.driver("Sched", qs)
    for i, (r, o) in enumerate(zip(all_runs, obs)):
        g = graphs[owner[i]]
        ref = {k: norm(sched.canon(v)) for k, v in sched.reference_outputs(g).items()}
        base = next((ob.get("outputs") for rr, ob, gi in zip(all_runs, obs, owner) if gi == owner[i] and rr.get("worker") == "debug"), None)
        conf = r.get("worker") or "verif"
        if conf == "cf":
            conf = f"cf{r['n_procs']}"
        impl = {"outcome": "success" if o.get("outcome") == "ok" else o.get("outcome"), "outputs": out_tags(o.get("outputs"), g)}
        model = None
        if ans is not None and i in qi and "outputs" in ans[qi[i]]:
            a = ans[qi[i]]
            mc = sched.model_case(g)
            tag = {v: k for k, v in mc["cks"].items()}
            ok_model = a.get("outcome") == "success"
            model = {"outcome": a.get("outcome") if "status" not in a or a.get("status") == "done" else "MODEL-" + str(a.get("status")),
                     "outputs": {n: [tag[c] for c in cks] for n, cks in zip(mc["names"], a["outputs"])} if ok_model else None}
        # the property: the same outputs as under the debug worker (exactly), and the values the dataflow prescribes
        got = o.get("outputs")
        spec_ok = (o.get("outcome") == "ok" and got is not None and got == base
                   and {k: norm(v) for k, v in got.items()} == ref)
        ctx.count("conf:" + conf)
        ctx.count(f"jobs={sched.njobs(g)}")
        rec = dict(r)
        rec["script"] = o.get("schedule") if not r.get("worker") else None
        ctx.judge(rec, impl, model, spec_ok, nontrivial=sched.njobs(g) >= 3 and conf != "debug",
                  key=json.dumps([g["nodes"], g.get("keep_state"), conf, r.get("k"), o.get("schedule")], sort_keys=True),
                  what=f"outputs under {conf}" + ("" if spec_ok else f": {json.dumps(o.get('outputs'))[:300]} vs reference {json.dumps(ref)[:300]}"))


# witnesses of repaired findings and hand-made schedules: corpus/sched/C17.jsonl
CORPUS = sched.load_corpus("C17")


def correspondence(ctx):
    core.assert_repo_loaded()
    n_sched = ctx.pick(2, 6)
    cf = ctx.pick([2], [1, 2, 8])
    graphs = [dict(c) for c in CORPUS] + [sched.gen_graph(ctx.rng) for _ in range(ctx.pick(2, 14))]
    judge_workflows(ctx, graphs, n_sched, cf)


def search(ctx):
    graphs = [sched.gen_graph(ctx.rng) for _ in range(ctx.pick(10, 60))]
    judge_workflows(ctx, graphs, 4, [2])


def replay(ctx, rec):
    c = rec["case"]
    g = {k: c[k] for k in ("nodes", "keep_state") if k in c}
    obs = sched.run_cases([c], ctx.scratch)[0]
    ref = {k: norm(sched.canon(v)) for k, v in sched.reference_outputs(g).items()}
    got = obs.get("outputs")
    ctx.judge(c, {"outcome": obs.get("outcome"), "outputs": out_tags(got, g)}, None,
              obs.get("outcome") == "ok" and got is not None and {k: norm(v) for k, v in got.items()} == ref, what="C17 replay")
