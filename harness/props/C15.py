"""C15 — Jobs start only after the jobs they consume have succeeded; exactly-once dispatch (DESIGN §6 C15, engine Sched §5.5)."""

from __future__ import annotations

import json

from harness import core
from harness.engines import sched

META = {
    "engine": "Sched",
    "category": "proof",
    "design_ref": "§6 C15, §5.5, D73",
    "technique": "Lean 4 invariant proof by induction over rounds of the scheduling loop for all schedules + controlled-worker differential correspondence",
    "text": "Lean theorems for every sortable workflow graph, any number of nodes and jobs per node (job lists built at start() "
    "from upstream values, shared checksums allowed), every max_concurrent, every schedule of environment moves (body starts, "
    "finishes, fails, future completes, job lost) and every instant: whatever has happened to a job on disk, the job belongs to a "
    "node all of whose predecessor nodes have only successful jobs (C15_precedence, C15_start_enabled); the dispatch log lists every "
    "job after all jobs of its predecessor nodes (C15_dispatch_order) and has no duplicates (C15_at_most_once); a body starts at most "
    "once (C15_body_starts_once); the same for the synchronous loop of the debug worker with any set of failing bodies (C15_sync), "
    "which always ends (C17_sync_terminates); C15_precedence_interleaved is C15_precedence for the finer semantics in which bodies start, "
    "finish and fail before every node.done / p.done read of a poll.  Documentation witnesses: the synchronous loop hands out the jobs beyond "
    "max_concurrent on the next poll (C15_sync_hands_out_cut_jobs), a get_runnable_tasks that returned only newly runnable jobs would "
    "lose them and spin forever (C15_new_only_loses_jobs).  PRE-EXISTING RESULTS (Sched/Rerun.lean: the cache_root may hold "
    "successful or errored results at submission, readonly caches, the rerun flag with Job.run's semantics, job.done answered "
    "from the disk, old and new values distinguished): without rerun over a cache of successful results the precedence "
    "statement holds in full and cached jobs are never executed (C15_precedence_cached); with rerun=True it holds in the form "
    "'a body starts only after the bodies of all jobs of all predecessor nodes have ended IN THIS SUBMISSION', together with "
    "'every job is re-executed and every output is a value of this submission', for the synchronous loop without a "
    "max_concurrent limit (C15_rerun_sync_unlimited) - and NOT otherwise: known finding D73 (a queued job's pre-existing "
    "result is taken as its outcome), computed for the model as C15_rerun_cut_job_keeps_old_result, "
    "C15_errored_result_not_retried, C15_rerun_stale_read_race, C15_rerun_readonly_stale_read, C15_rerun_lost_input and replayed on the real code.  "
    "Two-pass cases (first submission, then a second one with rerun / after failures / over a readonly cache; bodies stamp an "
    "externally stored generation into their values) are judged by an independent oracle on the body log and the outputs "
    "(which bodies run, start order against the ends of this submission, generation of every value). "
    "The model is tied to pydra/engine/submitter.py by running generated workflows under a controlled subclass of the "
    "ConcurrentFuturesWorker (real process pool, real lock files) while an in-loop controller plays seeded adversarial "
    "schedules, and comparing per loop iteration the runnable tasks, the dispatches, the pending futures and the NodeExecution "
    "tables with the Lean model replaying the recorded schedule; the debug worker's execution order is compared with runSync.",
    "note": "Trusted: Lean kernel; hand-written model of Submitter/NodeExecution (Sched/Model.lean; Sched/Interleaved.lean for moves inside a poll): one update_status call is atomic w.r.t. "
    "environment moves, dependence is at node granularity as in the code's live branch; "
    "the observer subclass of Submitter only logs; nested workflows are not modelled; in the model of pre-existing results "
    "(Sched/Rerun.lean) polls are atomic and the deletion of an old result coincides with the start of the body "
    "(_populate_filesystem runs right after the lock is taken).",
    "rule": "case = (workflow graph of 2-6 nodes with splits / inherited splits / duplicate checksums, fail set, max_concurrent, recorded "
    "schedule); distinct by canonical JSON; non-trivial = >= 3 jobs and a schedule policy other than FIFO completion",
    "assumptions": [
        "one NodeExecution.update_status call is atomic with respect to changes on disk (bodies may start, finish and fail before every node.done / p.done read of a poll: *_interleaved theorems); futures are reported complete between polls",
        "asyncio.wait(FIRST_COMPLETED) returns exactly the futures that are done; the process pool runs each submitted job once",
    ],
    "trusted": ["model of Submitter.expand_workflow(_async)/get_runnable_tasks and NodeExecution written by hand (Sched/Model.lean)"],
}

_NS = "PydraModel.Sched."
OBLIGATIONS = [
    _NS + n
    for n in (
        "C15_precedence",
        "C15_start_enabled",
        "C15_dispatch_order",
        "C15_at_most_once",
        "C15_body_starts_once",
        "C15_later_moves",
        "C15_later_round",
        "C15_sorted_is_topological",
        "C15_sync",
        "C15_precedence_interleaved",
        "C15_sync_hands_out_cut_jobs",
        "C15_new_only_loses_jobs",
        "C15_precedence_cached",
        "C15_rerun_sync_unlimited",
        "C15_rerun_cut_job_keeps_old_result",
        "C15_errored_result_not_retried",
        "C15_rerun_stale_read_race",
        "C15_rerun_readonly_stale_read",
        "C15_rerun_lost_input",
    )
]
LEAN_TARGETS = ["PydraModel.Props.C15"]
MODEL_TARGETS = ["PydraModel.Sched.Model", "PydraModel.Sched.Rerun", "PydraModel.DriverUtil"]


def spec(case, obs):
    """the property on the implementation's own event log"""
    if obs.get("outcome") in ("HANG", "DEVICE-TIMEOUT", "LIVELOCK"):
        return False, f"submission did not end: {obs.get('outcome')} {obs.get('msg', '')[:200]}"
    fail = set(case.get("fail") or [])
    ok, why = sched.precedence_ok(case, obs.get("bodylog") or [], fail)
    if not ok:
        return False, why
    if obs["outcome"] == "ok":
        # every job of the workflow was executed exactly once (`precedence_ok` rejects a second start)
        missing = [t for t in sched.all_tags(case) if t not in (obs.get("executed") or [])]
        if missing:
            return False, f"success but never executed: {missing}"
        if any(v != "ok" for v in (obs.get("cache") or {}).values()) or set(obs.get("cache") or {}) != set(sched.all_tags(case)):
            return False, "success but the cache does not hold one successful result per job"
    return True, ""


def gen_cases(rng, n):
    cases = []
    for _ in range(n):
        c = sched.gen_graph(rng)
        tags = sched.all_tags(c)
        c["k"] = rng.choice([None, None, 1, 2, 2, 3])
        c["fail"] = [t for t in tags if rng.random() < 0.08]
        c["policy"] = {"seed": rng.randrange(10**6), "style": rng.choice(["random", "random", "random", "lazy", "greedy", "fifo"])}
        cases.append(c)
    return cases


# witnesses of repaired findings and hand-made schedules: corpus/sched/C15.jsonl
CORPUS = sched.load_corpus("C15")


def sync_cases(rng, n):
    cases = []
    for _ in range(n):
        c = sched.gen_graph(rng)
        tags = sched.all_tags(c)
        c["k"] = rng.choice([None, 1, 2, 3])
        c["fail"] = [t for t in tags if rng.random() < 0.1]
        c.update({"worker": "debug", "log": True})
        cases.append(c)
    return cases


def judge_sync(ctx, cases):
    """debug worker: order in which bodies ran, and which body (if any) ended the submission"""
    obs = sched.run_cases_parallel(cases, ctx.scratch, ctx.pick(4, 6))
    qs = []
    for c in cases:
        mc = sched.model_case(c)
        qs.append({"op": "sync", "nodes": mc["nodes"], "edges": mc["edges"], "jobs": mc["jobs"], "k": mc["k"],
                   "fail": [mc["cks"][t] for t in c["fail"]]})
    ans = ctx.driver("Sched", qs)
    for i, (c, o) in enumerate(zip(cases, obs)):
        if o.get("outcome") in ("HARNESS-EXCEPTION", "CHILD-DIED"):
            raise core.Infra("sched device failed: " + json.dumps(o)[-600:])
        log = o.get("bodylog") or []
        ran = [e.split()[1] for e in log if e.startswith("E ") and e.split()[1] not in c["fail"]]
        impl = {"outcome": "success" if o["outcome"] == "ok" else ("raised" if o.get("raised") else o["outcome"]),
                "raised": o.get("raised"), "ran": ran}
        model = None
        if ans is not None and "ran" in ans[i]:
            tag = {v: k for k, v in sched.model_case(c)["cks"].items()}
            model = {"outcome": ans[i]["outcome"], "raised": tag.get(ans[i].get("raised")), "ran": [tag[x] for x in ans[i]["ran"]]}
        ok, why = sched.precedence_ok(c, log, set(c["fail"]))
        if ok and o["outcome"] == "ok" and sorted(ran) != sorted(sched.all_tags(c)):
            ok, why = False, "success but not every job ran exactly once"
        ctx.count("sync:" + impl["outcome"])
        ctx.judge(c, impl, model, ok, nontrivial=sched.njobs(c) >= 3, key="sync:" + json.dumps(c, sort_keys=True),
                  what="debug worker execution order" + (": " + why if why else ""))


def _n(name, preds=(), **kw):
    return {"name": name, "preds": list(preds), **kw}


def two_cases(rng, n):
    """submissions over pre-existing results under the controlled worker.  Chains come first: there the scheduler hands out
    one job at a time, so that neither `max_concurrent` nor a second future can expose a stale result (finding D73) and the
    verdict must be clean on every tree"""
    cases = []
    names = "abcde"
    for i in range(n):
        if i % 3 == 0:
            m = rng.randint(3, 4)
            shape = {"nodes": [_n(names[j], [names[j - 1]] if j else []) for j in range(m)], "keep_state": []}
            c = sched.gen_two(rng, shape=shape)
            c["fail"] = []
        else:
            c = sched.gen_two(rng)
        cases.append(c)
    return cases


def sync_two_cases(rng, n):
    """the same under the unmodified debug worker (deterministic: compared with the synchronous loop of the model) and,
    for chains of single jobs (one future at a time: deterministic as well), under the unmodified cf worker"""
    cases = []
    names = "abcde"
    for i in range(n):
        if i % 2 == 0:
            c = sched.gen_two(rng)
            c.update({"worker": "debug", "fail": []})
        else:
            m = rng.randint(2, 4)
            c = sched.gen_two(rng, shape={"nodes": [_n(names[j], [names[j - 1]] if j else []) for j in range(m)], "keep_state": []})
            c.update({"worker": "cf", "n_procs": rng.choice([1, 2, 3]), "fail": []})
        c.pop("policy", None)
        cases.append(c)
    return cases


def judge_sync_two(ctx, cases):
    obs = sched.run_cases_parallel(cases, ctx.scratch, ctx.pick(4, 6))
    ans = ctx.driver("Sched", [sched.model_query_two(c, None) for c in cases])
    for i, (c, o) in enumerate(zip(cases, obs)):
        if o.get("outcome") in ("HARNESS-EXCEPTION", "CHILD-DIED"):
            raise core.Infra("sched device failed: " + json.dumps(o)[-600:])
        log = o.get("bodylog") or []
        oc = "success" if o["outcome"] == "ok" else (o.get("kind") or o["outcome"])
        impl = {"outcome": oc, "ran": [e.split()[1] for e in log if e.startswith("S ")], "gens": sched.impl_gens(c, o.get("outputs"))}
        model = None
        if c["worker"] == "debug" and ans is not None and "began" in ans[i]:
            names = [nd["name"] for nd in c["nodes"]]
            jobs = sched.node_jobs(c)
            model = {"outcome": ans[i]["outcome"], "ran": [jobs[names[n]][j] for n, j in ans[i]["began"]], "gens": sched.model_gens(c, ans[i])}
        ok, why = sched.two_oracle(c, o)
        ctx.count(f"two-pass {c['worker']}:" + oc)
        ctx.judge(c, impl, model, ok, nontrivial=sched.njobs(c) >= 3, key="sync2:" + json.dumps(c, sort_keys=True),
                  defect=sched.d71(c, o), what=f"{c['worker']} worker over pre-existing results" + (": " + why if why else ""))


_C = sched.load_corpus("C15")
D71_WITNESSES = [c for c in _C if c.get("witness_of") == "D73"]


def correspondence(ctx):
    core.assert_repo_loaded()
    # witnesses of the known finding D73 first, then the corpus, then generated cases (one batch: one set of child
    # interpreters, one model-driver run)
    nw = len(D71_WITNESSES)
    res = sched.explore(ctx, [dict(c) for c in D71_WITNESSES] + [dict(c) for c in CORPUS if c.get("witness_of") != "D73"]
                        + gen_cases(ctx.rng, ctx.pick(8, 100)) + two_cases(ctx.rng, ctx.pick(5, 45)),
                        spec, "C15 precedence / exactly once", defect=sched.d71)
    if any(f["id"] == "D73" for f in ctx.known()):
        still = [v for (_, _, _, _, v) in res[:nw]]
        ctx.finding("D73", nw > 0 and all(v == "known" for v in still),
                    "; ".join(f"{c.get('note', '')}: {sched.two_oracle(c, o)[1][:140]}" for (c, o, _, _, _) in res[:nw]))
    judge_sync(ctx, sync_cases(ctx.rng, ctx.pick(5, 60)))
    judge_sync_two(ctx, sync_two_cases(ctx.rng, ctx.pick(4, 30)))


def search(ctx):
    sched.explore(ctx, gen_cases(ctx.rng, ctx.pick(35, 260)) + two_cases(ctx.rng, ctx.pick(12, 80)), spec, "C15 search", defect=sched.d71)
    judge_sync(ctx, sync_cases(ctx.rng, ctx.pick(16, 130)))
    judge_sync_two(ctx, sync_two_cases(ctx.rng, ctx.pick(8, 50)))


def replay(ctx, rec):
    c = rec["case"]
    if c.get("worker") and c.get("two"):
        judge_sync_two(ctx, [c])
    elif c.get("worker"):
        judge_sync(ctx, [c])
    else:
        sched.explore(ctx, [c], spec, "C15 replay", defect=sched.d71)
