"""C33 — Workflow output files are collected without clashes or loss (DESIGN §6 C33, engine Files §5.9).

Implementation under test: `copyfile_workflow` (pydra/engine/result.py), `copy_nested_files` and
`TypeParser.apply_to_instances` (pydra/utils/typing.py).

Two routes to the real code:
  direct   `copyfile_workflow(wf_dir, outputs)` on a real `workflow.Outputs` object holding nested values of File /
           TextFile / Directory / SetOf[File] objects from several directories, mount table patched, `FileSet.copy` wrapped
           by a recorder;  model = Lean `copyfileWorkflow` with the *recorded* primitive (must issue the same calls).
  public   a workflow (three writer nodes + a packing node) run by the debug worker, no instrumentation;
           model = Lean `copyfileWorkflow` with the counter-suffix reference primitive.
"""

from __future__ import annotations

import json
import os
from pathlib import Path

from harness import core
from harness.engines import files as F

META = {
    "engine": "Files",
    "category": "proof",
    "design_ref": "§6 C33, §5.9",
    "technique": "Lean 4 theorems over a state-passing model of copyfile_workflow / copy_nested_files / apply_to_instances "
    "(nested values and field lists of any size; FileSet.copy is a parameter with an explicit contract) + differential "
    "correspondence on real files, incl. replay of the recorded primitive calls through the model",
    "text": "Lean theorems, for nested output values and Outputs objects of any size, given the stated contract of "
    "fileformats' FileSet.copy: the collected value of every field is the plain tree map of the original (same shape, "
    "same non-file leaves; C33_shape, C33_tree_map); over the whole Outputs object the copies have pairwise disjoint "
    "destinations, all inside the workflow directory, made by hard link or copy, with the source's content "
    "(C33_injective, C33_leaf_injective, C33_no_loss); this rests on ONE clash set being handed from field to field, which "
    "ends up holding exactly the created destinations (C33_shared_clash_set).  The field loop takes names and values only, never a declared type (C33_no_type_dependence; "
    "C33_witness_skipped_field shows a skipped field keeps its files in the node directory).  The contract is instantiated by a concrete "
    "counter-suffix primitive (copyOneRef_contract).  Tie to pydra: copyfile_workflow is run on real files (nested "
    "lists/dicts/tuples, colliding names from several directories, directories, multi-file sets, patched mount table) and "
    "through real workflows with the debug worker; results, destinations, link kinds, and the sequence of FileSet.copy "
    "calls are compared with the model; every real FileSet.copy call is checked against the contract.",
    "note": "Trusted: Lean kernel; hand-written model of copyfile_workflow/copy_nested_files/apply_to_instances; the "
    "contract of fileformats.FileSet.copy (assumed, sampled on every run, not proved); generator reach.  What pydra owns "
    "here is small (traversal, memo, threading one set); how files are named and copied is fileformats'.",
    "rule": "case = (file-sets on disk, Python objects, per output field: DECLARED type (untyped, Any, object, list, dict, "
    "tuple, List[Any], dict[str,Any], Tuple[Any,...], File, list[File], dict[str,File], File|None) and a conforming nested "
    "value, mount table); the oracle ignores the declared type; distinct by canonical "
    "JSON; non-trivial = at least two file leaves and (two different file-sets with the same name in different "
    "directories, or a repeated object, or nesting depth >= 2)",
    "assumptions": [
        "FileSet.copy contract (Files/Lemmas.lean `Contract`): destination not in the clash set, not existing, inside dest_dir, "
        "added to the set; content and class preserved; operation among mode & supported_modes; 'leave' returns the same object",
        "output values are nested lists / tuples / dicts (files inside sets or custom objects are not reached by apply_to_instances)",
        "the workflow directory holds nothing but pydra's own files when outputs are collected",
    ],
    "trusted": [
        "model of copyfile_workflow / copy_nested_files / apply_to_instances written by hand (Files/Model.lean)",
        "contract of fileformats.FileSet.copy: a hypothesis of every C33 theorem, sampled against fileformats 0.18.2 on every run",
    ],
}

_NS = "PydraModel.Files."
OBLIGATIONS = [
    _NS + n
    for n in (
        "C33_shape",
        "C33_tree_map",
        "C33_injective",
        "C33_leaf_injective",
        "C33_shared_clash_set",
        "C33_no_loss",
        "C33_progress_ref",
        "C33_no_type_dependence",
        "C33_witness_skipped_field",
        "wf_sel",
        "copyOneRef_contract",
        "traverse_err",
        "traverse_spec",
        "collectLoop_spec",
    )
]
LEAN_TARGETS = ["PydraModel.Props.C33", "Drivers.Files"]
MODEL_TARGETS = ["PydraModel.Files.Model", "PydraModel.DriverUtil", "Drivers.Files"]

CORPUS = core.VERIF / "corpus" / "files"


# --------------------------------------------------------------------------------------
# generation


def declared_field(rng, name: str, sets: list, objs: list, depth: int, allow_file_keys: bool) -> dict:
    """A field with a DECLARED type (an aspect the behaviour must not depend on) and a value that conforms to it."""
    file_objs = [i for i, si in enumerate(objs) if sets[si]["cls"] in ("File", "TextFile")]
    decl = rng.choice(F.DECL_LABELS)
    v = F.gen_declared_value(rng, decl, len(objs), file_objs, depth, allow_file_keys)
    if v is None:
        decl = rng.choice(["list", "dict", "tuple", "object"])
        v = F.gen_declared_value(rng, decl, len(objs), file_objs, max(depth, 1), allow_file_keys)
    return {"name": name, "value": v, "decl": decl}


def gen_direct(rng) -> dict:
    while True:
        c = _gen_direct(rng)
        if not F.file_key_clash(c):
            return c


def _gen_direct(rng) -> dict:
    use_mounts = rng.random() < 0.4
    while True:
        sets = F.gen_sets(rng, simple=False, use_mounts=use_mounts)
        if sets:
            break
    objs = list(range(len(sets)))
    for _ in range(rng.choice([0, 0, 1, 2])):  # equal but distinct objects
        objs.append(rng.randrange(len(sets)))
    nf = rng.choice([1, 2, 2, 3, 3, 4])
    fields = [declared_field(rng, f"o{i}", sets, objs, rng.choice([0, 1, 2, 3]), True) for i in range(nf)]
    case = {
        "op": "collect",
        "via": "direct",
        "sets": sets,
        "objs": objs,
        "fields": fields,
        "table": F.gen_table(rng) if use_mounts else [],
        "dest": rng.choice(["wf", "mA/wf", "mB/wf", "mA2/wf"]) if use_mounts else "wf",
    }
    return case


def gen_clash(rng) -> dict:
    """Two or three DIFFERENT files with the same name from different directories inside one field's nested value, and
    once more in a second field."""
    name = rng.choice(["out.txt", "res", "data.nii.gz", "a b.txt", "x.", ".hidden", "out (1).txt"])
    k = rng.choice([2, 3])
    sets = [{"cls": "File", "paths": [f"n{i + 1}/{name}"]} for i in range(k)]
    if rng.random() < 0.5:
        sets.append({"cls": "Directory", "paths": [f"n1/{rng.choice(F.DIR_NAMES)}x"]})
    leaves = [{"o": i} for i in range(len(sets))] + [{"o": 0}, {"a": rng.choice(F.ATOMS)}]
    rng.shuffle(leaves)
    shape = rng.choice(["l", "t", "d", "nested"])
    if shape == "d":
        v = {"d": [[{"a": f"k{i}"}, c] for i, c in enumerate(leaves)]}
    elif shape == "nested":
        v = {"l": [leaves[0], {"t": leaves[1:3]}, {"d": [[{"a": "k"}, {"l": leaves[3:]}]]}]}
    else:
        v = {shape: leaves}
    d0 = {"l": ["list", "List[Any]"], "t": ["tuple", "Tuple[Any,...]"], "d": ["dict", "dict[str,Any]"], "nested": ["list", "List[Any]"]}[shape]
    fields = [{"name": "o0", "value": v, "decl": rng.choice(d0 + ["Any", "untyped", "object"])},
              {"name": "o1", "value": {"t": [{"o": 1}, {"o": 0}]}, "decl": rng.choice(["tuple", "Tuple[Any,...]", "object", "untyped"])}]
    return {"op": "collect", "via": "direct", "sets": sets, "objs": list(range(len(sets))), "fields": fields, "table": [],
            "dest": "wf"}  # fmt: skip


def gen_public(rng) -> dict:
    """Three writer nodes; node k writes sets into its own directory '@k'."""
    per_node = [[], [], []]
    sets = []
    for k in range(3):
        used = set()
        for _ in range(rng.choice([0, 1, 1, 2, 2])):
            kind = rng.choices(["File", "TextFile", "Directory", "SetOf"], [6, 1, 2, 1])[0]
            if kind == "File":
                names = [rng.choice(F.FILE_NAMES)]
            elif kind == "TextFile":
                names = [rng.choice(["out.txt", "notes.txt"])]
            elif kind == "Directory":
                names = [rng.choice(F.DIR_NAMES)]
            else:
                names = list(rng.choice([("p.txt", "q.dat"), ("out.txt", "side.json")]))
            if any(n in used for n in names):
                continue
            used.update(names)
            per_node[k].append({"cls": kind, "names": names})
            sets.append({"cls": kind, "paths": [f"@{k}/{n}" for n in names], "node": k, "idx": len(per_node[k]) - 1})
    if not sets:
        per_node[0].append({"cls": "File", "names": ["out.txt"]})
        sets.append({"cls": "File", "paths": ["@0/out.txt"], "node": 0, "idx": 0})
    fields = [declared_field(rng, f"o{i}", sets, list(range(len(sets))), rng.choice([0, 1, 2]), False) for i in range(3)]
    return {"op": "collect", "via": "public", "sets": sets, "objs": list(range(len(sets))), "fields": fields, "table": [],
            "dest": "@wf", "per_node": per_node}  # fmt: skip


# --------------------------------------------------------------------------------------
# implementation runs


def expected_contents(case: dict, si: int) -> list:
    """What is on disk in file-set `si` (the generator decides contents), as the oracle's reference."""
    s = case["sets"][si]
    out = []
    for r in s.get("sym", s["paths"]):  # public route: contents were written under the symbolic node name
        if s["cls"] == "Directory":
            out.append({"dir": {"inner.txt": f"content:{r}/inner.txt", "sub/deep.dat": f"content:{r}/sub/deep.dat"}})
        else:
            out.append(f"content:{r}")
    return sorted(json.dumps(c, sort_keys=True) for c in out)


def oracle(case: dict, root: Path, dest: Path, err, values: list | None, src_objs: list) -> tuple[bool, str]:
    """The property, decided on the implementation's behaviour without reference to the model."""
    if err is not None:
        return False, f"raised {err}"
    pairs_all = []
    for f, v in zip(case["fields"], values):
        pairs: list = []
        if not F.same_shape(f["value"], v, src_objs, {}, pairs):
            return False, f"shape/non-file leaves of field {f['name']} changed"
        pairs_all.append(pairs)
    seen: dict = {}  # destination path -> physical file-set
    for fi, pairs in enumerate(pairs_all):
        within: dict = {}
        for o, res in pairs:
            si = case["objs"][o]
            s = case["sets"][si]
            phys = tuple(sorted(s["paths"]))
            if type(res) is not type(src_objs[o]):
                return False, "class changed"
            for p in res.fspaths:
                if not str(p).startswith(str(dest) + "/"):
                    return False, f"{p} not inside the workflow directory"
                if os.path.islink(p):
                    return False, f"{p} is a symlink (copy or hard link expected)"
                if not p.exists():
                    return False, f"{p} missing"
                if seen.setdefault(str(p), phys) != phys:
                    return False, f"two different sources share destination {p}"
            got = sorted(json.dumps(F.read_content(p), sort_keys=True) for p in res.fspaths)
            if got != expected_contents(case, si):
                return False, f"content of {sorted(map(str, res.fspaths))} differs from source {s['paths']}"
            k = (s["cls"], phys)
            if k in within and within[k] is not res:
                return False, "equal file objects in one field came back as different objects"
            within[k] = res
    return True, ""


def reserved_name(case: dict) -> bool:
    used = {o for f in case["fields"] for o in F.tree_leaves(f["value"], [])}
    return any(os.path.basename(p) in F.RESERVED for o in used for p in case["sets"][case["objs"][o]]["paths"])


def nontrivial(case: dict) -> bool:
    leaves = [o for f in case["fields"] for o in F.tree_leaves(f["value"], [])]
    if len(leaves) < 2:
        return False
    sets_used = {case["objs"][o] for o in leaves}
    names: dict = {}
    clash = False
    for si in sets_used:
        for p in case["sets"][si]["paths"]:
            b = os.path.basename(p)
            if b in names and names[b] != tuple(case["sets"][si]["paths"]):
                clash = True
            names.setdefault(b, tuple(case["sets"][si]["paths"]))
    return clash or len(leaves) != len(set(leaves)) or any(F.tree_depth(f["value"]) >= 2 for f in case["fields"])


def run_direct(ctx, case: dict, n: int) -> dict:
    from pydra.engine.result import copyfile_workflow

    root = ctx.scratch / f"d{n}"
    env = F.materialise(case, root)
    dest = root / case["dest"]
    labelled: dict = {}
    values = [F.build_value(f["value"], env["objs"], labelled) for f in case["fields"]]
    outputs = F.outputs_object(values, [f.get("decl", "untyped") for f in case["fields"]])
    before = set(os.listdir(dest))
    err, out = None, None
    with F.patched_mounts(case, root), F.Recorder() as rec:
        try:
            out = copyfile_workflow(dest, outputs)
        except Exception as e:  # noqa: BLE001
            err = core.exc_tag(e)
    res_values = [getattr(out, f"o{i}") for i in range(len(values))] if out is not None else None
    if res_values is not None:
        # model-fidelity information only (never gates the verdict): the id-keyed cache of apply_to_instances is inert,
        # so a container object used twice is rebuilt twice (Lean: C34_idmemo_inert)
        for f, v in zip(case["fields"], res_values):
            for same in F.shared_container_results(f["value"], v):
                ctx.count("idmemo:shared-container-" + ("returned-once(cache threaded?)" if same else "rebuilt-twice"))
    return finish(ctx, case, root, dest, before, err, res_values, env["objs"], rec.calls, ex_extra=[])


def finish(ctx, case, root, dest, before, err, res_values, src_objs, calls, ex_extra) -> dict:
    created = sorted(set(os.listdir(dest)) - before - F.RESERVED) if dest.is_dir() else []
    # which physical operation produced each result object (read off the file system, via unique contents)
    by_content = {}
    for o, obj in enumerate(src_objs):
        by_content.setdefault(expected_contents(case, case["objs"][o])[0], obj)

    def kind_of(res):
        for o in src_objs:
            if res is o:
                return "leave"
        try:
            c = sorted(json.dumps(F.read_content(p), sort_keys=True) for p in res.fspaths)[0]
            src = by_content.get(c)
            if src is None:
                return "unknown-source"
            return F.fs_kind(sorted(src.fspaths), sorted(res.fspaths), False)
        except Exception:  # noqa: BLE001
            return "unreadable"

    impl = {"err": err, "fields": None, "created": [F.rel(dest / c, root) for c in created]}
    if res_values is not None:
        table = F.ObjTable()
        impl["fields"] = [
            {"name": f["name"], "value": F.canon_impl_value(v, root, table, kind_of)} for f, v in zip(case["fields"], res_values)
        ]
    if calls is not None:
        impl["copies"] = [
            {"src": sorted(F.rel(p, root) for p in c["self"].fspaths), "dst": sorted(F.rel(p, root) for p in c["out"].fspaths),
             "op": c["op"]}
            for c in calls if "out" in c
        ]  # fmt: skip
    try:
        spec_ok, why = oracle(case, root, dest, err, res_values, src_objs)
    except OSError as e:  # whatever cannot be observed is a failed observation of the property, not a harness crash
        spec_ok, why = False, f"collected files cannot be inspected: {core.exc_tag(e)}"
    ex = sorted({str(p) for o in src_objs for p in o.fspaths} | {str(dest / b) for b in before} | set(ex_extra))
    if calls is not None:
        q = F.model_request(case, root, dest, ex, "script", F.script_from_calls(calls))
    else:
        q = F.model_request(case, root, dest, ex, "ref")
    return {"case": case, "root": root, "impl": impl, "spec_ok": spec_ok, "why": why, "q": q, "calls": calls}


def run_public(ctx, case: dict, n: int) -> dict:
    from pydra.engine.submitter import Submitter

    root = ctx.scratch / f"p{n}"
    root.mkdir()
    # template for Pack: leaves refer to (node, index in that node's list)
    def tpl(t):
        if "o" in t:
            s = case["sets"][t["o"]]
            return {"f": [s["node"], s["idx"]]}
        if "a" in t or "ref" in t:
            return t
        out = {}
        if "l" in t:
            out["l"] = [tpl(c) for c in t["l"]]
        elif "t" in t:
            out["t"] = [tpl(c) for c in t["t"]]
        else:
            out["d"] = [[tpl(k), tpl(c)] for k, c in t["d"]]
        if "id" in t:
            out["id"] = t["id"]
        return out

    wf = F.collect_workflow([f.get("decl", "untyped") for f in case["fields"]])(
        s0=json.dumps(case["per_node"][0]),
        s1=json.dumps(case["per_node"][1]),
        s2=json.dumps(case["per_node"][2]),
        template=json.dumps([tpl(f["value"]) for f in case["fields"]]),
    )
    err, res = None, None
    try:
        with Submitter(worker="debug", cache_root=root) as sub:
            res = sub(wf, raise_errors=True)
    except Exception as e:  # noqa: BLE001
        err = core.exc_tag(e)
    # where things are: node directories from the 'src' output, or (after a failure) from the cache root
    node_dirs: dict = {}
    wf_dirs = [d for d in os.listdir(root) if d.startswith("workflow-") and (root / d).is_dir()]
    dest = root / wf_dirs[0] if wf_dirs else root / "no-workflow-dir"
    for d in os.listdir(root):
        if d.startswith("python-") and (root / d).is_dir():
            for k in range(3):
                names = [nm for s in case["per_node"][k] for nm in s["names"]]
                if names and all((root / d / nm).exists() for nm in names) and (root / d / "_job.pklz").exists():
                    import cloudpickle as cp

                    with open(root / d / "_job.pklz", "rb") as fp:
                        job = cp.load(fp)
                    if getattr(job.task, "tag", None) == f"@{k}":
                        node_dirs[k] = d
    conc = json.loads(json.dumps({k: v for k, v in case.items() if k != "per_node"}))
    conc["dest"] = dest.name
    for s in conc["sets"]:
        s["sym"] = list(s["paths"])
        if s["node"] in node_dirs:
            s["paths"] = [p.replace(f"@{s['node']}/", node_dirs[s["node"]] + "/", 1) for p in s["paths"]]
    # source objects (fresh wrappers of the node files; identity is only used for 'leave', which cannot occur here)
    classes, _ = F._ff()
    src_objs = []
    for s in conc["sets"]:
        try:
            src_objs.append(classes[s["cls"]](*[root / r for r in s["paths"]]))
        except Exception:  # noqa: BLE001  (node never ran)
            src_objs.append(None)
    res_values = [getattr(res.outputs, f"o{i}") for i in range(3)] if res is not None else None
    if any(o is None for o in src_objs):
        return {"case": case, "root": root, "impl": {"err": err, "fields": None, "created": []}, "spec_ok": False,
                "why": f"a writer node did not run ({err})", "q": None, "calls": None}  # fmt: skip
    before = {"_job.pklz"}  # what exists in the workflow directory when the outputs are collected
    out = finish(ctx, conc, root, dest, before, err, res_values, src_objs, None, ex_extra=[])
    out["case"] = case
    out["conc"] = conc
    return out





# --------------------------------------------------------------------------------------
# verdicts


def judge_all(ctx, runs: list[dict]):
    qs = [r["q"] for r in runs if r["q"] is not None]
    ans = ctx.driver("Files", qs) if qs else []
    it = iter(ans) if ans is not None else None
    for r in runs:
        model = None
        if r["q"] is not None and it is not None:
            model = F.canon_model_answer(next(it), r["root"])
        impl = dict(r["impl"])
        if model is not None and "driver-error" not in model:
            if impl.get("copies") is None:
                model.pop("copies", None)
            # `created`: top-level names inside the destination
            dest_rel = F.rel(r["q"]["dest"], r["root"])
            model["created"] = sorted({dest_rel + "/" + c[len(dest_rel) + 1 :].split("/")[0] for c in model.get("created", [])})
            if model["err"] is not None:
                model = {"err": model["err"], "fields": None}
                impl = {"err": impl["err"], "fields": None}
        case = r["case"]
        defect = "D57" if reserved_name(case) else None
        if defect:
            # the model stops where copyfile_workflow returns; what `save` does afterwards to a file named like pydra's own
            # result file is outside it — compare what the model covers (paths, structure, sharing), not link kinds/listing
            impl, model = strip_kinds(impl), strip_kinds(model)
        ctx.count(f"via={case['via']}")
        ctx.count(f"fields={len(case['fields'])}")
        for f in case["fields"]:
            ctx.count(f"decl[{case['via']}]=" + f.get("decl", "untyped"))
        ctx.count("err=" + str(r["impl"]["err"]))
        ctx.count("mounts" if case.get("table") else "no-mounts")
        for s in case["sets"]:
            ctx.count("cls=" + s["cls"])
        ctx.judge(
            {k: v for k, v in case.items() if k != "per_node"} | ({"per_node": case["per_node"]} if "per_node" in case else {}),
            impl,
            model,
            r["spec_ok"],
            nontrivial=nontrivial(case),
            defect=defect,
            what=r["why"],
        )
        if r["calls"]:
            F.judge_contract(ctx, r["calls"], r["root"])


def strip_kinds(obs):
    if obs is None:
        return None
    obs = json.loads(json.dumps(obs))
    obs.pop("created", None)
    obs.pop("copies", None)

    def walk(t):
        if isinstance(t, dict):
            t.pop("kind", None)
            for v in t.values():
                walk(v)
        elif isinstance(t, list):
            for v in t:
                walk(v)

    walk(obs)
    return obs


def load_corpus(name: str) -> list[dict]:
    p = CORPUS / name
    return [json.loads(line) for line in p.read_text().splitlines() if line.strip()] if p.exists() else []


def correspondence(ctx):
    core.assert_repo_loaded()
    runs = []
    n = 0
    # corpus first
    for c in load_corpus("C33_direct.jsonl"):
        runs.append(run_direct(ctx, c, n)); n += 1  # noqa: E702
    d51 = None
    for c in load_corpus("C33_public.jsonl"):
        r = run_public(ctx, c, n); n += 1  # noqa: E702
        runs.append(r)
        if c.get("witness") == "D57":
            d51 = r
    if any(f["id"] == "D57" for f in ctx.known()):
        ctx.finding("D57", d51 is not None and not d51["spec_ok"], d51["why"] if d51 else "witness missing from corpus")
    for _ in range(ctx.pick(20, 150)):  # same name from several directories inside one field
        runs.append(run_direct(ctx, gen_clash(ctx.rng), n)); n += 1  # noqa: E702
        ctx.count("forced-clash-in-one-field")
    for _ in range(ctx.pick(160, 2500)):
        runs.append(run_direct(ctx, gen_direct(ctx.rng), n)); n += 1  # noqa: E702
    for _ in range(ctx.pick(30, 400)):
        runs.append(run_public(ctx, gen_public(ctx.rng), n)); n += 1  # noqa: E702
    judge_all(ctx, runs)


def search(ctx):
    """Broken tie: look for an input on which the implementation itself violates the property (no model involved)."""
    n = 100000
    for i in range(ctx.pick(600, 4000)):
        r = run_direct(ctx, gen_clash(ctx.rng) if i % 3 == 0 else gen_direct(ctx.rng), n + i)
        if not r["spec_ok"] and not reserved_name(r["case"]):
            ctx.judge(r["case"], r["impl"], None, False, what=r["why"])
            return
    for i in range(ctx.pick(40, 300)):
        r = run_public(ctx, gen_public(ctx.rng), n + 50000 + i)
        if not r["spec_ok"] and not reserved_name(r["case"]):
            ctx.judge(r["case"], r["impl"], None, False, what=r["why"])
            return


def replay(ctx, rec):
    case = rec["case"]
    if "contract-sample" in case:
        ctx.notes.append("replay of a contract sample: re-run the whole check")
        return correspondence(ctx)
    r = run_public(ctx, case, 0) if case.get("via") == "public" else run_direct(ctx, case, 0)
    judge_all(ctx, [r])
