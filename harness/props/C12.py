"""C12 — A crash at any point never yields a wrong result or a wedged cache (DESIGN §6 C12, engine JobProto §5.4).

Correspondence device (ii): a fresh process (forked from a warmed-up zygote) runs the task with
`NIPYPE_PYDRA_VERIF_CRASH=<point>[:n]` / `NIPYPE_PYDRA_VERIF_TORN=<k>` and is killed there by `os._exit`; the cache
location is observed; another fresh process resubmits under a watchdog (a hang is a violation with the crash point
as replay); the location is observed again.  Model side: the same scenario on the GENERATED skeleton (`dieAt` /
`tornAt` the position of the hook point, `afterDeath`, second `exec`).  Plus: truncation of a real `_result.pklz`
at many lengths vs `load_result`, and validation of the skeleton's hook-point trace against `events.log`.
"""

from __future__ import annotations

import os
import shutil
from pathlib import Path

from harness import core
from harness.engines import jobproto as jp
from harness.extractors import job_skeleton
from harness.extractors.job_skeleton import extract_job_skeleton

META = {
    "engine": "JobProto",
    "category": "proof",
    "design_ref": "§6 C12, §5.4",
    "technique": "Lean 4: general crash-prefix / simulation lemmas over any skeleton + kernel evaluation (decide +kernel) of two "
    "finite checks on the skeleton REGENERATED from Job.run / Job.run_async; unbounded prefix-freeness theorem; "
    "fault-injection correspondence with real processes",
    "text": "Lean theorems C12_crash_safe / C12_async: for every world shape a new process can find (any legal result file "
    "incl. a strict prefix, stale markers of dead processes, any history), every behaviour of the crashed run, EVERY crash "
    "position (death right before any action, or inside a write leaving a torn file) and every resubmission whose body "
    "succeeds: the resubmission returns the complete correct result (re-executing, or serving a complete result whose "
    "body had finished), never a partial one, and both locks can be acquired afterwards.  Proved from general lemmas "
    "(halt_or_log: crash at j = state logged at j; exec_reduce: independence of history and of stale markers) and two "
    "finite checks evaluated by the kernel on the skeleton extracted from the CURRENT source, so reordering save / "
    "unlink / lock release re-opens them.  C12_prefix_free (unbounded): no strict prefix of a framed STOP-terminated "
    "stream decodes.  Tied to the code by killing real processes at every hook point and resubmitting under a watchdog.",
    "note": "Trusted: Lean kernel; AST skeleton extractor; hand-written action semantics (JobProto/Model.lean); lock contract "
    "of filelock 3.32.6 SoftFileLock and the pickle framing contract (DESIGN §4), both sampled on every run.",
    "rule": "case = (task kind, worker, body behaviour, crash point:occurrence | torn length, rerun of the resubmission); "
    "non-trivial = every case (a fault and >= 2 submissions); truncation cases distinct by length",
    "assumptions": [
        "filelock.SoftFileLock 3.32.6: atomic exclusive create; a marker of a dead same-host pid is broken by the next contender",
        "a crashed process leaves files as the POSIX write order dictates (open('wb') truncates, then a prefix is written)",
    ],
    "trusted": [
        "hand-written semantics of the actions (JobProto/Model.lean) and the extractor harness/extractors/job_skeleton.py",
    ],
}

_NS = "PydraModel.JobProto."
OBLIGATIONS = [
    _NS + n
    for n in (
        "C12_crash_safe",
        "C12_async",
        "C12_closed_run_ok",
        "C12_closed_run_exc",
        "C12_closed_run_base",
        "C12_resub_run",
        "C12_closed_async_ok",
        "C12_closed_async_exc",
        "C12_closed_async_base",
        "C12_resub_async",
        "C12_points_reached_run",
        "C12_points_reached_async",
        "C12_prefix_free",
        "C12_roundtrip",
        "C12_load_result",
        "halt_or_log",
        "run_sim",
        "exec_reduce",
        "crashSafe_of",
    )
]
LEAN_TARGETS = ["PydraModel.Props.C12", "Drivers.JobProto"]
MODEL_TARGETS = ["PydraModel.JobProto.Model", "PydraModel.Gen.JobSkeleton", "PydraModel.DriverUtil", "Drivers.JobProto"]
EXTRACTORS = [extract_job_skeleton]

PAR = int(os.environ.get("VERIF_JOBPROTO_PAR", "10"))


# ------------------------------------------------------------------------------------------------------------------
# case lists


def static_points(tree) -> list[tuple[str, int]]:
    """(hook point, occurrence) in source order of the flattened skeleton."""
    seen: dict[str, int] = {}
    out = []
    for a in job_skeleton.flatten(tree):
        if a[0] == "vp":
            seen[a[1]] = seen.get(a[1], 0) + 1
            out.append((a[1], seen[a[1]]))
    return out


def py_positions(tree) -> dict:
    """Python mirror of the driver's `positions` answer (cross-checked against the driver on every run)."""
    acts, vps = [], []
    for i, a in enumerate(job_skeleton.flatten(tree)):
        if a[0] == "vp":
            acts.append("vp:" + a[1])
            vps.append([a[1], i])
        elif a[0] == "acq":
            acts.append("lockAcquire." + a[1])
        elif a[0] == "rel":
            acts.append("lockRelease." + a[1])
        else:
            acts.append(a[1])
    return {"acts": acts, "vp": vps}


FAIL_POINTS = [("error.before", 1), ("error.after", 1), ("run.save.before", 1), ("save.result.after", 1),
               ("save.job.before", 2), ("run.save.after", 1), ("run.unlinked", 1), ("run.cwd_restored", 1)]  # fmt: skip


# hook points of Job.run as of the pinned tree: used only when the extractor cannot read the source any more
DEFAULT_POINTS = [("run.lock_acquired", 1), ("run.will_execute", 1), ("save.job.before", 1), ("save.job.after", 1),
                  ("run.populated", 1), ("run.body.before", 1), ("run.body.after", 1), ("run.outputs_collected", 1),
                  ("run.save.before", 1), ("save.result.before", 1), ("save.result.after", 1), ("save.job.before", 2),
                  ("save.job.after", 2), ("run.save.after", 1), ("run.unlinked", 1), ("run.cwd_restored", 1),
                  ("run.lock_released", 1)]  # fmt: skip


def crash_cases(ctx, sk, big: bool) -> list[dict]:
    pts = static_points(sk["run"]) if sk is not None else list(DEFAULT_POINTS)
    pts = [p for p in pts if not p[0].startswith("error.")]
    cases = []
    for point, occ in pts:
        cases.append({"kind": "crash", "task": "py", "worker": "debug", "body": "ok", "point": point, "occ": occ, "rerun2": False})
    fail_pts = FAIL_POINTS if big else ctx.rng.sample(FAIL_POINTS, 4)
    for point, occ in fail_pts:
        # in a failing run the save inside `finally` is the first visit of save.result.*, the second of save.job.*
        cases.append({"kind": "crash", "task": "py", "worker": "debug", "body": "fail", "point": point, "occ": occ, "rerun2": False})
    for frac in ([0.0, 0.01, 0.5, 0.999] if big else [0.0, 0.5]):
        cases.append({"kind": "torn", "task": "py", "worker": "debug", "body": "ok", "frac": frac, "rerun2": False})
    if big:
        for c in list(cases):
            if ctx.rng.random() < 0.5:
                cases.append({**c, "rerun2": True})
    else:
        extra = ctx.rng.sample(cases, 3)
        cases += [{**c, "rerun2": True} for c in extra]
    return cases


def other_task_cases(ctx, big: bool) -> list[dict]:
    """shell task and workflow (debug and cf worker): checked against the property only (no model)."""
    sh_points = ["run.lock_acquired", "run.populated", "run.body.before", "run.body.after", "run.save.before",
                 "save.result.after", "run.save.after", "run.unlinked", "run.cwd_restored", "run.lock_released"]  # fmt: skip
    cases = []
    pick = sh_points if big else ctx.rng.sample(sh_points, 2)
    for p in pick:
        cases.append({"kind": "crash", "task": "sh", "worker": "debug", "body": "ok", "point": p, "occ": 1, "rerun2": False})
    # workflow under the debug worker: the workflow job and its node job both pass the run.* points
    wf_points = [(p, o) for p in sh_points for o in (1, 2)]
    pick = wf_points if big else ctx.rng.sample(wf_points, 2)
    for p, o in pick:
        cases.append({"kind": "crash", "task": "wf", "worker": "debug", "body": "ok", "point": p, "occ": o, "rerun2": False})
    # workflow under the cf worker: the workflow job runs `run_async` in the submitting process
    arun = ["arun.lock_acquired", "arun.populated", "arun.body.before", "arun.body.after", "arun.save.before",
            "arun.save.after", "arun.unlinked", "arun.cwd_restored", "arun.lock_released"]  # fmt: skip
    pick = arun if big else ctx.rng.sample(arun, 2)
    for p in pick:
        cases.append({"kind": "crash", "task": "wf", "worker": "cf", "body": "ok", "point": p, "occ": 1, "rerun2": False})
    return cases


# ------------------------------------------------------------------------------------------------------------------
# running cases on the implementation


def _dirs(ctx, n: int):
    b = ctx.scratch / f"case{n}"
    for d in ("ctl", "cache", "v"):
        (b / d).mkdir(parents=True)
    return b


def prepare(ctx, n: int, case: dict, result_size: int) -> dict:
    b = _dirs(ctx, n)
    spec = {"task": case["task"], "x": 1, "ctl": str(b / "ctl"), "cache": str(b / "cache"), "worker": case["worker"]}
    env = {"NIPYPE_PYDRA_VERIF_DIR": str(b / "v")}
    if case["kind"] == "crash":
        env["NIPYPE_PYDRA_VERIF_CRASH"] = f"{case['point']}:{case['occ']}"
    else:
        env["NIPYPE_PYDRA_VERIF_TORN"] = str(min(int(case["frac"] * result_size), result_size - 1))
    if case["body"] == "fail":
        (b / "ctl" / "fail").touch()
    return {"spec": spec, "env1": env, "env2": {"NIPYPE_PYDRA_VERIF_DIR": str(b / "v2")}, "base": b}


def run_batch(zy, specs: list[dict], timeout: float) -> list[dict]:
    out = []
    for i in range(0, len(specs), PAR):
        hs = [zy.spawn(s) for s in specs[i : i + PAR]]
        out += [zy.wait(h, timeout) for h in hs]
    return out


def run_crash_cases(ctx, zy, cases: list[dict], result_size: int) -> list[dict]:
    """-> per case: observables of the implementation."""
    n0 = getattr(ctx, "_jp_n", 0)
    preps = [prepare(ctx, n0 + i, c, result_size) for i, c in enumerate(cases)]
    ctx._jp_n = n0 + len(cases)
    chks = [jp.checksum(p["spec"]) for p in preps]
    r1 = run_batch(zy, [{**p["spec"], "env": p["env1"]} for p in preps], jp.WATCHDOG)
    obs1 = [jp.observe(p["spec"]["cache"], chk, p["spec"]["ctl"]) for p, chk in zip(preps, chks)]
    ev1 = [jp.read_events(p["env1"]["NIPYPE_PYDRA_VERIF_DIR"]) for p in preps]
    for p, c in zip(preps, cases):
        f = p["base"] / "ctl" / "fail"
        if f.exists():
            f.unlink()  # the resubmission's body succeeds
        (p["base"] / "v2").mkdir()
    r2 = run_batch(zy, [{**p["spec"], "env": p["env2"], "rerun": c["rerun2"]} for p, c in zip(preps, cases)], jp.WATCHDOG)
    obs2 = [jp.observe(p["spec"]["cache"], chk, p["spec"]["ctl"]) for p, chk in zip(preps, chks)]
    out = []
    for c, p, a, o1, e1, b, o2 in zip(cases, preps, r1, obs1, ev1, r2, obs2):
        o1.pop("hooks")
        o2.pop("hooks")
        out.append(
            {
                "crash": {"died": a["exit"] == 137 and not a["hang"], "hang": a["hang"], **o1},
                "crash_events": e1,
                "resub": {
                    "hang": b["hang"],
                    "outcome": (b["report"] or {}).get("outcome"),
                    "outputs": (b["report"] or {}).get("outputs"),
                    "msg": ((b["report"] or {}).get("msg") or "")[-300:],
                    **o2,
                },
            }
        )
        shutil.rmtree(p["base"], ignore_errors=True)
    return out


# ------------------------------------------------------------------------------------------------------------------
# model side


def history_query(case: dict, positions: dict) -> dict:
    body = None if case["body"] == "ok" else False
    if case["kind"] == "crash":
        fault = {"kind": "die", "at": jp.vp_index(positions, case["point"], case["occ"])}
    else:
        fault = {"kind": "torn", "at": jp.act_index(positions, "saveResult", 1)}
    return {
        "op": "history", "prog": "run", "core": dict(jp.FRESH_CORE), "errInit": "absent", "jobInit": "absent",
        "steps": [
            {"env": {"rerun": False, "prov": False, "bodyFails": body}, "fault": fault, "submit": None, "then": "death"},
            {"env": {"rerun": case["rerun2"], "prov": False, "bodyFails": None}, "fault": {"kind": "none"},
             "submit": {"raiseErrors": True, "inProcess": True}, "then": "next"},
        ],
    }  # fmt: skip


def model_view(ans: dict) -> dict:
    s1, s2 = ans["steps"]
    m1 = jp.model_observable(s1, after="death")
    m2 = jp.model_observable(s2)
    m2["execs"] += s1["execs"]
    m2["info"] += m1["info"]  # the dead process's info file stays behind
    outcome = {"outputs": "ok"}.get(s2.get("report"), s2.get("report"))
    return {
        "crash": {"died": s1["ctl"] == "dead", "hang": False, **m1},
        "resub": {"hang": s2["ctl"] == "blocked", "outcome": outcome, **m2},
    }


def impl_view(obs: dict) -> dict:
    r = dict(obs["resub"])
    r.pop("outputs")
    r.pop("msg")
    return {"crash": obs["crash"], "resub": r}


def spec_ok(case: dict, obs: dict, expected) -> tuple[bool, str]:
    """Exactly what the property states, decided without the model."""
    r = obs["resub"]
    if r["hang"]:
        return False, "the resubmission blocked (watchdog)"
    if r["outcome"] != "ok":
        return False, f"the resubmission failed: {r['outcome']} {r['msg']}"
    if r["outputs"] != expected:
        return False, f"the resubmission returned {r['outputs']}, expected {expected}"
    if r["result"] != "ok":
        return False, f"result file after the resubmission is {r['result']}"
    body_tag = "arun.body.after" if case["worker"] == "cf" and case["task"] == "wf" else "run.body.after"
    if case["task"] == "py":
        before = obs["crash"]["execs"]
        if r["execs"] == before:
            # served from the cache: only legitimate if the crashed run's body had finished
            if body_tag not in obs["crash_events"]:
                return False, "a result was served although the crashed body never finished"
        elif r["execs"] != before + 1:
            return False, f"body executions went from {before} to {r['execs']}"
    if r["jobLock"] == "live":
        return False, "the job lock is still held after the resubmission"
    return True, ""


# ------------------------------------------------------------------------------------------------------------------
# truncation of a real result file


def truncation_device(ctx, n_lengths: int | None):
    from pydra.engine.result import load_result

    b = _dirs(ctx, 900000)
    spec = {"task": "py", "x": 1, "ctl": str(b / "ctl"), "cache": str(b / "cache")}
    rep = jp.run_spec(spec)
    if rep["outcome"] != "ok":
        raise core.Infra(f"could not produce a result file: {rep}")
    chk = jp.checksum(spec)
    data = (Path(spec["cache"]) / chk / "_result.pklz").read_bytes()
    size = len(data)
    if n_lengths is None or n_lengths >= size:
        lengths = list(range(size))
    else:
        step = max(1, size // n_lengths)
        lengths = sorted(set(list(range(0, size, step)) + list(range(16)) + list(range(size - 16, size))))
    troot = b / "trunc"
    (troot / chk).mkdir(parents=True)
    f = troot / chk / "_result.pklz"
    bad = 0
    for L in lengths:
        f.write_bytes(data[:L])
        try:
            r = load_result(chk, [troot], retries=1, polling_interval=0.0)
            got = None if r is None else "loaded"
        except Exception as e:
            got = core.exc_tag(e)
        ctx.count("truncation-length")
        v = ctx.judge({"kind": "truncate", "length": L, "size": size}, {"loaded": got}, {"loaded": None}, got is None,
                      key=f"trunc:{L}", what="load_result on a strict prefix of _result.pklz")  # fmt: skip
        bad += v != "ok"
    f.write_bytes(data)
    r = load_result(chk, [troot], retries=1, polling_interval=0.0)
    ok = r is not None and not r.errored and r.outputs is not None and r.outputs.out == 2
    ctx.judge({"kind": "truncate", "length": size, "size": size}, {"loaded": "complete" if ok else "bad"}, {"loaded": "complete"},
              ok, key="trunc:full", what="load_result on the complete file")  # fmt: skip
    shutil.rmtree(b, ignore_errors=True)
    return size


# ------------------------------------------------------------------------------------------------------------------


def judge_cases(ctx, cases, observed, answers, positions_ok: bool):
    for k, (c, o) in enumerate(zip(cases, observed)):
        exp = jp.expected_outputs({"task": c["task"], "x": 1})
        ok, why = spec_ok(c, o, exp)
        model = None
        if answers is not None and c["task"] == "py":
            a = answers[k]
            model = {"error": a["error"]} if "error" in a else model_view(a)
        ctx.count(f"{c['task']}/{c['worker']}/{c['kind']}/{c['body']}")
        ctx.count("crash-died" if o["crash"]["died"] else "crash-point-not-reached")
        ctx.judge(c, impl_view(o) if c["task"] == "py" else {"resub_outcome": o["resub"]["outcome"]},
                  model if c["task"] == "py" else None, ok, what=why or "crash + resubmission",
                  key=f"{c['task']}/{c['worker']}/{c['kind']}/{c['body']}/{c.get('point')}:{c.get('occ')}/{c.get('frac')}/{c['rerun2']}")  # fmt: skip


def run_all(ctx, cases_py: list[dict], cases_other: list[dict], n_lengths):
    import time

    core.assert_repo_loaded()
    ph = ctx.extra.setdefault("phase_s", {})
    t0 = time.time()
    ph["build+audit"] = round(t0 - ctx.t0, 1)
    sk = jp.safe_skeletons(ctx)
    positions = py_positions(sk["run"]) if sk is not None else None
    size = truncation_device(ctx, n_lengths)
    ph["truncation"] = round(time.time() - t0, 1)
    t0 = time.time()
    zy = jp.Zygote(ctx.scratch)
    ph["zygote-start"] = round(time.time() - t0, 1)
    try:
        t0 = time.time()
        bad = jp.validate_skeleton(ctx, zy, positions)
        ph["skeleton-validation"] = round(time.time() - t0, 1)
        t0 = time.time()
        observed = run_crash_cases(ctx, zy, cases_py + cases_other, size)
        ph["crash-cases"] = round(time.time() - t0, 1)
    finally:
        zy.close()
    t0 = time.time()
    ans = None
    if positions is not None:
        queries = [{"op": "positions", "prog": "run"}] + [history_query(c, positions) for c in cases_py]
        ans = ctx.driver("JobProto", queries)
    answers = None
    if ans is not None:
        if ans[0].get("acts") != positions["acts"] or ans[0].get("vp") != positions["vp"]:
            ctx.tie_broken.append({"kind": "positions-mirror", "detail": "python mirror of Prog.flatten differs from the driver"})
        answers = ans[1:] + [None] * len(cases_other)
    ph["driver"] = round(time.time() - t0, 1)
    judge_cases(ctx, cases_py + cases_other, observed, answers, True)
    return bad


def _corpus(name: str) -> list[dict]:
    import json

    p = core.VERIF / "corpus" / "jobproto" / f"{name}.jsonl"
    return [json.loads(line)["case"] for line in p.read_text().splitlines() if line.strip()]


def correspondence(ctx):
    sk = jp.safe_skeletons(ctx)
    gen = crash_cases(ctx, sk, big=not ctx.quick)
    corpus = _corpus("c12_crash")  # corpus first
    cases_py = corpus + [c for c in gen if c not in corpus]
    cases_other = other_task_cases(ctx, big=not ctx.quick)
    run_all(ctx, cases_py, cases_other, ctx.pick(64, None))


def search(ctx):
    sk = jp.safe_skeletons(ctx)
    run_all(ctx, crash_cases(ctx, sk, big=True), other_task_cases(ctx, big=True), ctx.pick(256, None))


def replay(ctx, rec):
    c = rec["case"]
    if c.get("kind") == "truncate":
        truncation_device(ctx, None)
        return
    run_all(ctx, [c] if c["task"] == "py" else [], [] if c["task"] == "py" else [c], 16)
