"""C20 — Accepted field values conform to the declared type (DESIGN §6 C20, engine Typing §5.6)."""

from __future__ import annotations

import json
import typing as ty

from harness import core
from harness.engines import typing_eng as te
from harness.extractors.typing_tables import typing_tables

META = {
    "engine": "Typing",
    "category": "proof",
    "design_ref": "§6 C20, §5.6",
    "technique": "Lean 4 theorems by structural induction over the type grammar (coercion soundness, no str/sequence confusion, "
    "idempotence) over class tables regenerated from the running interpreter + differential correspondence",
    "text": "Lean theorems about a model of TypeParser.coerce (pydra/utils/typing.py), for every well-formed type of the grammar "
    "(classes of a 32-class universe, Any, Union, list/tuple/set/frozenset/dict/abstract-container generics, tuple[T, ...], "
    "MultiInputObj[T]) of any depth and every value of any size, with or without superclass_auto_cast: an accepted value is stored "
    "as a value that conforms to the declared type, element types included (C20_sound_partial, C20_field_sound_partial for the "
    "attrs converter of make_converter); a str is only passed through, turned into a path-like atom or wrapped whole by "
    "MultiInputObj, and a container is never stored as a str (C20_no_str_split_partial, C20_no_seq_join_partial); coercing the "
    "stored value again returns it unchanged whenever every Union node met by the value is stable (C20_idem_partial_stableUnions; "
    "the complement of that decidable hypothesis is finding D13u; C20_idem_partial_unionFree is the union-free corollary); a rejected value is rejected by the "
    "assignment itself and leaves the attribute unchanged (C20_reject_at_assignment).  The partial theorems carry explicit "
    "decidable exclusions for the findings D13 (str split by set / abstract-sequence patterns), D13b (set joined into a str), "
    "the bytes restriction (D13c) and, for idempotence, unstable union nodes (D13u); witness theorems C20_witness_* and "
    "C20_full_statement_false show the full statement fails on the pinned tree.  The table-level reasons (C20_tables_strSafe, "
    "C20_tables_noJoin) are re-proved by `decide` over the issubclass matrix and COERCIBLE/NOT_COERCIBLE tables dumped from the "
    "running interpreter on every run.  The model is tied to the code by running TypeParser(T, superclass_auto_cast)(v) twice "
    "(idempotence) and a real task-field assignment against the Lean driver on generated (type, value) cases; every constructor "
    "call the model makes is re-checked against the interpreter (one rfl theorem per observed call).",
    "note": "Trusted: Lean kernel; hand-written model of coerce/expand_and_coerce (tie = differential + regenerated class tables + "
    "constructor samples + AST facts of make_converter); class universe is finite (32 classes incl. the fileformats field classes named by COERCIBLE_DEFAULT; no File/Directory/FsObject — their constructors depend on the file system —, no numpy classes, no ty.Type, no "
    "NOTHING/LazyField/StateArray pass-through); generator reach (type depth <= 3).",
    "rule": "case = (superclass_auto_cast, type, value); distinct by canonical JSON; non-trivial = the type is generic/union or the "
    "value is a container or the stored value differs from the assigned one",
    "assumptions": [
        "floats are integral-valued and ints fit a float (OverflowError from float(10**400) is outside the generator)",
        "str/bytes payloads are printable or \\n,\\t,\\r (repr of other control characters is modelled but not generated)",
        "generated values do not share object identity (dict_values views compare and hash by identity)",
    ],
    "trusted": ["model of TypeParser.coerce written by hand (Typing/Model.lean)", "harness/engines/typing_eng.py (codecs, conforms oracle, match rules)"],
}

_NS = "PydraModel.Typing."
OBLIGATIONS = [
    _NS + n
    for n in (
        "C20_sound_partial",
        "C20_field_sound_partial",
        "C20_reject_at_assignment",
        "C20_assign_stores_result",
        "C20_no_str_split_partial",
        "C20_no_seq_join_partial",
        "C20_idem_partial_unionFree",
        "C20_idem_partial_stableUnions",
        "C20_tables_strSafe",
        "C20_tables_noJoin",
        "C20_witness_set",
        "C20_witness_seq",
        "C20_witness_set_to_str",
        "C20_witness_bytes_bool",
        "C20_witness_union",
        "C20_full_statement_false",
    )
]
LEAN_TARGETS = ["PydraModel.Props.C20", "PydraModel.Gen.TypeCtorSamples"]
MODEL_TARGETS = ["PydraModel.Typing.Model", "PydraModel.Typing.Defects", "PydraModel.Typing.Static2", "PydraModel.Typing.IdemU", "PydraModel.DriverUtil"]
EXTRACTORS = [typing_tables]

# --------------------------------------------------------------------------------------


def impl_run(t, v_py, sac: bool):
    """TypeParser(T, superclass_auto_cast=sac)(v), then once more on the result."""
    from pydra.utils.typing import TypeParser

    T = te.ty_to_py(t)
    try:
        p = TypeParser(T, superclass_auto_cast=sac)
        r = p(v_py)
    except Exception as e:
        return {"r": ["err", core.exc_tag(e)], "again": None}, None
    out = {"r": ["ok", te.sort_sets(te.canon(r))], "r_raw": te.canon(r)}
    try:
        r2 = p(r)
        out["again"] = ["ok", te.sort_sets(te.canon(r2))]
    except Exception as e:
        out["again"] = ["err", core.exc_tag(e)]
    return out, r


def field_run(t, v_py):
    """Assign through a real task field (attrs converter installed by make_converter): at construction and by
    attribute assignment.  Returns (observable, stored python value or None)."""
    from pydra.compose import python

    T = te.ty_to_py(t)

    def f(x):
        return x

    K = python.define(f, inputs={"x": python.arg(type=T)}, outputs={"out": python.out(type=ty.Any)})
    stored = None
    try:
        k = K(x=v_py)
        stored = k.x
        at_init = ["ok", te.sort_sets(te.canon(stored))]
    except Exception as e:
        at_init = ["err", core.exc_tag(e)]
    # assignment after construction: a rejected value must leave the old one in place
    k0 = K(x=attrs_nothing())
    try:
        k0.x = v_py
        at_set = ["ok", te.sort_sets(te.canon(k0.x))]
    except Exception as e:
        at_set = ["err", core.exc_tag(e), "old-value-kept" if k0.x is attrs_nothing() else "old-value-lost"]
    return {"init": at_init, "set": at_set}, stored


def attrs_nothing():
    import attrs

    return attrs.NOTHING


def _res(r):
    return [r[0], te.sort_sets(r[1])] if r[0] == "ok" else ["err", r[1]]


def model_obs(a, a2):
    """a = model's answer on (t, v); a2 = model's answer on (t, the implementation's stored value) or None"""
    if a is None or "error" in a:
        return None
    return {"r": _res(a["r"]), "again": None if a2 is None else _res(a2["r"])}


def classify(t, vj, impl, v_py, r_py):
    """spec verdict on the implementation's behaviour + which clause failed"""
    if impl["r"][0] != "ok":
        return True, None
    if not te.conforms(t, r_py):
        return False, "nonconforming"
    if not te.no_str_seq_confusion(v_py, r_py):
        return False, "confusion"
    if impl["again"] != impl["r"]:
        return False, "not-idempotent"
    return True, None


def run_cases(ctx, cases, what="TypeParser.__call__"):
    pys, impls, rpys, q = [], [], [], []
    for c in cases:
        v_py = te.val_to_py(c["v"])
        c["v"] = te.canon(v_py)  # actual iteration order of sets
        i, r_py = impl_run(c["t"], v_py, c["sac"])
        pys.append(v_py)
        impls.append(i)
        rpys.append(r_py)
        q.append({"op": "coerce", "sac": c["sac"], "t": c["t"], "v": c["v"]})
        # second pass: the model coerces the value the implementation actually stored (its own set order)
        raw = i.pop("r_raw", None)
        q.append({"op": "coerce", "sac": c["sac"], "t": c["t"], "v": raw} if raw is not None else {"op": "conforms", "t": ["any"], "v": c["v"]})
    ans = ctx.driver("Typing", q)
    for k, c in enumerate(cases):
        a = ans[2 * k] if ans is not None else None
        a2 = ans[2 * k + 1] if ans is not None and impls[k]["r"][0] == "ok" else None
        for x in (a, a2):
            if x is not None and "error" in x:
                raise RuntimeError(f"driver rejected a generated case: {x['error']} {json.dumps(c)[:300]}")
        impl, model = impls[k], model_obs(a, a2)
        ok, why = classify(c["t"], c["v"], impl, pys[k], rpys[k])
        # match rules (Python side); the Lean side must agree on them
        m13, m13b = te.d13_match(c["t"], c["v"]), te.d13b_match(c["t"], c["v"])
        # D13u (decided with the real parser on the union alternatives) against Lean's `d13u` (decided with the model)
        m13u = te.ty_has_union(c["t"]) and te.d13u_match(c["sac"], c["t"], c["v"])
        if a is not None:
            impl = dict(impl, d13=m13, d13b=m13b, d13u=m13u)
            model = dict(model, d13=a["d13"], d13b=a["d13b"], d13u=a["d13u"])
        defect = None
        if not ok:
            if m13:
                defect = "D13"
            elif m13b:
                defect = "D13b"
            else:
                defect = other_defect(c, why, impl)
        ctx.count("sac" if c["sac"] else "plain")
        ctx.count("stream=" + c.get("stream", "?"))
        ctx.count("depth=" + str(te.ty_depth(c["t"])))
        ctx.count("outcome=" + (impl["r"][0] if impl["r"][0] == "ok" else impl["r"][1]))
        if why:
            ctx.count("specfail=" + why)
        changed = impl["r"][0] == "ok" and impl["r"][1] != te.sort_sets(c["v"])
        if changed:
            ctx.count("coerced-to-different-value")
        nontrivial = te.ty_depth(c["t"]) >= 1 or c["t"][0] == "u" or c["v"][0] != "a" or changed
        ctx.judge(c, impl, model, ok, nontrivial=nontrivial, defect=defect, what=what + (f" [{why}]" if why else ""))


def other_defect(c, why, impl):
    if why == "nonconforming" and te.d13c_match(c["sac"], c["t"], c["v"]):
        return "D13c"
    if why == "not-idempotent" and impl.get("d13u"):
        return "D13u"
    return None


def run_field_cases(ctx, cases):
    """The converter installed on task fields: rejection happens at assignment, the stored value is the
    parser's result (superclass_auto_cast=True, pre-converters for MultiInputObj / MultiOutputObj)."""
    impls, stored, pys, q = [], [], [], []
    for c in cases:
        v_py = te.val_to_py(c["v"])
        c["v"] = te.canon(v_py)
        i, st = field_run(c["t"], v_py)
        impls.append(i)
        stored.append(st)
        pys.append(v_py)
        q.append({"op": "assign", "t": c["t"], "v": c["v"]})
    ans = ctx.driver("Typing", q)
    for k, c in enumerate(cases):
        a = ans[k] if ans is not None else None
        if a is not None and "error" in a:
            raise RuntimeError(f"driver rejected a generated case: {a['error']} {json.dumps(c)[:300]}")
        impl = impls[k]
        model = None
        if a is not None:
            r = _res(a["r"])
            model = {"init": r, "set": r if r[0] == "ok" else r + ["old-value-kept"]}
        ok, why = True, None
        if impl["init"][0] == "ok":
            r_py = stored[k]
            if impl["set"] != impl["init"]:
                ok, why = False, "init/setattr differ"
            elif not te.conforms(c["t"], r_py):
                ok, why = False, "nonconforming"
            elif not te.no_str_seq_confusion(pys[k], r_py):
                ok, why = False, "confusion"
        else:
            if impl["set"][0] != "err" or impl["set"][2] != "old-value-kept":
                ok, why = False, "not rejected at assignment"
        defect = None
        if not ok:
            if te.d13_match(c["t"], c["v"]):
                defect = "D13"
            elif te.d13b_match(c["t"], c["v"]):
                defect = "D13b"
            elif why == "nonconforming" and te.d13c_match(True, c["t"], c["v"]):
                defect = "D13c"
        ctx.count("field-assignment")
        ctx.count("field-outcome=" + (impl["init"][0] if impl["init"][0] == "ok" else impl["init"][1]))
        ctx.judge(dict(c, field=True), impl, model, ok, nontrivial=True, defect=defect, what="task field assignment" + (f" [{why}]" if why else ""))


def gen_field_case(rng):
    c = gen_case(rng)
    r = rng.random()
    if r < 0.06:
        c["t"] = ["c", "MultiInputObj"]
    elif r < 0.12:
        alts = list(te.MULTI_OUTPUT_OBJ[1])
        rng.shuffle(alts)
        c["t"] = ["u", alts]
    c["sac"] = True
    return c


def gen_case(rng):
    depth = rng.choice([0, 1, 1, 2, 2, 3])
    t = te.gen_type(rng, depth)
    r = rng.random()
    v, stream = None, "conforming"
    if r < 0.40:
        v = te.gen_conforming(rng, t, exotic=0.15)
    elif r < 0.65:
        stream = "neighbour"
        v = te.gen_conforming(rng, te.neighbour_type(rng, t), exotic=0.15)
    elif r < 0.90:
        stream = "confusion"
        v = te.confusion_value(rng, t)
    if v is None:
        stream = "random"
        v = te.gen_any_value(rng, 2)
    return {"sac": rng.random() < 0.6, "t": t, "v": v, "stream": stream}


def _load_corpus():
    """corpus/typing/c20.jsonl: witnesses of the known findings (finding != null) and regression cases
    (near misses that must stay rejected / accepted connections that must keep working)."""
    wit, reg = [], []
    for line in (core.VERIF / "corpus" / "typing" / "c20.jsonl").read_text().splitlines():
        if line.strip():
            rec = json.loads(line)
            (wit.append((rec["finding"], rec["case"])) if rec["finding"] else reg.append(rec["case"]))
    return wit, reg


WITNESSES, CORPUS = _load_corpus()


def correspondence(ctx):
    core.assert_repo_loaded()
    known = {f["id"] for f in ctx.known()}
    status = {}
    for fid, c in WITNESSES:
        c = json.loads(json.dumps(c))
        v_py = te.val_to_py(c["v"])
        i, r_py = impl_run(c["t"], v_py, c["sac"])
        ok, why = classify(c["t"], c["v"], i, v_py, r_py)
        status.setdefault(fid, []).append((not ok, f"TypeParser({te.ty_str(c['t'])})({v_py!r}) -> {i['r']} [{why}]"))
    for fid, l in status.items():
        if fid in known:
            ctx.finding(fid, all(x[0] for x in l), "; ".join(x[1] for x in l))
    run_cases(ctx, [json.loads(json.dumps(c)) for _, c in WITNESSES] + json.loads(json.dumps(CORPUS)))
    n = ctx.pick(4000, 100000)
    for _ in range(max(1, n // 20000)):  # batches keep the driver's input bounded
        run_cases(ctx, [gen_case(ctx.rng) for _ in range(min(n, 20000))])
    run_field_cases(ctx, [json.loads(json.dumps(c)) for _, c in WITNESSES])
    run_field_cases(ctx, [gen_field_case(ctx.rng) for _ in range(ctx.pick(800, 15000))])


def search(ctx):
    run_cases(ctx, [gen_case(ctx.rng) for _ in range(ctx.pick(6000, 60000))])


def replay(ctx, rec):
    if rec["case"].get("field"):
        run_field_cases(ctx, [rec["case"]])
    else:
        run_cases(ctx, [rec["case"]])
