"""C35 — Job lifecycle leaves the process and cache directory consistent (DESIGN §6 C35, engine JobProto §5.4).

Devices: (iv) user-supplied raising `TaskHooks` (no instrumentation), (ii) exception injection at every guarded hook
point (`NIPYPE_PYDRA_VERIF_RAISE=<point>[:n]`), (i) histories of fresh / cached / rerun / failing submissions with
counting hooks.  Everything runs in the harness process (debug worker; the working directory is restored by the
harness after each case); the asynchronous path (`Job.run_async`, workflow under the cf worker) runs in processes
forked from the zygote.  Model side: `raiseAt` the position of the hook / hook point on the GENERATED skeleton.
"""

from __future__ import annotations

import os
import shutil
from pathlib import Path

from harness import core
from harness.engines import jobproto as jp
from harness.extractors import job_skeleton
from harness.extractors.job_skeleton import extract_job_skeleton
from harness.props.C12 import py_positions, static_points

META = {
    "engine": "JobProto",
    "category": "proof",
    "design_ref": "§6 C35, §5.4",
    "technique": "Lean 4: exception-point enumeration on the skeleton REGENERATED from Job.run / Job.run_async (kernel "
    "evaluation), lifted to every initial world by general simulation lemmas; induction over histories for the hook counts; "
    "correspondence by raising TaskHooks and injected exceptions on the real code",
    "text": "Lean theorems: C35_no_fault (+_async): every call without an injected exception — body succeeding or raising any "
    "kind of exception, cached or not — restores the working directory, removes the info file and leaves a complete result "
    "and job record; C35_safe / C35_exact (+_async): over the positions of the regenerated skeleton the postcondition survives an "
    "injected exception IFF the position is not a D20 position (between writing the info file and `try:`, or inside "
    "`finally:` up to os.chdir(cwd)); at every other position (pre-lock hook, try body, except handler, after the "
    "restore) it holds from every initial world; C35_hooks (+_async), unbounded in the history length: pre_run_task and post_run_task are each "
    "called exactly once per entered task body, C35_hooks_call: never on a cache hit.  The full statement "
    "(C35_full_statement: any injection position) is refuted by C35_full_fails with the witnesses C35_witness_pre/_post "
    "(raising pre_run_task / post_run_task hook: info file left, working directory not restored) = known finding D20.",
    "note": "Trusted: Lean kernel; AST skeleton extractor; hand-written action semantics; in-process observation of cwd and files.",
    "rule": "case = (injection: hook name | hook point:occurrence | none, body behaviour, task kind/worker) or a history of "
    "submissions; non-trivial = an injected exception or >= 2 submissions",
    "assumptions": ["hooks and injected exceptions raise Exception subclasses (the guarded points raise VerifInjected(RuntimeError))"],
    "trusted": ["hand-written semantics of the actions (JobProto/Model.lean) and harness/extractors/job_skeleton.py"],
}

_NS = "PydraModel.JobProto."
OBLIGATIONS = [
    _NS + n
    for n in (
        "C35_no_fault",
        "C35_no_fault_async",
        "C35_partial",
        "C35_partial_async",
        "C35_safe",
        "C35_safe_async",
        "C35_exact",
        "C35_exact_async",
        "CheckRunX.extra",
        "CheckAsyncX.extra",
        "CheckRunX.d20Fails",
        "CheckAsyncX.d20Fails",
        "C35_witness_pre",
        "C35_witness_post",
        "C35_witness_pre_async",
        "C35_witness_post_async",
        "C35_full_fails",
        "C35_hooks_call",
        "C35_hooks",
        "C35_hooks_async",
        "CheckRun.tryBody",
        "CheckAsync.tryBody",
        "CheckRun.noFault",
        "CheckAsync.noFault",
        "CheckRun.hooks",
        "CheckAsync.hooks",
        "hooks_history",
        "lifecycle_lift",
    )
]
LEAN_TARGETS = ["PydraModel.Props.C35", "Drivers.JobProto"]
MODEL_TARGETS = ["PydraModel.JobProto.Model", "PydraModel.Gen.JobSkeleton", "PydraModel.DriverUtil", "Drivers.JobProto"]
EXTRACTORS = [extract_job_skeleton]

HOOK_ACT = {"pre_run": "hookPreRun", "pre_run_task": "hookPreRunTask", "post_run_task": "hookPostRunTask", "post_run": "hookPostRun"}


# ------------------------------------------------------------------------------------------------------------------
# where an injection is covered by the theorem / by D20 (decided on the skeleton tree, independently of Lean)


def regions(tree) -> dict:
    """positions of the try body, of the handler, and the span [writeInfo, restoreCwd] of the flattened skeleton"""
    flat = job_skeleton.flatten(tree)
    names = [a[1] if a[0] == "act" else a[0] for a in flat]
    out = {"try": set(), "handler": set()}

    def walk(t, i):
        k = t[0]
        if k in ("act", "vp"):
            return i + 1
        if k == "seq":
            for x in t[1]:
                i = walk(x, i)
            return i
        if k == "try":
            j = walk(t[2], i)
            out["try"] |= set(range(i, j))
            e = walk(t[3], j)
            out["handler"] |= set(range(j, e))
            return walk(t[4], e)
        if k == "lock":
            return walk(t[2], i + 1) + 1
        return walk(t[1], i)

    walk(tree, 0)
    out["first_info"] = names.index("writeInfo")
    out["last_restore"] = len(names) - 1 - names[::-1].index("restoreCwd")
    return out


def d20_region(reg: dict, i: int) -> bool:
    """D20: the statements between writing the info file and `try:`, and the statements of `finally:`, are not
    protected — an exception there skips save / unlink / chdir(cwd)."""
    return reg["first_info"] < i <= reg["last_restore"] and i not in reg["try"] and i not in reg["handler"]


# ------------------------------------------------------------------------------------------------------------------
# cases


def injection_cases(ctx, sk, big: bool) -> list[dict]:
    cases = []
    for body in ("ok", "fail"):
        for h in HOOK_ACT:
            cases.append({"kind": "hook", "hook": h, "body": body, "task": "py", "worker": "debug", "prog": "run"})
    from harness.props.C12 import DEFAULT_POINTS

    pts = static_points(sk["run"]) if sk is not None else list(DEFAULT_POINTS)
    ok_pts = [p for p in pts if not p[0].startswith("error.")]
    fail_pts = [("error.before", 1), ("error.after", 1), ("run.body.before", 1), ("run.save.before", 1), ("save.result.before", 1),
                ("save.job.before", 2), ("run.unlinked", 1)]  # fmt: skip
    if not big:
        ok_pts = ctx.rng.sample(ok_pts, 10)
        fail_pts = ctx.rng.sample(fail_pts, 3)
    for p, o in ok_pts:
        cases.append({"kind": "vp", "point": p, "occ": o, "body": "ok", "task": "py", "worker": "debug", "prog": "run"})
    for p, o in fail_pts:
        cases.append({"kind": "vp", "point": p, "occ": o, "body": "fail", "task": "py", "worker": "debug", "prog": "run"})
    for body in ("ok", "fail", "sysexit"):
        cases.append({"kind": "none", "body": body, "task": "py", "worker": "debug", "prog": "run"})
    return cases


def async_cases(ctx, sk, big: bool) -> list[dict]:
    """`Job.run_async`: the workflow job under the cf worker (runs in the submitting process)."""
    cases = [{"kind": "hook", "hook": h, "body": "ok", "task": "wf", "worker": "cf", "prog": "arun"} for h in ("pre_run_task", "post_run_task")]
    pts = [p for p in static_points(sk["arun"]) if p[0].startswith("arun.")] if sk is not None else [("arun.body.before", 1), ("arun.save.after", 1)]
    for p, o in pts if big else ctx.rng.sample(pts, 2):
        cases.append({"kind": "vp", "point": p, "occ": o, "body": "ok", "task": "wf", "worker": "cf", "prog": "arun"})
    if not big:
        cases = cases[:1] + cases[2:]
    return cases


def history_cases(ctx, big: bool) -> list[dict]:
    steps_pool = ["fresh", "cached", "rerun", "fail", "rerun_fail"]
    out = []
    for _ in range(12 if big else 3):
        n = ctx.rng.randint(2, 6)
        out.append({"kind": "history", "steps": [ctx.rng.choice(steps_pool) for _ in range(n)], "task": "py", "worker": "debug", "prog": "run"})
    return out


# ------------------------------------------------------------------------------------------------------------------
# implementation


def _mk(ctx):
    n = getattr(ctx, "_jp_n", 0)
    ctx._jp_n = n + 1
    b = ctx.scratch / f"c{n}"
    for d in ("ctl", "cache", "v"):
        (b / d).mkdir(parents=True)
    return b


def _spec(case, b):
    spec = {"task": case["task"], "x": 1, "ctl": str(b / "ctl"), "cache": str(b / "cache"), "worker": case["worker"]}
    if case["kind"] == "hook":
        spec["hooks"] = "raise_" + case["hook"]
    else:
        spec["hooks"] = "count"
    return spec


def _env(case, b):
    env = {"NIPYPE_PYDRA_VERIF_DIR": str(b / "v")}
    if case["kind"] == "vp":
        env["NIPYPE_PYDRA_VERIF_RAISE"] = f"{case['point']}:{case['occ']}"
    return env


def _set_body(b, body):
    jp.set_body(str(b / "ctl"), body)


def inproc(spec: dict, env: dict) -> dict:
    """one submission in the harness process with the given verif environment"""
    import pydra.utils.verif_hooks as vh

    saved = {k: os.environ.get(k) for k in list(os.environ) if k.startswith("NIPYPE_PYDRA_VERIF_")}
    for k in saved:
        del os.environ[k]
    os.environ.update(env)
    vh._counts.clear()
    try:
        return jp.run_spec(spec)
    finally:
        for k in env:
            os.environ.pop(k, None)
        os.environ.update({k: v for k, v in saved.items() if v is not None})


def observe_case(spec, rep) -> dict:
    chk = jp.checksum(spec)
    o = jp.observe(spec["cache"], chk, spec["ctl"])
    return {
        "outcome": "ok" if rep["outcome"] == "ok" else "raised",
        "cwd": rep["cwd"],
        "info": o["info"],
        "dir": o["dir"],
        "result": o["result"],
        "jobFile": o["jobFile"],
        "errFile": o["errFile"],
        "execs": o["execs"],
        "hooks": o["hooks"],
        "jobLock": o["jobLock"],
    }


def run_injection(ctx, case, zy=None) -> tuple[dict, dict]:
    b = _mk(ctx)
    _set_body(b, case["body"])
    spec, env = _spec(case, b), _env(case, b)
    if case["worker"] == "debug":
        rep = inproc(spec, env)
    else:
        r = zy.run({**spec, "env": env})
        if r["hang"]:
            rep = {"outcome": "hang", "cwd": "other", "msg": f"no return within {jp.WATCHDOG:.0f} s"}
        elif r["report"] is None:
            raise core.Infra(f"C35: async case ended without a report: {case} {r}")
        else:
            rep = r["report"]
    obs = observe_case(spec, rep)
    obs["exc"] = rep["outcome"]
    shutil.rmtree(b, ignore_errors=True)
    return obs, spec


STEP_ENV = {
    "fresh": (False, None), "cached": (False, None), "rerun": (True, None), "fail": (False, "fail"), "rerun_fail": (True, "fail"),
}  # fmt: skip


def run_history(ctx, case) -> list[dict]:
    b = _mk(ctx)
    spec = _spec(case, b)
    out = []
    for st in case["steps"]:
        rerun, body = STEP_ENV[st]
        _set_body(b, body or "ok")
        rep = inproc({**spec, "rerun": rerun}, {})
        out.append(observe_case(spec, rep))
    shutil.rmtree(b, ignore_errors=True)
    return out


# ------------------------------------------------------------------------------------------------------------------
# model


def injection_query(case, positions) -> dict:
    body = {"ok": None, "fail": False, "sysexit": True}[case["body"]]
    if case["kind"] == "hook":
        fault = {"kind": "raise", "at": jp.act_index(positions, HOOK_ACT[case["hook"]]), "base": False}
    elif case["kind"] == "vp":
        fault = {"kind": "raise", "at": jp.vp_index(positions, case["point"], case["occ"]), "base": False}
    else:
        fault = {"kind": "none"}
    # the caller's view: Submitter.__call__ re-raises only under the debug worker (raise_errors)
    return jp.exec_query(case["prog"], None, {"bodyFails": body}, fault, submit={"raiseErrors": case["worker"] == "debug", "inProcess": True})


def model_view(a: dict) -> dict:
    c = a["core"]
    return {
        "outcome": ("ok" if a["report"] == "outputs" else "raised") if "report" in a else ("ok" if a["ctl"] in ("returning", "normal") else "raised"),
        "cwd": c["cwd"],
        "info": 1 if c["info"] else 0,
        "dir": c["dir"],
        "result": c["result"] if c["dir"] else "absent",
        "jobFile": a["jobFile"] if c["dir"] else "absent",
        "errFile": a["errFile"] if c["dir"] else "absent",
        "execs": a["execs"],
        "hooks": a["hooks"],
        "jobLock": {"free": "free", "mine": "live", "otherDead": "dead", "otherLive": "live"}[c["jobLock"]],
    }


def history_query(case) -> dict:
    steps = []
    for st in case["steps"]:
        rerun, body = STEP_ENV[st]
        steps.append({"env": {"rerun": rerun, "prov": False, "bodyFails": None if body is None else False},
                      "fault": {"kind": "none"}, "submit": None, "then": "next"})  # fmt: skip
    return {"op": "history", "prog": "run", "core": dict(jp.FRESH_CORE), "errInit": "absent", "jobInit": "absent", "steps": steps}


# ------------------------------------------------------------------------------------------------------------------
# oracle: exactly the property


def lifecycle_ok(o: dict) -> tuple[bool, str]:
    if o["cwd"] != "orig":
        return False, "working directory not restored"
    if o["info"] != 0:
        return False, "info file left behind"
    if o["dir"] and not (o["result"] in ("ok", "err", "ok_noout", "err_out") and o["jobFile"] == "complete"):
        return False, f"job directory holds result={o['result']} job record={o['jobFile']}"
    return True, ""


def hooks_ok(prev_execs: int, prev_hooks: list, o: dict) -> tuple[bool, str]:
    new = o["hooks"][len(prev_hooks) :]
    d = o["execs"] - prev_execs
    if new.count("pre_run_task") != d or new.count("post_run_task") != d:
        return False, f"{d} executions but task hooks {new}"
    return True, ""


def run_all(ctx, inj, asy, hist):
    core.assert_repo_loaded()
    sk = jp.safe_skeletons(ctx)
    pos = {"run": py_positions(sk["run"]), "arun": py_positions(sk["arun"])} if sk is not None else None
    reg = {"run": regions(sk["run"]), "arun": regions(sk["arun"])} if sk is not None else None
    zy = jp.Zygote(ctx.scratch) if asy or not getattr(ctx, "_skel_done", False) else None
    try:
        if zy is not None and not getattr(ctx, "_skel_done", False):
            jp.validate_skeleton(ctx, zy, None if pos is None else pos["run"])
            ctx._skel_done = True
        obs_inj = [run_injection(ctx, c)[0] for c in inj]
        obs_asy = [run_injection(ctx, c, zy)[0] for c in asy]
        obs_hist = [run_history(ctx, c) for c in hist]
    finally:
        if zy is not None:
            zy.close()
    ans = None
    if pos is not None:
        queries = [injection_query(c, pos[c["prog"]]) for c in inj + asy] + [history_query(c) for c in hist]
        queries += [{"op": "positions", "prog": "run"}, {"op": "positions", "prog": "arun"}]
        ans = ctx.driver("JobProto", queries)
    if ans is not None:
        for k, pr in ((-2, "run"), (-1, "arun")):
            if ans[k].get("acts") != pos[pr]["acts"]:
                ctx.tie_broken.append({"kind": "positions-mirror", "prog": pr})
    known = {f["id"] for f in ctx.known()}
    for k, (c, o) in enumerate(zip(inj + asy, obs_inj + obs_asy)):
        exc = o.pop("exc")
        a = None if ans is None else ans[k]
        if c["task"] == "py":
            model = None if a is None else ({"error": a["error"]} if "error" in a else model_view(a))
            impl = o
        else:
            # workflow: the node job has its own directory and hooks; compare what concerns the workflow job only
            keys = ("outcome", "cwd", "info", "dir", "result", "jobFile")
            model = None if a is None else ({"error": a["error"]} if "error" in a else {k2: model_view(a)[k2] for k2 in keys})
            impl = {k2: o[k2] for k2 in keys}
        ok, why = lifecycle_ok(o)
        if c["task"] == "py" and c["kind"] == "none":  # hook counts are demanded of runs without injected exceptions
            hk, hwhy = hooks_ok(0, [], o)
            ok, why = (ok and hk), (why or hwhy)
        i = None
        if pos is not None:
            p = pos[c["prog"]]
            if c["kind"] == "hook":
                i = jp.act_index(p, HOOK_ACT[c["hook"]])
            elif c["kind"] == "vp":
                i = jp.vp_index(p, c["point"], c["occ"])
        defect = "D20" if (i is not None and d20_region(reg[c["prog"]], i) and "D20" in known) else None
        ctx.count(f"inject:{c['kind']}/{c['body']}/{c['prog']}")
        if reg is not None:
            ctx.count("region:" + ("none" if i is None else "D20" if d20_region(reg[c["prog"]], i) else "try" if i in reg[c["prog"]]["try"] else "handler" if i in reg[c["prog"]]["handler"] else "outside"))
        ctx.judge({**c, "exception": exc}, impl, model, ok, defect=defect, nontrivial=c["kind"] != "none", what=why or "lifecycle after injection",
                  key=f"{c['prog']}/{c['kind']}/{c.get('hook')}/{c.get('point')}:{c.get('occ')}/{c['body']}")  # fmt: skip
    base = len(inj) + len(asy)
    for k, (c, hs) in enumerate(zip(hist, obs_hist)):
        a = None if ans is None else ans[base + k]
        model = None
        if a is not None:
            if "error" in a:
                model = {"error": a["error"]}
            else:
                model, ex, hk = [], 0, []
                for s in a["steps"]:
                    m = model_view(s)
                    ex += s["execs"]
                    hk = hk + s["hooks"]
                    m["execs"], m["hooks"] = ex, list(hk)
                    model.append(m)
        ok, why, pe, ph = True, "", 0, []
        for o in hs:
            o1, w1 = lifecycle_ok(o)
            o2, w2 = hooks_ok(pe, ph, o)
            if not (o1 and o2):
                ok, why = False, w1 or w2
            pe, ph = o["execs"], o["hooks"]
        ctx.count(f"history-len={len(c['steps'])}")
        ctx.judge(c, hs, model, ok, what=why or "history with counting hooks", key="hist/" + ",".join(c["steps"]))


def d20_witness(ctx):
    """Replay of D20 on the real code with user-supplied raising TaskHooks (no instrumentation)."""
    import json

    res = {}
    p = core.VERIF / "corpus" / "jobproto" / "c35_d20.jsonl"
    for c in [json.loads(line)["case"] for line in p.read_text().splitlines() if line.strip()]:
        o, _ = run_injection(ctx, c)
        res[c["hook"]] = o
    fails = all(not lifecycle_ok(o)[0] for o in res.values())
    detail = "; ".join(f"{h}: cwd={o['cwd']} info={o['info']} result={o['result']}" for h, o in res.items())
    if any(f["id"] == "D20" for f in ctx.known()):
        ctx.finding("D20", fails, detail)
    return fails


def correspondence(ctx):
    sk = jp.safe_skeletons(ctx)
    d20_witness(ctx)
    run_all(ctx, injection_cases(ctx, sk, not ctx.quick), async_cases(ctx, sk, not ctx.quick), history_cases(ctx, not ctx.quick))


def search(ctx):
    sk = jp.safe_skeletons(ctx)
    run_all(ctx, injection_cases(ctx, sk, True), async_cases(ctx, sk, True), history_cases(ctx, True))


def replay(ctx, rec):
    c = rec["case"]
    c = {k: v for k, v in c.items() if k != "exception"}
    if c.get("kind") == "history":
        run_all(ctx, [], [], [c])
    elif c.get("prog") == "arun":
        run_all(ctx, [], [c], [])
    else:
        run_all(ctx, [c], [], [])
