"""C37 — Graph operations keep a valid topological order (DESIGN §6 C37, engine Graph §5.5)."""

from __future__ import annotations

import json

from harness import core

META = {
    "engine": "Graph",
    "category": "proof",
    "design_ref": "§6 C37, §5.5",
    "technique": "Lean 4 invariant proof by induction over operation histories (safety + progress of the sort loop) + differential correspondence on DiGraph",
    "text": "Lean theorems with no bound on history length, nodes or connections: every DiGraph reached by non-raising "
    "add_nodes/add_edges/remove_nodes/remove_nodes_connections/remove_successors_nodes/sorted_nodes calls stores only sorted lists that are a "
    "duplicate-free permutation of the remaining nodes with every node after all its predecessors "
    "(C37_stored_order_valid, invariant by induction); on an acyclic graph reading sorted_nodes always succeeds with such a "
    "list (C37_sorted_nodes: safety of the sort loop unconditionally, progress by a rank argument).  The model is tied to "
    "pydra/engine/graph.py by replaying generated operation histories on the real DiGraph and comparing outcome, nodes, edges, "
    "_node_wip, _sorted_nodes and the predecessors/successors dictionaries after every call.",
    "note": "Trusted: Lean kernel; hand-written model (Graph/Model.lean) in which predecessors/successors are derived from the edge "
    "list (their coherence with the implementation's dictionaries is compared after every call); a history ends at the first raising call.",
    "rule": "case = operation history from the empty graph (<= 12 ops quick / <= 16 thorough, <= 7 nodes) kept acyclic by a hidden rank, "
    "incl. duplicate connections, the remove_nodes/remove_nodes_connections protocol, removal before first sort and ~10% calls "
    "expected to raise; distinct by canonical JSON; non-trivial = >= 2 connections and >= 1 re-sort after the first read",
    "assumptions": ["node names are unique hashable identifiers (DiGraph enforces uniqueness by name)"],
    "trusted": ["model of DiGraph written by hand (Graph/Model.lean), predecessors/successors derived from edges"],
}

_NS = "PydraModel.Graph."
OBLIGATIONS = [
    _NS + n
    for n in (
        "C37_stored_order_valid",
        "C37_sorted_nodes",
        "C37_no_wip",
        "C37_sorting_safe",
        "C37_sorting_progress",
        "C37_remove_before_sort",
        "C37_cycle_raises",
        "C37_remove_successors_regression",
        "C37_old_remove_successors_fails",
    )
]
LEAN_TARGETS = ["PydraModel.Props.C37"]
MODEL_TARGETS = ["PydraModel.Graph.Model", "PydraModel.DriverUtil"]


class N:
    """minimal node object: DiGraph only needs `.name`"""

    def __init__(self, i):
        self.name = f"n{i}"
        self.i = i

    def __repr__(self):
        return self.name


def gen_history(rng, max_ops, max_nodes) -> list:
    rank = list(range(max_nodes))
    rng.shuffle(rank)  # hidden rank keeping the graph acyclic: edge a->b only if rank[a] < rank[b]
    nodes, edges, wip, removed = [], [], [], set()
    ops = []
    expect_raise = False  # set when the generator deliberately appends a call that must raise (it ends the history)
    fresh = list(range(max_nodes))
    rng.shuffle(fresh)
    for _ in range(rng.randint(2, max_ops)):
        r = rng.random()
        bad = rng.random() < 0.1
        if r < 0.25 and fresh:
            k = rng.randint(1, min(3, len(fresh)))
            new = [fresh.pop() for _ in range(k)]
            if bad and nodes:
                new.append(rng.choice(nodes))  # duplicate name -> ValueError
            ops.append(["add_nodes", new])
            if bad and nodes:
                expect_raise = True
                break
            nodes += new
        elif r < 0.55 and len(nodes) >= 2:
            new = []
            for _ in range(rng.randint(1, 3)):
                a, b = rng.sample(nodes, 2)
                if rank[a] > rank[b]:
                    a, b = b, a
                new.append([a, b])
            if bad and removed:
                new.append([rng.choice(sorted(removed)), nodes[0]])  # endpoint not in graph -> Exception
                ops.append(["add_edges", new])
                expect_raise = True
                break
            ops.append(["add_edges", new])
            if wip and any(e[0] in wip for e in edges):
                expect_raise = True
                break  # add_edges re-validates old connections of nodes pending removal: raises
            edges += new
        elif r < 0.75 and nodes:
            ready = [n for n in nodes if not any(e[1] == n for e in edges)]
            if bad:
                cand = [n for n in nodes if n not in ready] or sorted(removed)
                if cand:
                    ops.append(["remove_nodes", [rng.choice(cand)]])
                    expect_raise = True
                    break
            if ready:
                k = 1 if rng.random() < 0.7 else min(2, len(ready))
                rm = rng.sample(ready, k)
                ops.append(["remove_nodes", rm])
                for n in rm:
                    nodes.remove(n)
                    wip.append(n)
                    removed.add(n)
        elif r < 0.9 and wip and rng.random() < 0.5:
            # remove_successors_nodes on a node marked for removal: drops its connections and every successor
            n = rng.choice(wip)
            ops.append(["remove_successors", n])
            desc, todo = set(), [n]
            while todo:
                a = todo.pop()
                for e in edges:
                    if e[0] == a and e[1] not in desc:
                        desc.add(e[1])
                        todo.append(e[1])
            wip.remove(n)
            gone = {d for d in desc if d in nodes}
            nodes = [x for x in nodes if x not in gone]
            removed |= gone
            edges = [e for e in edges if e[0] != n and e[1] not in gone]
        elif r < 0.9 and wip:
            k = 1 if rng.random() < 0.7 else len(wip)
            rc = wip[:k] if rng.random() < 0.5 else rng.sample(wip, k)
            ops.append(["remove_conn", rc])
            for n in rc:
                wip.remove(n)
                edges = [e for e in edges if e[0] != n]
        else:
            ops.append(["read"])
    if not expect_raise:
        ops.append(["read"])
    return {"ops": ops, "expect_raise": expect_raise}


def names(l):
    return [n.i for n in l]


def impl_trace(ops):
    from pydra.engine.graph import DiGraph

    g = DiGraph(name="g")
    objs = {}

    def nd(i):
        if i not in objs:
            objs[i] = N(i)
        return objs[i]

    trace, coherent = [], True
    for op in ops:
        try:
            if op[0] == "add_nodes":
                # a duplicate *name* must be a distinct object with the same name
                new = [nd(i) if nd(i) not in g.nodes else N(i) for i in op[1]]
                g.add_nodes(new)
            elif op[0] == "add_edges":
                g.add_edges([(nd(a), nd(b)) for a, b in op[1]])
            elif op[0] == "remove_nodes":
                g.remove_nodes([nd(i) for i in op[1]])
            elif op[0] == "remove_conn":
                g.remove_nodes_connections([nd(i) for i in op[1]])
            elif op[0] == "read":
                g.sorted_nodes
            elif op[0] == "remove_successors":
                g.remove_successors_nodes(nd(op[1]))
            out = "ok"
        except Exception as e:  # canonical: class name only
            out = core.exc_tag(e)
        st = {
            "nodes": names(g.nodes),
            "edges": [[a.i, b.i] for a, b in g.edges],
            "wip": names(g._node_wip),
            "sorted": None if g._sorted_nodes is None else names(g._sorted_nodes),
        }
        # coherence of the dictionaries with the edge list (the model derives them)
        if out == "ok":
            for n in g.nodes:
                want_p = [a.i for a, b in g.edges if b is n]
                want_s = [b.i for a, b in g.edges if a is n]
                if names(g.predecessors.get(n.name, [])) != want_p or sorted(names(g.successors.get(n.name, []))) != sorted(want_s):
                    coherent = False
        trace.append({"outcome": out, "state": st})
        if out != "ok":
            break
    return trace, coherent


def order_ok(st) -> bool:
    """The property, on one observed state: sorted list = each remaining node once, predecessors first."""
    s = st["sorted"]
    if s is None:
        return True
    if sorted(s) != sorted(st["nodes"]) or len(set(s)) != len(s):
        return False
    pos = {n: i for i, n in enumerate(s)}
    return all(pos[a] < pos[b] for a, b in st["edges"] if a in pos and b in pos)


def run_cases(ctx, cases):
    impls = [impl_trace(c["ops"]) for c in cases]
    ans = ctx.driver("Graph", [{"ops": c["ops"]} for c in cases])
    for k, (c, (tr, coherent)) in enumerate(zip(cases, impls)):
        model = ans[k]["trace"] if ans is not None and "trace" in ans[k] else None
        if ans is not None and model is None:
            ctx.tie_broken.append({"kind": "model-driver", "detail": ans[k]})
        # the property: every stored order is valid, and the history's final read on an acyclic graph succeeds
        raised = tr[-1]["outcome"] != "ok"
        spec_ok = all(order_ok(t["state"]) for t in tr if t["outcome"] == "ok") and coherent
        if not raised:
            spec_ok = spec_ok and tr[-1]["state"]["sorted"] is not None
        if raised != bool(c.get("expect_raise", False)):
            # a call of a valid history on an acyclic graph raised (or a call that must be refused was accepted)
            spec_ok = False
        resorts = sum(1 for i, op in enumerate(c["ops"][: len(tr)]) if op[0] != "read" and i > 0 and tr[i - 1]["state"]["sorted"] is not None)
        n_edges = max((len(t["state"]["edges"]) for t in tr), default=0)
        ctx.count("raised:" + tr[-1]["outcome"] if raised else "completed")
        ctx.count(f"ops={len(c['ops'])}")
        ctx.judge(c, tr, model, spec_ok, nontrivial=(n_edges >= 2 and resorts >= 1), what="DiGraph history")


# corpus: witnesses of the repaired defects D27 (remove before first sort) and D12 (cycle must raise, not hang)
CORPUS = [
    {"ops": [["add_nodes", [0, 1]], ["remove_nodes", [0]], ["remove_conn", [0]], ["read"]]},
    {"ops": [["add_nodes", [0]], ["remove_nodes", [0]], ["read"]]},
    {"ops": [["add_nodes", [3, 1]], ["read"], ["add_nodes", [2, 0]], ["add_edges", [[0, 1], [0, 2]]], ["add_edges", [[1, 3], [2, 3]]],
             ["remove_nodes", [0]], ["remove_conn", [0]], ["read"]]},
]
CORPUS += [
    # D71 (repaired): successors listed depth-first in another order than the sorted list
    {"ops": [["add_nodes", [0, 1, 3, 2]], ["add_edges", [[0, 1], [1, 2], [1, 3]]], ["read"], ["remove_nodes", [0]],
             ["remove_successors", 0], ["read"]]},
    {"ops": [["add_nodes", [0, 1, 2, 3, 4]], ["add_edges", [[0, 1], [1, 2], [3, 4], [3, 2]]], ["read"], ["remove_nodes", [0]],
             ["remove_successors", 0], ["read"]]},
]
CYCLE = {"ops": [["add_nodes", [0, 1]], ["add_edges", [[0, 1], [1, 0]]], ["read"]], "expect_raise": True}


def correspondence(ctx):
    core.assert_repo_loaded()
    run_cases(ctx, CORPUS)
    # the cyclic witness is run in a watchdog child: on a tree without the D12 repair it would hang
    import subprocess
    import sys

    code = (
        "import json,sys\nfrom harness.props.C37 import impl_trace, CYCLE\n"
        "print(json.dumps(impl_trace(CYCLE['ops'])[0][-1]['outcome']))\n"
    )
    try:
        p = subprocess.run([core.PY, "-c", code], env=core.impl_env(), capture_output=True, text=True, timeout=20)
        out = json.loads(p.stdout.strip().splitlines()[-1]) if p.returncode == 0 else "crash:" + p.stderr[-300:]
    except subprocess.TimeoutExpired:
        out = "HANG"
    ctx.extra["cycle_witness_outcome"] = out
    ctx.judge(CYCLE, out, "ValueError", out not in ("HANG", "ok"), what="sorting a cyclic graph must raise, not hang")
    n = ctx.pick(600, 8000)
    mo, mn = ctx.pick((12, 6), (16, 7))
    run_cases(ctx, [gen_history(ctx.rng, mo, mn) for _ in range(n)])


def search(ctx):
    run_cases(ctx, [gen_history(ctx.rng, 16, 7) for _ in range(ctx.pick(5000, 20000))])


def replay(ctx, rec):
    run_cases(ctx, [rec["case"]])
