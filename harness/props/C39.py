"""C39 — Lmod environments add module settings to the caller's environment (DESIGN §6 C39, engine Envs §5.7).

Two layers, both compared with the Lean model (`lean/PydraModel/Envs/Lmod.lean`, driver `Drivers/Envs.lean`):

  parser  the regex source string read from `Lmod.execute` on this run, applied with CPython's `re.findall` to
          adversarial text  vs  the hand-written matcher `parseLmod`
  hist    several jobs on ONE `lmod.Environment` object, the caller environment / `modules` changed in between, the fake
          lmod computing prepends from the environment it runs in  vs  `runObj stepTree` (= single-run semantics per job)
  e2e     a fake `$MODULESHOME/libexec/lmod` printing generated assignment lines; a shell task whose executable is a
          dumper script run through `lmod.Environment` in a generated caller environment; the child's argv and
          environment (`env -0`) vs  `lmodEnv caller out`  vs  the spec oracle
          (caller environment updated with the *intended* assignments; argv equal to the native run's)
"""

from __future__ import annotations

import json
import os
import re
from pathlib import Path
from unittest import mock

from harness import core
from harness.engines import envs
from harness.extractors.env_regexes import extract_env_regexes, read_lmod

META = {
    "engine": "Envs",
    "category": "proof",
    "design_ref": "§6 C39, §5.7",
    "technique": "Lean 4 theorems (environment-update algebra by induction over the assignment list; parser round trip by "
    "induction over rendered lines) + regex/source pins regenerated from /repo + differential correspondence with a fake lmod",
    "text": "Lean theorems for caller environments and lmod outputs of any size: the child environment is the caller's "
    "environment overridden by exactly the assignments read from lmod's output, untouched variables pass through "
    "(C39_env_full, C39_untouched, C39_env_nodup); the argv is the native one (C39_argv); what a simulated lmod prints is "
    "read back exactly for keys/values without quote characters and newlines, any number of lines, either quote style "
    "(C39_parse, C39_rendered); witnesses that a value containing a quote or an escape is cut or not unescaped by the "
    "non-greedy regex (C39_witness_quote, C39_witness_escaped; known finding D23q).  The regex string, the expression the "
    "child environment starts from and the argv expression are regenerated from pydra/environments/lmod.py on every run "
    "and pinned by `rfl` (C39_regex_pinned, C39_source_pinned, C39_space_pinned).  No state is carried between jobs on one Lmod object: the k-th job of "
    "any history gets the single-run semantics on the k-th (modules, caller environment) (C39_history_independent, "
    "C39_prefix_irrelevant; object fields / self-writes / load call regenerated: C39_stateless_pinned; witness for a memoising "
    "variant C39_witness_memo).  The failure test on the command's return code is regenerated "
    "and shown to fail on every non-zero status, death by signal included (C39_rc_pinned, C39_nonzero_fails); the end-to-end "
    "runs include commands that exit non-zero or kill themselves.",
    "note": "Trusted: Lean kernel; hand-written matcher for the regex (compared with CPython's re on the extracted regex string on "
    "every run); the fake lmod and the dumper; /bin/sh (dash) resets PWD, which is therefore excluded from the comparison.",
    "rule": "history case = 2-4 jobs on one Lmod object with (caller environment, modules) per job, non-trivial when something changed between jobs; parser case = text; e2e case = (caller environment, intended assignments with quoting/spelling per line, junk lines, argv); "
    "distinct by canonical JSON; an e2e case is non-trivial when at least one assignment is read and the caller environment has "
    "a variable the assignments do not touch or one they override",
    "assumptions": [
        "variable names are shell identifiers ([A-Za-z_][A-Za-z0-9_]*): /bin/sh, used as the dumper's interpreter, does not pass on other names",
        "PWD is excluded from the comparison (the dumper's shell sets it); values contain no NUL",
        "in history cases the caller environment always has PATH (the fake lmod's /bin/sh substitutes a default PATH when there is none)",
        "module output is UTF-8 text; only `os.environ[...] = ...` assignments are in scope (Lmod's `del os.environ[...]` for unsets is outside the property)",
    ],
    "trusted": ["model of Lmod.execute's regex written by hand (Envs/Lmod.lean), compared with CPython re on every run"],
}

_NS = "PydraModel.Envs.Lmod."
OBLIGATIONS = [
    _NS + n
    for n in (
        "C39_regex_pinned",
        "C39_space_pinned",
        "C39_source_pinned",
        "C39_env_full",
        "C39_untouched",
        "C39_env_nodup",
        "C39_argv",
        "C39_parse",
        "C39_rendered",
        "C39_plain_unescaped",
        "C39_stateless_pinned",
        "C39_history_independent",
        "C39_prefix_irrelevant",
        "C39_witness_memo",
        "C39_rc_pinned",
        "C39_nonzero_fails",
        "C39_witness_quote",
        "C39_witness_escaped",
        "C39_witness_pinned_env",
    )
]
LEAN_TARGETS = ["PydraModel.Props.C39"]
MODEL_TARGETS = ["PydraModel.Envs.Lmod", "PydraModel.DriverUtil"]
EXTRACTORS = [extract_env_regexes]

KEYS = ["HOME", "PATH", "LANG", "KEEPME", "MODVAR", "LD_LIBRARY_PATH", "X1", "_x", "LMOD_CMD", "A", "Ab_9", "LOADEDMODULES", "MANPATH", "EMPTY"]
SAFE = "abcXYZ019/:._-+,@%"
ODD = " =;[]()#$*~\t<>|&éß→"
QUOTEY = "'\"\\"


def gen_value(rng, quotey: bool) -> str:
    n = rng.choice([0, 1, 2, 3, 5, 8, 13, 30])
    alpha = SAFE * 3 + ODD + (QUOTEY * 2 if quotey else "")
    s = "".join(rng.choice(alpha) for _ in range(n))
    if quotey and not envs.quote_active(s):
        i = rng.randrange(len(s) + 1)
        s = s[:i] + rng.choice(["'", '"', "\\", "it's", 'say "hi"', "a\\b", "\n"]) + s[i:]
    return s


def gen_e2e(rng, p_quotey: float) -> dict:
    caller = {}
    for k in rng.sample(KEYS, rng.choice([0, 1, 2, 3, 5, 8])):
        caller[k] = gen_value(rng, rng.random() < 0.2)  # the caller's own values may contain anything
    lines = []
    n = rng.choice([0, 1, 1, 2, 3, 4, 6])
    quotey_case = rng.random() < p_quotey
    for _ in range(n):
        r = rng.random()
        if r < 0.25 and caller:
            k = rng.choice(sorted(caller))  # override
        else:
            k = rng.choice(KEYS + ["NEW1", "NEW_2", "Z9"])
        if k == "PATH" or (rng.random() < 0.15 and k in caller and not envs.quote_active(caller[k])):
            v = "/opt/mod/bin:" + caller.get(k, "")  # prepend
        else:
            v = gen_value(rng, quotey_case and rng.random() < 0.6)
        lines.append(
            {
                "k": k,
                "v": v,
                "kq": rng.choice(envs.QUOTES),
                "style": rng.choice(["single", "double", "repr"]),
                "sp1": rng.choice(["", " ", "  ", "\t"]),
                "sp2": rng.choice(["", " ", " ", "\t "]),
                "end": rng.choice([";\n", "\n", ";\n", "; "]),
            }
        )
    junk = rng.sample(["import os\n", "_mlstatus = True\n", "# os.environ\n", "os.environ.get('HOME')\n", "__x = 'os.environ'\n", "\n"], rng.choice([0, 1, 2]))
    argv = [rng.choice(["a", "-x", "--flag=1", "plain", "7", "é"]) for _ in range(rng.choice([0, 1, 2, 3]))]
    # how the executed command ends: status 0, a non-zero status, or death by a signal (negative return code)
    end = ["exit", 0] if rng.random() < 0.75 else rng.choice([["exit", 1], ["exit", 3], ["exit", 255], ["kill", 15], ["kill", 9], ["kill", 2]])
    return {"kind": "e2e", "caller": caller, "lines": lines, "junk": junk, "junk_pos": rng.randrange(3), "argv": argv, "end": end}


def render_value(l: dict) -> str:
    if l["style"] == "repr":
        return repr(l["v"])  # CPython's own choice of quote and escapes
    return envs.py_quote(l["v"], "'" if l["style"] == "single" else '"')


def render_line(l: dict) -> str:
    val = render_value(l)
    return f"os.environ[{l['kq']}{l['k']}{l['kq']}]{l['sp1']}={l['sp2']}{val}{l['end']}"


def render_output(case: dict) -> str:
    body = [render_line(l) for l in case["lines"]]
    junk = case["junk"]
    pos = case["junk_pos"]
    if pos == 0:
        parts = junk + body
    elif pos == 1:
        parts = body + junk
    else:
        parts = body[: len(body) // 2] + junk + body[len(body) // 2 :]
    text = "".join(parts)
    if not text.endswith("\n"):
        text += "\n"
    return text + "_mlstatus = True\n"


def d23q_match(case: dict) -> bool:
    """known finding D23q: some assigned value is not printed verbatim between the quotes (the printing lmod escaped
    something: backslash, quote, newline; with repr also tab / control / non-printable characters) or contains a quote
    character of either kind (which ends the lazy capture)"""
    return any(render_value(l)[1:-1] != l["v"] or "'" in l["v"] or '"' in l["v"] or envs.quote_active(l["k"]) for l in case["lines"])


PARSER_FRAGMENTS = [
    "os.environ[",
    "os.environ['",
    'os.environ["',
    "os_environ[",
    "'",
    '"',
    "]",
    "=",
    " ",
    "\n",
    "\t",
    ";",
    "] = '",
    '"] = "',
    "'] ='",
    "\\",
    "\\'",
    "A",
    "PATH",
    "x y",
    "/opt/bin:",
    "é",
    " ",
    " ",
    "\x1c",
    "\r",
    "\x0b",
    "==",
    "[",
    "os.environ['A'] = 'b'",
    'os.environ["K"]="v";',
]


def gen_parser_text(rng) -> str:
    return "".join(rng.choice(PARSER_FRAGMENTS) for _ in range(rng.choice([1, 2, 3, 5, 8, 12, 20])))


# --------------------------------------------------------------------------------------


class Rig:
    """fake lmod + dumper in the scratch directory, one pydra run per call"""

    def __init__(self, ctx):
        import tempfile

        self.root = Path(tempfile.mkdtemp(prefix="c39-", dir=ctx.scratch))
        self.out_file = self.root / "lmod.out"
        self.lmod_argv = self.root / "lmod.argv"
        self.argv_file = self.root / "child.argv"
        self.env_file = self.root / "child.env"
        self.home = self.root / "modhome"
        envs.make_fake_lmod(self.home, self.out_file, self.lmod_argv)
        self.dumper = envs.make_dumper(self.root / "dumper.sh", self.argv_file, self.env_file)
        self.hash_cache = self.root / "hashcache"
        self.hash_cache.mkdir(exist_ok=True)
        self.n = 0
        from pydra.compose import shell

        self.Task = shell.define(str(self.dumper))

    def fixed_env(self) -> dict:
        return {"MODULESHOME": str(self.home), "PYDRA_HASH_CACHE": str(self.hash_cache)}

    def run(self, caller: dict, text: str | None, argv: list[str], end=None):
        """text None = native environment.  Returns (child argv, child env, exception tag, lmod argv)"""
        from pydra.environments import lmod, native

        ctl = Path(str(self.argv_file) + ".ctl")
        for f in (self.argv_file, self.env_file, self.lmod_argv, ctl):
            f.unlink(missing_ok=True)
        if end and end != ["exit", 0]:
            ctl.write_text(f"{end[0]} {end[1]}\n")
        self.n += 1
        cache = self.root / f"cache{self.n}"
        env = dict(caller)
        env.update(self.fixed_env())
        exc = None
        with mock.patch.dict(os.environ, env, clear=True):
            if text is not None:
                self.out_file.write_text(text, encoding="utf-8")
                environment = lmod.Environment(modules=["mymod/1.0", "other"])
            else:
                environment = native.Environment()
            try:
                self.Task(append_args=list(argv))(cache_root=cache, worker="debug", environment=environment)
            except Exception as e:  # noqa: BLE001
                exc = core.exc_tag(e)
        return envs.read_nul(self.argv_file), envs.read_env(self.env_file), exc, envs.read_nul(self.lmod_argv)


def canon_env(e: dict | None):
    if e is None:
        return None
    return sorted([k, v] for k, v in e.items() if k != "PWD")


def run_e2e(ctx, rig: Rig, cases: list[dict]):
    impls = []
    for c in cases:
        text = render_output(c)
        n_argv, n_env, n_exc, _ = rig.run(c["caller"], None, c["argv"])
        l_argv, l_env, l_exc, lm_argv = rig.run(c["caller"], text, c["argv"], c.get("end"))
        impls.append({"text": text, "native": (n_argv, n_env, n_exc), "lmod": (l_argv, l_env, l_exc), "lmod_argv": lm_argv})
    q = []
    for c, i in zip(cases, impls):
        caller = dict(c["caller"])
        caller.update(rig.fixed_env())
        q.append({"op": "lmod_env", "caller": [[k, v] for k, v in caller.items()], "text": i["text"]})
        end = c.get("end") or ["exit", 0]
        q.append({"op": "rc_fails", "env": "lmod", "rc": end[1] if end[0] == "exit" else -end[1]})
    ans = ctx.driver("Envs", q)
    for k, (c, i) in enumerate(zip(cases, impls)):
        n_argv, n_env, n_exc = i["native"]
        l_argv, l_env, l_exc = i["lmod"]
        impl = {"env": canon_env(l_env), "argv_same": l_argv == n_argv and n_exc is None, "exc": l_exc}
        model = None
        if ans is not None:
            a, rcf = ans[2 * k], ans[2 * k + 1]
            if "error" in a or "error" in rcf:
                ctx.tie_broken.append({"kind": "model-driver", "detail": a.get("error") or rcf.get("error"), "case": c})
            else:
                model = {"env": sorted(p for p in a["env"] if p[0] != "PWD"), "argv_same": True, "exc": "RuntimeError" if rcf["fails"] else None}
        # spec oracle (independent of the model): caller's environment updated by the intended assignments, in order
        want = dict(c["caller"])
        want.update(rig.fixed_env())
        for l in c["lines"]:
            want[l["k"]] = l["v"]
        want.pop("PWD", None)
        end = c.get("end") or ["exit", 0]
        ctx.count(f"e2e:end={end[0]}{end[1]}")
        spec_ok = (
            l_exc == (None if end == ["exit", 0] else "RuntimeError")  # any non-zero status or a signal is a failure
            and n_exc is None
            and l_env is not None
            and canon_env(l_env) == sorted([k, v] for k, v in want.items())
            and l_argv == n_argv == list(c["argv"])
            and n_env is not None
            and canon_env(n_env) == sorted([k, v] for k, v in {**c["caller"], **rig.fixed_env()}.items() if k != "PWD")
            and i["lmod_argv"] == ["python", "load", "mymod/1.0", "other"]
        )
        touched = {l["k"] for l in c["lines"]}
        nontrivial = bool(c["lines"]) and (bool(set(c["caller"]) - touched) or bool(set(c["caller"]) & touched))
        ctx.count(f"e2e:lines={min(len(c['lines']), 5)}")
        ctx.count(f"e2e:caller_vars={min(len(c['caller']), 6)}")
        ctx.count("e2e:override" if set(c["caller"]) & touched else "e2e:no-override")
        if any(l["v"].startswith("/opt/mod/bin:") for l in c["lines"]):
            ctx.count("e2e:prepend")
        for l in c["lines"]:
            ctx.count(f"e2e:style={l['style']}")
        quotey = d23q_match(c)
        if quotey:
            ctx.count("e2e:quote-active-value")
        ctx.judge(c, impl, model, spec_ok, nontrivial=nontrivial, defect="D23q" if quotey else None, what="Lmod.execute end to end")


def run_parser(ctx, texts: list[str]):
    regex = read_lmod()["regex"]
    pat = re.compile(regex)
    ans = ctx.driver("Envs", [{"op": "parse", "text": t} for t in texts])
    for k, t in enumerate(texts):
        impl = [list(m) for m in pat.findall(t)]
        model = None
        if ans is not None:
            model = ans[k].get("pairs")
            if model is None:
                ctx.tie_broken.append({"kind": "model-driver", "detail": ans[k], "case": t})
        ctx.count(f"parser:matches={min(len(impl), 3)}")
        ctx.judge({"kind": "parser", "text": t}, impl, model, True, nontrivial=len(impl) > 0, what="re.findall(regex of Lmod.execute) vs parseLmod")


# --------------------------------------------------------------------------------------
# histories: several jobs on ONE Lmod object, the caller's environment (and `modules`) changed in between; the fake
# lmod computes prepends from the environment it runs in

MODSPECS = {
    "tool/1.0": [["prepend", "PATH", "/opt/tool/1.0/bin"], ["setenv", "TOOL_HOME", "/opt/tool/1.0"]],
    "libs/2.3": [["prepend", "LD_LIBRARY_PATH", "/opt/libs/2.3/lib"]],
    "gcc/9": [["prepend", "PATH", "/opt/gcc/9/bin"], ["prepend", "MANPATH", "/opt/gcc/9/man"], ["setenv", "CC", "gcc-9"]],
    "both": [["prepend", "PATH", "/b/bin"], ["prepend", "PATH", "/b/sbin"], ["setenv", "X1", "from both"]],
}
HIST_KEYS = ["PATH", "LD_LIBRARY_PATH", "MANPATH", "HOME", "KEEPME", "CC", "X1", "TOOL_HOME", "LANG"]


def gen_hist(rng) -> dict:
    nruns = rng.choice([2, 2, 3, 4])
    runs = []
    caller = {k: "/" + "".join(rng.choice(SAFE) for _ in range(rng.choice([1, 3, 6]))) for k in rng.sample(HIST_KEYS, rng.choice([1, 2, 4]))}
    caller.setdefault("PATH", "/usr/bin:/bin")  # /bin/sh (the fake lmod's interpreter) invents a PATH when there is none
    mods = rng.sample(sorted(MODSPECS), rng.choice([1, 1, 2]))
    for _ in range(nruns):
        runs.append({"caller": dict(caller), "modules": list(mods)})
        # what a user does between two jobs: extend a path variable, set or drop a variable, ask for other modules
        for _ in range(rng.choice([1, 1, 2])):
            r = rng.random()
            k = rng.choice(HIST_KEYS)
            if r < 0.4:
                caller[k] = "/new" + str(rng.randrange(9)) + ((":" + caller[k]) if caller.get(k) else "")
            elif r < 0.6:
                caller[k] = "/set" + str(rng.randrange(9))
            elif r < 0.75 and k != "PATH":
                caller.pop(k, None)
            elif r < 0.9:
                mods = rng.sample(sorted(MODSPECS), rng.choice([1, 2]))
    return {"kind": "hist", "runs": runs, "argv": [rng.choice(["a", "-x", "7"]) for _ in range(rng.choice([0, 1, 2]))]}


def intended(modules: list[str], env: dict) -> dict:
    """what loading the modules in environment `env` means (independent of lmod's printing and of the regex)"""
    out = dict(env)
    for m in modules:
        for op, var, val in MODSPECS[m]:
            out[var] = val if op == "setenv" else (val + ":" + out[var] if out.get(var) else val)
    return out


class HistRig:
    def __init__(self, ctx):
        import tempfile

        self.root = Path(tempfile.mkdtemp(prefix="c39h-", dir=ctx.scratch))
        self.mods = self.root / "mods"
        for name, spec in MODSPECS.items():
            f = self.mods / name
            f.parent.mkdir(parents=True, exist_ok=True)
            f.write_text("".join(" ".join(l) + "\n" for l in spec))
        self.lmod_argv = self.root / "lmod.argv"
        self.argv_file = self.root / "child.argv"
        self.env_file = self.root / "child.env"
        self.home = self.root / "modhome"
        self.lmod = envs.make_dyn_lmod(self.home, self.mods, self.lmod_argv)
        self.dumper = envs.make_dumper(self.root / "dumper.sh", self.argv_file, self.env_file)
        self.hash_cache = self.root / "hashcache"
        self.hash_cache.mkdir()
        self.n = 0
        from pydra.compose import shell

        self.Task = shell.define(str(self.dumper))

    def fixed_env(self) -> dict:
        return {"MODULESHOME": str(self.home), "PYDRA_HASH_CACHE": str(self.hash_cache)}

    def run_history(self, case: dict):
        import subprocess

        from pydra.environments import lmod

        obj = None
        out = []
        for r in case["runs"]:
            env = dict(r["caller"])
            env.update(self.fixed_env())
            # what the lmod executable answers for (modules, this environment): asked directly, outside pydra
            text = subprocess.run([str(self.lmod), "python", "load", *r["modules"]], env=env, capture_output=True, text=True, timeout=120).stdout
            for f in (self.argv_file, self.env_file, self.lmod_argv):
                f.unlink(missing_ok=True)
            self.n += 1
            exc = None
            with mock.patch.dict(os.environ, env, clear=True):
                if obj is None:
                    obj = lmod.Environment(modules=list(r["modules"]))  # ONE object for the whole history
                else:
                    obj.modules = list(r["modules"])
                try:
                    self.Task(append_args=list(case["argv"]) + [f"run{self.n}"])(cache_root=self.root / f"cache{self.n}", worker="debug", environment=obj)
                except Exception as e:  # noqa: BLE001
                    exc = core.exc_tag(e)
            out.append({"env": envs.read_env(self.env_file), "argv": envs.read_nul(self.argv_file), "exc": exc, "text": text, "full_caller": env, "tag": f"run{self.n}"})
        return out


def run_hist(ctx, rig: HistRig, cases: list[dict]):
    obs = [rig.run_history(c) for c in cases]
    q = []
    for c, o in zip(cases, obs):
        q.append({"op": "lmod_history", "runs": [{"mods": r["modules"], "caller": [[k, v] for k, v in x["full_caller"].items()], "text": x["text"]} for r, x in zip(c["runs"], o)]})
    ans = ctx.driver("Envs", q)
    for k, (c, o) in enumerate(zip(cases, obs)):
        impl = [{"env": canon_env(x["env"]), "exc": x["exc"]} for x in o]
        model = None
        if ans is not None:
            if "error" in ans[k]:
                ctx.tie_broken.append({"kind": "model-driver", "detail": ans[k]["error"], "case": c})
            else:
                model = [{"env": sorted(p for p in e if p[0] != "PWD"), "exc": None} for e in ans[k]["tree"]]
        # oracle: every job sees ITS caller environment with the modules loaded in THAT environment, and its own argv
        ok = True
        for r, x in zip(c["runs"], o):
            want = intended(r["modules"], x["full_caller"])
            want.pop("PWD", None)
            ok = ok and x["exc"] is None and x["env"] is not None and canon_env(x["env"]) == sorted([a, b] for a, b in want.items())
            ok = ok and x["argv"] == list(c["argv"]) + [x["tag"]]
        changed = any(a["caller"] != b["caller"] or a["modules"] != b["modules"] for a, b in zip(c["runs"], c["runs"][1:]))
        ctx.count(f"hist:runs={len(c['runs'])}")
        ctx.count("hist:env-or-modules-changed" if changed else "hist:unchanged")
        ctx.judge(c, impl, model, ok, nontrivial=changed, what="jobs on one Lmod object")


W_HIST = {
    "kind": "hist",
    "runs": [
        {"caller": {"PATH": "/usr/bin:/bin", "HOME": "/home/u"}, "modules": ["tool/1.0"]},
        {"caller": {"PATH": "/home/u/bin:/usr/bin:/bin", "HOME": "/home/u", "LD_LIBRARY_PATH": "/usr/lib"}, "modules": ["tool/1.0"]},
        {"caller": {"PATH": "/home/u/bin:/usr/bin:/bin", "HOME": "/home/u", "LD_LIBRARY_PATH": "/usr/lib"}, "modules": ["tool/1.0", "libs/2.3"]},
    ],
    "argv": ["a"],
}


# corpus: the D23 witness of DESIGN §7 (now a regression case for the inheritance; its quoting half is D23q)
W_INHERIT = {
    "kind": "e2e",
    "caller": {"KEEPME": "yes", "HOME": "/home/u", "PATH": "/usr/bin:/bin"},
    "lines": [
        {"k": "MODVAR", "v": "from-module", "kq": "'", "style": "single", "sp1": " ", "sp2": " ", "end": ";\n"},
        {"k": "PATH", "v": "/opt/mod/bin:/usr/bin:/bin", "kq": "'", "style": "single", "sp1": " ", "sp2": " ", "end": "\n"},
    ],
    "junk": [],
    "junk_pos": 1,
    "argv": ["a", "-x"],
}
W_QUOTE = {
    "kind": "e2e",
    "caller": {"KEEPME": "yes"},
    "lines": [
        {"k": "Q1", "v": "it's", "kq": '"', "style": "double", "sp1": " ", "sp2": " ", "end": ";\n"},
        {"k": "Q2", "v": "it's", "kq": "'", "style": "single", "sp1": " ", "sp2": " ", "end": ";\n"},
        {"k": "B", "v": "a\\b", "kq": "'", "style": "repr", "sp1": " ", "sp2": " ", "end": ";\n"},
    ],
    "junk": [],
    "junk_pos": 1,
    "argv": [],
}


def correspondence(ctx):
    core.assert_repo_loaded()
    rig = Rig(ctx)
    # corpus first
    l_argv, l_env, l_exc, _ = rig.run(W_QUOTE["caller"], render_output(W_QUOTE), [])
    still = l_env is not None and (l_env.get("Q1") != "it's" or l_env.get("Q2") != "it's" or l_env.get("B") != "a\\b")
    if any(f["id"] == "D23q" for f in ctx.known()):
        ctx.finding("D23q", still, f"child sees Q1={l_env.get('Q1')!r} Q2={l_env.get('Q2')!r} B={l_env.get('B')!r}" if l_env else f"no child env ({l_exc})")
    run_e2e(ctx, rig, [W_INHERIT, W_QUOTE, dict(W_INHERIT, end=["kill", 9]), dict(W_INHERIT, end=["exit", 2])])
    n_e2e = ctx.pick(220, 1200)
    run_e2e(ctx, rig, [gen_e2e(ctx.rng, 0.25) for _ in range(n_e2e)])
    hrig = HistRig(ctx)
    run_hist(ctx, hrig, [W_HIST] + [gen_hist(ctx.rng) for _ in range(ctx.pick(25, 300))])
    n_p = ctx.pick(4000, 60000)
    run_parser(ctx, [gen_parser_text(ctx.rng) for _ in range(n_p)])


def search(ctx):
    run_hist(ctx, HistRig(ctx), [W_HIST] + [gen_hist(ctx.rng) for _ in range(ctx.pick(40, 200))])
    rig = Rig(ctx)
    run_e2e(ctx, rig, [gen_e2e(ctx.rng, 0.0) for _ in range(ctx.pick(150, 600))])


def replay(ctx, rec):
    c = rec["case"]
    if c.get("kind") == "parser":
        run_parser(ctx, [c["text"]])
    elif c.get("kind") == "hist":
        run_hist(ctx, HistRig(ctx), [c])
    else:
        run_e2e(ctx, Rig(ctx), [c])
