"""C01 — Split expands to exactly the outer/inner product of the split inputs (DESIGN §6 C01, engine StateAlg §5.1)."""

from __future__ import annotations

import json

from harness import core
from harness.engines import statealg as sa

META = {
    "engine": "StateAlg",
    "category": "proof",
    "design_ref": "§6 C01, §5.1",
    "technique": "Lean 4 refinement theorem (RPN stack machine with global keys = nested-loop reference, via compiler "
    "correctness on the binary normal form) + differential correspondence at State level and on the public split path",
    "text": "Lean theorems, for EVERY splitter tree (any number of fields, any nesting) and lists of any length: splitter2rpn emits "
    "the RPN of the left-nested binary normal form (ordering_eq); the stack machine State.splits (every processed term carrying "
    "its own keys, after the repair of D1) run on it equals tree evaluation, the keys being the fields left to right (run_rpn); "
    "hence the states (jobs, order, element of every split field) equal the reference's nested loops and the machine raises the "
    "shape error iff the reference rejects (C01_refines_ind / C01_refines / C01_values; C01_le4 is the stated quantifier); "
    "rejection is characterised for every tree (C01_reject_iff, C01_inner_mismatch); an empty field gives no job (C01_empty); the "
    "per-job task is the base task with exactly the state's fields replaced by the indexed element WHATEVER its value — None, 0, "
    "'', [] included (C01_other_fields_unchanged, C01_substitutes_any_value; C01_witness_not_none documents what an `is not None` "
    "lookup would lose).  C01_witness_5 documents the old global-keys machine on [[a,b],[c,[d,e]]] (D1, repaired: now a regression "
    "case).  Tied to /repo by running State.prepare_states and the public Task.split(...)() path against the model.",
    "note": "Trusted: Lean kernel; hand-written model of state.py (StateAlg/Model.lean) incl. the abstraction of nested index "
    "tuples to flat rows; CPython semantics of zip / itertools.product / dict(zip()); generator reach (trees <= 6 fields, depth <= 4, "
    "lengths 0-3); 'before any job runs' is observed (task job directories, body executions), not proved.",
    "rule": "case = (splitter tree, list length per field, level state|public); random trees plus, systematically, every tree over 2-4 "
    "fields containing an inner product with a valid assignment, every single-field perturbation and every swap of two lengths "
    "(near misses of the shape test, incl. inner products of compound operands); distinct by canonical JSON; non-trivial = >= 2 fields "
    "and (>= 2 jobs or a rejection)",
    "assumptions": [
        "field values are plain lists split along their outer dimension (container_ndim = 1); nested values are C04's subject",
        "the splitter contains no empty list/tuple and no field twice (those are C05's malformed requests)",
    ],
    "trusted": ["model of pydra/engine/state.py written by hand (StateAlg/Model.lean)"],
}

_NS = "PydraModel.StateAlg."
OBLIGATIONS = [
    _NS + n
    for n in (
        "ordering_eq",
        "run_rpn",
        "expand_norm",
        "evalBin_spec",
        "C01_refines_ind",
        "C01_le4",
        "C01_reject_iff",
        "C01_inner_mismatch",
        "C01_empty",
        "C01_other_fields_unchanged",
        "C01_refines",
        "C01_values",
        "C01_witness_5",
        "C01_substitutes_any_value",
        "C01_witness_not_none",
    )
]
LEAN_TARGETS = ["PydraModel.Props.C01"]
MODEL_TARGETS = ["PydraModel.StateAlg.Model", "PydraModel.StateAlg.Spec", "PydraModel.DriverUtil"]

D1_WITNESS = sa.flat_case_from(
    sa.O(sa.O(sa.F(0), sa.F(1)), sa.O(sa.F(2), sa.O(sa.F(3), sa.F(4)))), {0: 2, 1: 1, 2: 3, 3: 1, 4: 2}
)
D33_REGRESSION = sa.flat_case_from(sa.O(sa.F(0), sa.O(sa.F(1))), {0: 2, 1: 1})  # fixed: singleton at a non-first position

NF_WEIGHTS = [1, 2, 2, 2, 3, 3, 3, 3, 4, 4, 4, 4, 4, 5, 6]


def in_quantifier(case) -> bool:
    # since the repair of D1 (keys per stack entry) trees with 5-6 fields are gated too (C01_refines_ind holds for all trees)
    return len(case["fields"]) <= 6 and all(nd == 1 and len(v) <= 3 for _, v, nd in case["fields"]) and not case["combiner"]


def judge_recs(ctx, recs):
    for r in recs:
        case, level = r["case"], r["level"]
        impl = sa.observable(r["impl"], level)
        model = sa.observable(r["model"], level)
        orc = sa.observable(r["oracle"], level)
        nf = len(case["fields"])
        njobs = 0 if r["oracle"].get("rejected") else len(r["oracle"]["rows"])
        ctx.count(f"{level}:fields={nf}")
        ctx.count(f"{level}:" + ("rejected" if r["oracle"].get("rejected") else f"jobs={min(njobs, 10) if njobs < 10 else '10+'}"))
        ctx.count(f"depth={sa.tree_depth(case['splitter'])}")
        if r["impl"].get("rejected") and r["model"] and r["model"].get("rejected") and r["impl"]["class"] != r["model"]["class"]:
            ctx.count("exception-class-differs(info)")
        key = json.dumps([case["splitter"], [len(v) for _, v, _ in case["fields"]], level])
        nontrivial = nf >= 2 and (njobs >= 2 or bool(r["oracle"].get("rejected")))
        if in_quantifier(case):
            ctx.judge({"case": case, "level": level}, impl, model, impl == orc, nontrivial=nontrivial, key=key, what=f"C01 {level}")
        else:
            # outside C01's stated quantifier (>= 5 fields): model fidelity only; a tree that is repaired there
            # (impl = reference, model still has D1) is not an alarm
            ctx.count("outside-quantifier")
            if impl == model:
                ctx.judge({"case": case, "level": level}, impl, model, True, nontrivial=nontrivial, key=key, what=f"C01 {level} (>4 fields)")
                if impl != orc:
                    ctx.count("outside-quantifier:impl=model≠reference (D1 region)")
            elif impl == orc:
                ctx.count("outside-quantifier:impl=reference≠model")
                ctx.notes.append("a >4-field case where the tree agrees with the reference but not with the model (D1 repaired?)")
            else:
                ctx.judge({"case": case, "level": level}, impl, model, True, nontrivial=nontrivial, key=key, what=f"C01 {level} (>4 fields)")


def gen_cases(ctx, n_state, n_public):
    rng = ctx.rng
    items = []
    for _ in range(n_state):
        items.append((sa.flat_case(rng, rng.choice(NF_WEIGHTS), 3), "state"))
    for _ in range(n_public):
        c = sa.flat_case(rng, rng.choice([1, 2, 2, 3, 3, 4, 4, 4, 5]), 3)
        # keep the number of jobs of a public case moderate (~12 ms per job)
        o = sa.oracle_case(c)
        if not o.get("rejected") and len(o["rows"]) > 40:
            continue
        items.append((c, "public"))
    return items


def _rank(t):
    k = sa.kind(t)
    if k == "f":
        return 1
    rs = [_rank(c) for c in t[k]]
    if None in rs:
        return None
    if k == "o":
        return sum(rs)
    return rs[0] if all(r == rs[0] for r in rs) else None


def _has_inner(t) -> bool:
    k = sa.kind(t)
    return k != "f" and (k == "i" and len(t[k]) > 1 or any(_has_inner(c) for c in t[k]))


def near_miss_cases():
    """Every tree over 2-4 fields that contains an inner product, with (i) a valid length assignment (equal shapes),
    (ii) every single-field perturbation of it (one leading or trailing dimension of one operand off by one) and
    (iii) every swap of two fields' lengths (same element count, different shape).  These are the inputs on which the
    `shape_L != shape_R` test — and therefore the shapes recorded for compound operands — decides the outcome."""
    out, seen = [], set()
    for nf in (2, 3, 4):
        fs = list(range(nf))
        for t in sa.all_trees(fs):
            if not _has_inner(t):
                continue
            if _rank(t) is not None:
                base = {}
                for ai, ax in enumerate(sa.oracle_axes(t)):
                    for f in ax:
                        base[f] = [2, 3, 1, 2][ai % 4]
            else:
                base = {f: 2 for f in fs}
            variants = [("valid", base)]
            for f in fs:
                variants.append(("perturb", {**base, f: base[f] % 3 + 1}))
            for f in fs:
                for g in fs:
                    if f < g and base[f] != base[g]:
                        variants.append(("swap", {**base, f: base[g], g: base[f]}))
            for tag, lens in variants:
                c = sa.flat_case_from(t, lens)
                key = json.dumps(c)
                if key not in seen:
                    seen.add(key)
                    out.append((tag, c))
    return out


# inner product of two outer products: equal shapes / same count, other shape / equal leading, unequal trailing / unequal leading
IOO = sa.I(sa.O(sa.F(0), sa.F(1)), sa.O(sa.F(2), sa.F(3)))
IOO_FAMILY = [
    sa.flat_case_from(IOO, dict(zip(range(4), lens)))
    for lens in [(2, 3, 2, 3), (1, 3, 1, 3), (2, 3, 3, 2), (1, 2, 2, 1), (2, 2, 2, 3), (1, 3, 1, 2), (2, 2, 3, 2), (1, 2, 2, 2)]
] + [
    sa.flat_case_from(sa.I(sa.O(sa.F(0), sa.F(1)), sa.F(2)), {0: 1, 1: 3, 2: 3}),  # 1x3 against 3
    sa.flat_case_from(sa.I(sa.O(sa.F(0), sa.F(1)), sa.F(2)), {0: 3, 1: 1, 2: 3}),  # 3x1 against 3
    sa.flat_case_from(sa.O(sa.F(3), sa.I(sa.O(sa.F(0), sa.F(1)), sa.O(sa.F(2), sa.F(4)))), {0: 2, 1: 2, 2: 2, 3: 1, 4: 3}),  # 5 fields
    sa.flat_case_from(sa.I(sa.O(sa.I(sa.F(0), sa.F(1)), sa.F(2)), sa.O(sa.F(3), sa.F(4))), {0: 2, 1: 2, 2: 2, 3: 2, 4: 3}),  # outer of an inner pair
    sa.flat_case_from(sa.I(sa.O(sa.I(sa.F(0), sa.F(1)), sa.F(2)), sa.O(sa.F(3), sa.F(4))), {0: 2, 1: 2, 2: 3, 3: 2, 4: 3}),
]


def falsy_cases(rng, n):
    """split lists whose ELEMENTS are None, 0, '', False, [], {} (reserved integers 9001-9006, see sa.ALPHABET), mixed with
    ordinary integers, under random splitters over 1-3 fields"""
    out = [
        {"splitter": sa.F(0), "fields": [[0, [1, 9001, 3], 1]], "combiner": []},  # [1, None, 3]
        {"splitter": sa.F(2), "fields": [[2, [9001, 9002, 9003, 9004, 9005, 9006], 1]], "combiner": []},
        {"splitter": sa.O(sa.F(0), sa.F(1)), "fields": [[0, [9001, 5], 1], [1, [9004, 9002], 1]], "combiner": []},
        {"splitter": sa.I(sa.F(0), sa.F(1)), "fields": [[0, [9001, 9001], 1], [1, [7, 9005], 1]], "combiner": []},
    ]
    while len(out) < n:
        c = sa.flat_case(rng, rng.choice([1, 2, 2, 3]), 3, min_len=1)
        for fld in c["fields"]:
            fld[1] = [rng.choice(list(sa.ALPHABET)) if rng.random() < 0.5 else x for x in fld[1]]
        o = sa.oracle_case(c)
        if o.get("rejected") or len(o["rows"]) <= 12:
            out.append(c)
    return out[:n]


def exhaustive_small(ctx):
    """every tree shape over <= 3 fields x every length assignment 0..2 (State level)"""
    import itertools

    items = []
    for nf in (1, 2, 3):
        fs = list(range(nf))
        for t in sa.all_trees(fs):
            for lens in itertools.product(range(3), repeat=nf):
                items.append((sa.flat_case_from(t, dict(zip(fs, lens))), "state"))
    return items


def correspondence(ctx):
    core.assert_repo_loaded()
    # corpus first: D1 witness (outside the quantifier: a note, not a finding of C01), the repaired D33 witness
    # D1 (repaired): [[a,b],[c,[d,e]]] with unequal lengths is a regression case that must agree with the reference
    w = sa.state_level(D1_WITNESS)
    orc = sa.oracle_case(D1_WITNESS)
    if w.get("rejected") or w["rows"] != orc["rows"]:
        ctx.violations.append({"kind": "fixed-defect-regressed", "finding": "D1", "impl": w, "case": D1_WITNESS})
    items = [(D1_WITNESS, "state"), (D1_WITNESS, "public"), (D33_REGRESSION, "state"), (D33_REGRESSION, "public")]
    # elements that are None / falsy: every job must receive exactly the matching element
    for c in falsy_cases(ctx.rng, ctx.pick(12, 150)):
        ctx.count("falsy-elements")
        items += [(c, "state"), (c, "public")]
    items += [(c, lvl) for c in sa.corpus("c01.jsonl") for lvl in ("state", "public")]
    # systematic: inner products whose operands are compound, and every near-miss of every inner product (<= 4 fields)
    for c in IOO_FAMILY:
        items += [(c, "state"), (c, "public")]
    nm = near_miss_cases()
    for n, (tag, c) in enumerate(nm):
        ctx.count(f"near-miss:{tag}")
        items.append((c, "state"))
        o = sa.oracle_case(c)
        cheap = o.get("rejected") or len(o["rows"]) <= 8
        if cheap and (not ctx.quick or (n + ctx.seed) % 24 == 0):
            items.append((c, "public"))
    items += gen_cases(ctx, ctx.pick(500, 12000), ctx.pick(45, 900))
    if not ctx.quick:
        items += exhaustive_small(ctx)
    seen, uniq = set(), []
    for c, lvl in items:  # corpus and systematic cases overlap: run each (case, level) once
        k = json.dumps([c, lvl], sort_keys=True)
        if k not in seen:
            seen.add(k)
            uniq.append((c, lvl))
    judge_recs(ctx, sa.run_batch(ctx, uniq))
    # the repaired D33 witness must pass
    r = sa.public_level(D33_REGRESSION, ctx.scratch / "d33")
    if r.get("rejected"):
        ctx.violations.append({"kind": "fixed-defect-regressed", "finding": "D33", "impl": r, "case": D33_REGRESSION})


def search(ctx):
    """implementation vs reference directly, larger budget (used when a tie is broken)"""
    rng = ctx.rng
    n = ctx.pick(6000, 30000)
    for _ in range(n):
        c = sa.flat_case(rng, rng.choice([1, 2, 2, 3, 3, 4, 4, 4]), 3)
        impl = sa.observable(sa.state_level(c), "state")
        orc = sa.observable(sa.oracle_case(c), "state")
        ctx.judge({"case": c, "level": "state"}, impl, None, impl == orc, nontrivial=len(c["fields"]) >= 2, what="C01 search")


def replay(ctx, rec):
    c = rec["case"]
    case, level = (c["case"], c.get("level", "state")) if "case" in c else (c, "state")
    judge_recs(ctx, sa.run_batch(ctx, [(case, level)]))
