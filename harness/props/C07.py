"""C07 — Identical computations map to the same cache identity in every session (DESIGN §6 C07, engine Hash §5.3)."""

from __future__ import annotations

import copy
import json
from pathlib import Path

from harness import core
from harness.engines import hashing as H
from harness.extractors.hash_lits import hash_lits

META = {
    "engine": "Hash",
    "category": "proof",
    "design_ref": "§6 C07, §5.3",
    "technique": "Lean 4 theorems (invariance of the hash / task checksum under everything a session can change: set iteration "
    "order, dict insertion order, object identities; the checksum function has no cache_root / worker argument) + "
    "differential correspondence in fresh interpreters with different PYTHONHASHSEED",
    "text": "Lean theorems for values and tasks of any size, digest function H a parameter: the hash of a value and the "
    "checksum of a task are the same for any two presentations of the same content — any iteration order of sets, any "
    "insertion order of dicts, any object identities, i.e. whatever PYTHONHASHSEED, the process or a pickling round trip "
    "make of it — unconditionally for sets and frozensets (ordered by the digests of their elements since fix 847ae56e), and for "
    "dicts whose keys Python's < orders totally (C07_value_env_invariant, C07_checksum_env_invariant, C07_pickle_roundtrip); "
    "Job.checksum is a function of the task alone: cache_root, worker, seed and pid are not among its arguments "
    "(C07_cache_root_worker_indep).  Repaired defect D6: a task value with two xor groups (a frozenset of frozensets) now gets "
    "one hash for both iteration orders and an xor group containing None no longer raises (C07_regression_xor, "
    "C07_regression_xor_none; the old algorithm is documented by C07_old_xor_sorted_by_value).  The model is tied to the code by hashing the same serialized values and tasks "
    "in the parent and in 3 (quick) / 6 (thorough) fresh interpreters with other PYTHONHASHSEEDs, after a cloudpickle round "
    "trip, with shuffled insertion orders, and by running tasks with other cache roots and workers; every child reports the "
    "iteration orders it saw, and the model must reproduce each child's digest hex for hex.",
    "note": "Trusted: Lean kernel; hand-written model (Hash/Model.lean); harness conversion of Python objects (hashing.to_case); "
    "cloudpickle round trip modelled as an arbitrary re-presentation of the same content.",
    "rule": "case = one generated value (grammar of C08 with the weight on sets, frozensets, dicts, nested containers, paths, "
    "numpy arrays) or one task (python task with generated inputs; shell task with xor groups, split), observed in the parent "
    "and in every child interpreter; distinct by canonical JSON of the spec; non-trivial = the value contains a set, "
    "frozenset or dict with at least two elements, an array with more than one axis, or is a task",
    "assumptions": [
        "the same source files are importable in every session (functions are hashed through inspect.getsource)",
        "file inputs are out of scope here (C09)",
    ],
    "trusted": [
        "model of pydra/utils/hash.py and Task._compute_hashes written by hand (Hash/Model.lean); literals regenerated",
        "Lean BLAKE2b (driver only), validated against hashlib.blake2b on every run",
    ],
}

_NS = "PydraModel.Hash."
OBLIGATIONS = [
    _NS + n
    for n in (
        "C07_value_env_invariant",
        "C07_checksum_env_invariant",
        "C07_pickle_roundtrip",
        "C07_cache_root_worker_indep",
        "C07_sorted_total",
        "C07_regression_xor",
        "C07_regression_xor_none",
        "C07_old_xor_sorted_by_value",
        "C07_aliasing_invariant",
        "C07_witness_stale_placeholder",
        "heads_prefix_free",
        "Sources.sources_ok",
    )
]
LEAN_TARGETS = ["PydraModel.Props.C07", "Drivers.Hash"]
MODEL_TARGETS = ["PydraModel.Hash.DriverImpl", "Drivers.Hash"]
EXTRACTORS = [hash_lits]

CORPUS = core.VERIF / "corpus" / "hash" / "c07.jsonl"


def gen_value(rng):
    """values whose hash could depend on the session: sets / frozensets / dicts dominate"""
    r = rng.random()
    if r < 0.25:
        k = rng.choice(["str", "str", "int", "bytes"])
        return {"k": rng.choice(["set", "frozenset"]), "xs": [H.gen_key(rng, k) for _ in range(rng.randint(2, 6))]}
    if r < 0.45:
        return {"k": "dict", "items": [[H.gen_key(rng, "str"), H.gen_value(rng, 2)] for _ in range(rng.randint(2, 5))]}
    if r < 0.55:  # chains of frozensets are totally ordered by proper subset
        a = [H.gen_key(rng, "str") for _ in range(3)]
        return {"k": "frozenset", "xs": [{"k": "frozenset", "xs": a[:1]}, {"k": "frozenset", "xs": a[:2]}, {"k": "frozenset", "xs": a}]}
    if r >= 0.72 and r < 0.84:  # one object (a File, a container, an instance) referenced several times
        return H.gen_aliased(rng)
    if r < 0.72 and r >= 0.62:  # arrays in every memory layout (alone and inside containers)
        arr = H.gen_ndarray(rng)
        return arr if rng.random() < 0.5 else {"k": "dict", "items": [[H._s("a"), arr], [H._s("b"), H.gen_ndarray(rng)]]}
    if r < 0.62:  # sets of incomparable sets (D6, repaired): must be seed independent
        ks = rng.sample(H.STRS, 4)
        return {"k": "frozenset", "xs": [{"k": "frozenset", "xs": [H._s(ks[0]), H._s(ks[1])]}, {"k": "frozenset", "xs": [H._s(ks[2]), H._s(ks[3])]}]}
    return H.gen_value(rng, rng.randint(1, 4))


def gen_task(rng):
    if rng.random() < 0.35:  # one object (a File, …) given to two inputs and once more inside a list
        al = H.gen_aliased(rng)
        d = next(n for n in H.walk(al) if n["k"] == "def")
        u = {"k": "use", "name": d["name"]}
        other = H.gen_file(rng)
        return {
            "kind": "python",
            "name": "T",
            "params": ["a", "b", "c"],
            "body": ["return 3"],
            "ret": "int",
            "inputs": {"a": d, "b": u, "c": {"k": "list", "xs": [other, u, other]}},
        }
    if rng.random() < 0.6:
        return {
            "kind": "python",
            "name": "T",
            "params": ["a", "b"],
            "body": [rng.choice(["return 1", "return 2", "return len(str(a))"])],
            "ret": "int",
            "inputs": {"a": gen_value(rng), "b": H.gen_value(rng, 1)},
        }
    return {
        "kind": "shell",
        "exe": "echo",
        "name": "S",
        "fields": [
            {"name": "p", "type": "str | None", "default": None, "argstr": "-p"},
            {"name": "q", "type": "str | None", "default": None, "argstr": "-q"},
            {"name": "r", "type": "list[str] | None", "default": None, "argstr": "-r", "sep": ","},
        ],
        "xor": [["p", "q"]],
        "inputs": {"p": H._s(rng.choice(["1", "x y", "é"])), "r": {"k": "list", "xs": [H._s("a"), H._s("b")]}},
    }


def _task_values_ok(spec) -> bool:
    """the generated inputs must be valid Python values"""
    return all(H.valid(v) for v in (spec.get("inputs") or {}).values())


def d6_kind_of_task(spec) -> str | None:
    """(D6 is repaired: xor groups are ordered by digest.)  Kept for the distribution count only: tasks that were in the D6
    region — two or more xor groups, or a group containing None — and must now behave like all others."""
    groups = spec.get("xor") or []
    if any(None in g for g in groups):
        return "none-in-group"
    if len(groups) >= 2:
        return "several-groups"
    return None


def _nontrivial_value(s) -> bool:
    return any(
        (n["k"] in ("set", "frozenset", "dict") and len(n.get("xs", n.get("items", []))) >= 2) or (n["k"] == "ndarray" and len(n["shape"]) >= 2)
        for n in H.walk(s)
    )


def observe(ctx, values: list[dict], tasks: list[dict], moddir: Path):
    """Parent + children observations.  Returns (value rows, task rows)."""
    seeds = ctx.pick([1, 2, 4242], [1, 2, 3, 77, 4242, 99991])
    # parent ---------------------------------------------------------------------------------------------------
    vrows = []
    for s in values:
        v = H.Builder(moddir).build(s)
        shuffled = None
        m = None
        for _ in range(4):  # an insertion-order-only variant of the same content
            got = H._replace_random_node(ctx.rng, s, lambda n: _shuffle(ctx.rng, n))
            if got:
                m = got[0]
                break
        # (re-ordering the items of a mapping may move a `use` in front of its `def`: such a variant is not a value)
        if m is not None and H.well_scoped(m) and H.canon_key(m) == H.canon_key(s):
            shuffled = H.impl_hash(H.Builder(moddir).build(m))
        # aliasing is not content: the equal value built from separate equal objects
        unshared = None
        if any(n["k"] == "use" for n in H.walk(s)) and not H.has_cycle(s):
            import copy as _copy

            u = H.unshare(_copy.deepcopy(s))
            if H.well_scoped(u) and H.canon_key(u) == H.canon_key(s):
                unshared = H.impl_hash(H.Builder(moddir).build(u))
        vrows.append({"spec": s, "parent": H.impl_hash(v), "case": H.to_case(v), "shuffled": shuffled, "unshared": unshared, "children": []})
    trows = []
    for k, t in enumerate(tasks):
        b = H.Builder(moddir)
        try:
            obj = H.build_task(t["task"], b)
            cs = obj._checksum
        except Exception as e:
            cs = "!" + core.exc_tag(e)
            obj = None
        row = {"spec": t, "parent": cs, "def": H.task_def_case(obj) if obj is not None else None, "children": []}
        inputs = t["task"].get("inputs") or {}
        if obj is not None and any(n["k"] == "use" for v in inputs.values() for n in H.walk(v)):
            # the same task built from separate equal objects, and both after a pickling round trip
            import copy as _copy

            import cloudpickle as _cp

            env: dict = {}
            t2 = {**t["task"], "inputs": {n: H.unshare(_copy.deepcopy(v), env) for n, v in inputs.items()}}
            try:
                obj2 = H.build_task(t2, H.Builder(moddir))
                row["unshared_checksum"] = obj2._checksum
                row["pickled_checksums"] = [_cp.loads(_cp.dumps(obj))._checksum, _cp.loads(_cp.dumps(obj2))._checksum]
            except Exception as e:
                row["unshared_checksum"] = "!" + core.exc_tag(e)
        if t.get("hash_value") and obj is not None:
            row["parent_hex"] = H.impl_hash(obj)
            row["parent_case"] = H.to_case(obj)
        trows.append(row)
    # children --------------------------------------------------------------------------------------------------
    shared_root = ctx.scratch / "shared-cache"
    for n, seed in enumerate(seeds):
        jobs = [{"spec": r["spec"], "pickle": n == 1, "want_case": True} for r in vrows]
        for k, r in enumerate(trows):
            run = None
            if r["spec"].get("run", True) and not r["parent"].startswith("!"):
                # child 0 and 1 share one cache root (second session finds the first's result); the others use their own
                # root; the second session uses the concurrent-futures worker (quick tier: for the first python task only)
                root = shared_root if n < 2 else ctx.scratch / f"cache-{seed}"
                is_py = r["spec"]["task"]["kind"] == "python"
                first_py = is_py and not any(x["spec"]["task"]["kind"] == "python" for x in trows[:k])
                cf = n == 1 and is_py and (first_py or not ctx.quick)
                run = {"cache_root": str(root / f"t{k}"), "worker": "cf" if cf else "debug"}
            jobs.append({"task": r["spec"]["task"], "run": run, "hash_value": bool(r["spec"].get("hash_value")), "want_case": True})
        ans = H.run_child(jobs, seed, moddir, timeout=ctx.pick(900, 3000))
        for r, a in zip(vrows, ans[: len(vrows)]):
            r["children"].append({"seed": seed, "pickle": n == 1, **a})
        for r, a in zip(trows, ans[len(vrows) :]):
            r["children"].append({"seed": seed, "session": n, **a})
    return vrows, trows


def _shuffle(rng, n):
    if n["k"] in ("set", "frozenset") and len(n["xs"]) >= 2:
        xs = list(n["xs"])
        rng.shuffle(xs)
        return ({**n, "xs": xs}, "same:set-build-order")
    if n["k"] == "ndarray" and n["shape"]:
        return ({**n, "layout": rng.choice([l for l in H.LAYOUTS if l != n.get("layout", "C")])}, "same:array-layout")
    if n["k"] == "dict" and len(n["items"]) >= 2 and len({H._ck(kv[0]) for kv in n["items"]}) == len(n["items"]):
        it = list(n["items"])
        rng.shuffle(it)
        return ({**n, "items": it}, "same:dict-insertion-order")
    return None


def judge_values(ctx, vrows):
    q, idx = [], []
    for r in vrows:
        for c in [r["case"]] + [ch.get("case") for ch in r["children"]]:
            if c is not None:
                idx.append(len(q))
                q.append({"op": "hash", "v": c})
            else:
                idx.append(None)
    ans = H.model(ctx, q)
    it = iter(idx)
    for r in vrows:
        obs = {"parent": r["parent"], "children": [ch["hex"] for ch in r["children"]]}
        if r["shuffled"] is not None:
            obs["shuffled"] = r["shuffled"]
        if r.get("unshared") is not None:
            obs["unshared"] = r["unshared"]
        model = None
        if ans is not None:
            ms = []
            for _ in range(1 + len(r["children"])):
                k = next(it)
                m = H.model_tag(ans[k]) if k is not None else None
                ms.append(m if isinstance(m, str) or m is None else m["hex"])
            if all(m is not None for m in ms):
                model = {"parent": ms[0], "children": ms[1:]}
                if r["shuffled"] is not None:
                    model["shuffled"] = ms[0]
                if r.get("unshared") is not None:
                    model["unshared"] = ms[0]
            else:
                ctx.count("model-declines")
        allh = [obs["parent"]] + obs["children"] + ([obs["shuffled"]] if "shuffled" in obs else []) + ([obs["unshared"]] if "unshared" in obs else [])
        ok = not any(h.startswith("!") for h in allh) and len(set(allh)) == 1
        u = H.mixed_key_dicts(r["spec"])
        defect = None  # no finding is listed for C07: every disagreement between sessions is a violation
        ctx.count("value:" + ("mixed-class-dict-keys" if u else ("set-of-sets" if any(n["k"] in ("set", "frozenset") and sum(1 for e in n["xs"] if e["k"] in ("set", "frozenset")) >= 2 for n in H.walk(r["spec"])) else "other")))
        ctx.count("value-root:" + r["spec"]["k"])
        ctx.judge(
            {"kind": "value", "spec": r["spec"]},
            obs,
            model,
            ok,
            nontrivial=_nontrivial_value(r["spec"]),
            key=H.canon_key(r["spec"]) if not H.has_cycle(r["spec"]) else json.dumps(r["spec"], sort_keys=True),
            defect=defect,
            what="hash_function in parent, in fresh interpreters with other PYTHONHASHSEEDs, after pickling, with shuffled insertion order",
        )


def judge_tasks(ctx, trows):
    q, where = [], []
    for r in trows:
        if r["def"] is not None:
            where.append(("def", len(q)))
            q.append({"op": "checksum", "task": r["def"]})
        else:
            where.append(("def", None))
        cases = [r.get("parent_case")] + [ch.get("case") for ch in r["children"]] if r["spec"].get("hash_value") else []
        for c in cases:
            if c is not None:
                where.append(("hex", len(q)))
                q.append({"op": "hash", "v": c})
            else:
                where.append(("hex", None))
    ans = H.model(ctx, q)
    it = iter(where)
    for r in trows:
        spec = r["spec"]
        obs = {"checksum": r["parent"], "children": [ch.get("checksum") for ch in r["children"]]}
        if "unshared_checksum" in r:
            obs["unshared_checksum"] = r["unshared_checksum"]
            obs["pickled_checksums"] = r.get("pickled_checksums")
        runs = [ch for ch in r["children"] if "out" in ch]
        if runs:
            # one job directory per cache root, named by the checksum; session 1 re-uses session 0's result
            obs["dirs_ok"] = all(isinstance(ch["out"], dict) and ch["dirs"] == [r["parent"]] for ch in runs) if spec["task"]["kind"] != "shell" or not spec["task"].get("split") else None
            s01 = [ch for ch in runs if ch["session"] in (0, 1)]
            if len(s01) == 2 and spec["task"]["kind"] == "python":
                obs["second_session_served_from_cache"] = s01[0]["executions"] == 1 and s01[1]["executions"] == 0
            obs["outs_equal"] = len({json.dumps(ch["out"], sort_keys=True) for ch in runs}) == 1
        if spec.get("hash_value"):
            obs["value_hex"] = [r.get("parent_hex")] + [ch.get("hex") for ch in r["children"]]
            if spec["task"].get("split") and runs:
                obs["workflow_dirs"] = [sorted(d for d in ch["dirs"] if d.startswith("workflow-")) for ch in runs]
        model = None
        _, k = next(it)
        mcs = ans[k].get("checksum") if (ans is not None and k is not None and "checksum" in ans[k]) else None
        mhex = []
        if spec.get("hash_value"):
            for _ in range(1 + len(r["children"])):
                _, k2 = next(it)
                m = H.model_tag(ans[k2]) if (ans is not None and k2 is not None) else None
                mhex.append(m if isinstance(m, str) or m is None else m["hex"])
        if mcs is not None and all(m is not None for m in mhex):
            model = copy.deepcopy(obs)
            model["checksum"] = mcs
            model["children"] = [mcs] * len(r["children"])
            if spec.get("hash_value"):
                model["value_hex"] = mhex
        else:
            ctx.count("model-declines")
        ok = not str(obs["checksum"]).startswith("!") and all(c == obs["checksum"] for c in obs["children"])
        if "unshared_checksum" in obs:
            ok = ok and obs["unshared_checksum"] == obs["checksum"] and all(c == obs["checksum"] for c in (obs["pickled_checksums"] or ["?"]))
        ok = ok and obs.get("dirs_ok") is not False and obs.get("second_session_served_from_cache") is not False
        ok = ok and obs.get("outs_equal") is not False
        if spec.get("hash_value"):
            hx = obs["value_hex"]
            ok = ok and not any(h is None or h.startswith("!") for h in hx) and len(set(hx)) == 1
            if "workflow_dirs" in obs:
                ok = ok and len({json.dumps(w) for w in obs["workflow_dirs"]}) == 1
        d6 = d6_kind_of_task(spec["task"])
        defect = None
        ctx.count("task:" + spec["task"]["kind"] + ((":" + d6) if d6 else ""))
        ctx.judge(
            {"kind": "task", **spec},
            obs,
            model,
            ok,
            nontrivial=True,
            key=json.dumps(spec, sort_keys=True),
            defect=defect,
            what="Task._checksum / cache directory in parent and in fresh interpreters (other seed, cache root, worker)",
        )


def correspondence(ctx):
    core.assert_repo_loaded()
    moddir = ctx.scratch / "mods"
    import os

    hc = ctx.scratch / "hashcache"
    hc.mkdir(exist_ok=True)
    os.environ["PYDRA_HASH_CACHE"] = str(hc)
    os.environ["VERIF_CNT"] = str(ctx.scratch / "count.txt")
    H.validate_blake2b(ctx, 12)
    rows = [json.loads(l) for l in CORPUS.read_text().splitlines() if l.strip()]
    values = [r["spec"] for r in rows if r["kind"] == "value"]
    tasks = [{"task": r["task"], "hash_value": r.get("hash_value", False), "name": r["name"]} for r in rows if r["kind"] == "task"]
    n_corpus_v, n_corpus_t = len(values), len(tasks)
    nv, nt = ctx.pick(30, 250), ctx.pick(2, 16)
    while len(values) < n_corpus_v + nv:
        s = gen_value(ctx.rng)
        if H.valid(s) and not H.has_cycle(s):
            values.append(s)
    while len(tasks) < n_corpus_t + nt:
        t = gen_task(ctx.rng)
        if _task_values_ok(t):
            tasks.append({"task": t, "hash_value": ctx.rng.random() < 0.5})
    import time as _time

    t0 = _time.process_time(), _time.time()
    vrows, trows = observe(ctx, values, tasks, moddir)
    t1 = _time.process_time(), _time.time()
    ctx.extra["phase_s"] = {"observe_wall": round(t1[1] - t0[1], 1), "observe_parent_cpu": round(t1[0] - t0[0], 1)}
    # regression of the repaired D6: the corpus witnesses must be seed independent and must not raise
    for r, row in zip([r for r in rows if r["kind"] == "value"], vrows):
        if r.get("fixed"):
            hs = {row["parent"], *[c["hex"] for c in row["children"]]}
            if len(hs) > 1 or any(h.startswith("!") for h in hs):
                ctx.notes.append(f"fixed defect {r['fixed']} fails again: {r['name']}: {sorted(hs)[:3]}")
    for r, row in zip([r for r in rows if r["kind"] == "task"], trows):
        if r.get("fixed"):
            hs = {row.get("parent_hex"), *[c.get("hex") for c in row["children"]]}
            wd = {json.dumps(sorted(d for d in c.get("dirs", []) if d.startswith("workflow-"))) for c in row["children"] if "dirs" in c}
            if len(hs) > 1 or any(h is None or h.startswith("!") for h in hs) or len(wd) > 1:
                ctx.notes.append(f"fixed defect {r['fixed']} fails again: {r['name']}: {sorted(map(str, hs))[:3]} {sorted(wd)[:3]}")
    for f in ctx.known():
        ctx.finding(f["id"], False, "no witness in the C07 corpus")
    t2 = _time.time()
    judge_values(ctx, vrows)
    judge_tasks(ctx, trows)
    ctx.extra["phase_s"]["model_wall"] = round(_time.time() - t2, 1)


def search(ctx):
    moddir = ctx.scratch / "mods"
    values = []
    while len(values) < ctx.pick(200, 1000):
        s = gen_value(ctx.rng)
        if H.valid(s) and not H.has_cycle(s):
            values.append(s)
    vrows, trows = observe(ctx, values, [], moddir)
    judge_values(ctx, vrows)


def replay(ctx, rec):
    moddir = ctx.scratch / "mods"
    c = rec["case"]
    if c.get("kind") == "task":
        vrows, trows = observe(ctx, [], [{k: v for k, v in c.items() if k != "kind"}], moddir)
        judge_tasks(ctx, trows)
    else:
        vrows, trows = observe(ctx, [c["spec"]], [], moddir)
        judge_values(ctx, vrows)
