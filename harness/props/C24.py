"""C24 — The displayed command line is a faithful rendering of the executed argv (DESIGN §6 C24, engine Argv §5.7)."""

from __future__ import annotations

import shlex
import subprocess

from harness import core
from harness.engines import argv as A

META = {
    "engine": "Argv",
    "category": "proof",
    "design_ref": "§6 C24, §5.7",
    "technique": "Lean 4 round-trip theorems over the POSIX shlex automaton (quote . split = id for shlex.quote-style quoting, "
    "for every argv; cmdline's space-only quoting under an explicit hypothesis) + differential correspondence Task.cmdline vs argv at subprocess.run",
    "text": "Lean theorems for argument vectors and strings of any length: POSIX splitting of the blank-joined shlex.quote "
    "rendering gives back exactly the arguments (C24_reference_roundtrip, C24_reference_always_roundtrip: the property is satisfiable); "
    "ShellTask.cmdline's rendering (single quotes iff the argument contains a space) splits back to the argv when every argument "
    "either has a space and no single quote, or is non-empty and free of blanks/quotes/backslashes (C24_cmdline_partial); witnesses "
    "for tab, empty argument, single quote, backslash (D15).  Tied to pydra/compose/shell/task.py:cmdline by running generated tasks "
    "whose executed arguments contain characters of the adversarial alphabet.",
    "note": "Trusted: Lean kernel; hand-written model of shlex.split and of cmdline's quoting; Python's shlex.split as the POSIX "
    "word-splitting oracle (cross-checked against /bin/sh in the thorough tier).",
    "rule": "case = C22/C23 generator, adversarial alphabet; half of the str values are shlex-quoted so that they reach the argv "
    "intact, append_args carries raw adversarial strings; 40% of the cases have an executable of 1-4 words given as list/tuple whose later words may contain plain spaces; distinct by canonical JSON; non-trivial = the executed argv has an argument "
    "that is empty or contains a non-alphanumeric character",
    "assumptions": ["'POSIX shell rules' = token recognition and quote removal (shlex.split(posix=True)); expansions ($, *, ~) are not splitting"],
    "trusted": ["model of ShellTask.cmdline's quoting written by hand (lean/PydraModel/Argv/Shlex.lean: cmdlineOf)"],
}

_NS = "PydraModel.Argv."
OBLIGATIONS = [
    _NS + n
    for n in (
        "C24_reference_roundtrip",
        "C24_reference_always_roundtrip",
        "C24_cmdline_partial",
        "C24_cmdline_multiword_partial",
        "C24_cmdline_is_whole_argv",
        "C24_witness_exe_words_bare",
        "C24_witness_tab",
        "C24_witness_empty",
        "C24_witness_quote",
        "C24_witness_quote_space",
        "C24_witness_backslash",
        "C24_witness_not_full",
    )
]
LEAN_TARGETS = ["PydraModel.Props.C24"]
MODEL_TARGETS = ["PydraModel.Argv.Spec", "PydraModel.DriverUtil"]


def posix_split(s: str):
    try:
        return shlex.split(s)
    except ValueError:
        return None


def run_cases(ctx, cases):
    impls = [A.run_impl(c, ctx.scratch, want_cmdline=True) for c in cases]
    q = []
    for c, i in zip(cases, impls):
        q.append(A.model_query(c))
        # the renderer alone, on the argv the implementation executed (compared even where the argv models differ)
        q.append({"op": "render", "argv": i["argv"] if isinstance(i["argv"], list) else []})
    ans = ctx.driver("Argv", q)
    for k, (c, i) in enumerate(zip(cases, impls)):
        a, r = (ans[2 * k], ans[2 * k + 1]) if ans is not None else (None, None)
        if i["define"] is not None:
            impl = {"error": i["define"]}
            model = None if a is None else ({"error": A.MODEL_ERR.get(a["positions"]["err"])} if "err" in a.get("positions", {}) else {"argv": A.model_obs(a)})
            ctx.count("definition-rejected")
            ctx.judge(c, impl, model, True, nontrivial=False, what="shell.define")
            continue
        impl = {"argv": i["argv"], "cmdline": i["cmdline"]}
        model = None
        if a is not None:
            model = {"argv": A.model_obs(a), "cmdline": A.model_obs(a, "cmdline")}
            if isinstance(i["argv"], list) and "error" not in r:
                impl["render"] = i["cmdline"]
                model["render"] = r["cmdline"]
                # the reference rendering of the theorems is Python's shlex.quote / shlex.join, and it round-trips
                if r["quoted"] != shlex.join(i["argv"]) or r["quoted_split"] != {"ok": i["argv"]}:
                    ctx.tie_broken.append({"kind": "shQuote-vs-shlex.quote", "argv": i["argv"], "lean": r["quoted"], "python": shlex.join(i["argv"])})
        if not isinstance(i["argv"], list):
            # nothing was executed (the command could not be built): nothing to render
            ctx.count("not-executed:" + i["argv"]["error"])
            ctx.judge(c, impl, model, True, nontrivial=False, what="cmdline (nothing executed)")
            continue
        argv = i["argv"]
        spec_ok = isinstance(i["cmdline"], str) and posix_split(i["cmdline"]) == argv
        d = "D15" if A.rule_D15(argv) else None
        for arg in argv[1:]:
            ctx.count("args")
            if arg == "":
                ctx.count("arg-empty")
            for ch, lab in ((" ", "space"), ("\t", "tab"), ("\n", "newline"), ("'", "squote"), ('"', "dquote"), ("\\", "backslash"), ("$", "dollar"), ("*", "star")):
                if ch in arg:
                    ctx.count("arg-with-" + lab)
        if d:
            ctx.count("rule:D15")
        if any(" " in x for x in argv):
            ctx.count("argv-with-space")
        ctx.count(f"exe-words={len(c['exe'])}")
        if any(" " in w for w in c["exe"][1:]):
            ctx.count("exe-word-with-space")
        ctx.judge(c, impl, model, spec_ok, nontrivial=any(x == "" or not x.isalnum() for x in argv[1:]), defect=d, what="shlex.split(cmdline) == argv at subprocess.run")


def gen(ctx):
    rng = ctx.rng
    c = A.gen_case(rng, word=A.adv_word, blank_sep_templated=False, blank_sep_dots=True, outargs=False)
    if rng.random() < 0.4:  # multi-word executable given as a list / tuple; its later words may carry plain spaces
        c["exe"] = A.multiword_exe(rng)
        c["exe_as"] = rng.choice(["list", "tuple"])
    # let half of the str values survive the re-tokenisation, so that the executed argv itself is adversarial
    for f, (j, v) in zip(c["fields"], enumerate(c["values"])):
        if f["kind"] == "str" and isinstance(v, str) and rng.random() < 0.5:
            c["values"][j] = shlex.quote(v)
        elif f["kind"] in ("list_str", "multi_str") and isinstance(v, list) and rng.random() < 0.5:
            c["values"][j] = [shlex.quote(x) for x in v]
    # mostly spaces only: the region where cmdline's quoting is adequate must be populated too
    if rng.random() < 0.35:
        c["append"] = [rng.choice([A.safe_word(rng), A.safe_word(rng) + " " + A.safe_word(rng), " " + A.safe_word(rng), "a  b "]) for _ in range(rng.randint(1, 3))]
        for f, (j, v) in zip(c["fields"], enumerate(c["values"])):
            if f["kind"] == "str" and v is not None:
                c["values"][j] = rng.choice([A.safe_word(rng), "'" + A.safe_word(rng) + " " + A.safe_word(rng) + "'"])
            elif f["kind"] in ("list_str", "multi_str") and v is not None:
                c["values"][j] = [A.safe_word(rng) for _ in v]
            elif f["kind"] in ("path", "list_path") and v is not None:
                c["values"][j] = "p/" + A.safe_word(rng) if f["kind"] == "path" else ["p/" + A.safe_word(rng) for _ in v]
    return c


def corpus(ctx):
    known = {f["id"] for f in ctx.known()}
    cases = A.load_corpus("c24.jsonl")
    status = {}
    for c in cases:
        fid = c.pop("finding", None)
        if fid and fid in known:
            i = A.run_impl(c, ctx.scratch)
            fails = not (isinstance(i["argv"], list) and isinstance(i["cmdline"], str) and posix_split(i["cmdline"]) == i["argv"])
            status.setdefault(fid, []).append((fails, f"argv {i['argv']} cmdline {i['cmdline']!r}"))
    for fid, l in status.items():
        ctx.finding(fid, any(f for f, _ in l), "; ".join(d for _, d in l)[:600])
    run_cases(ctx, cases)


def sh_crosscheck(ctx, n):
    """thorough: the oracle (shlex.split) against a real /bin/sh on shlex.quote-rendered adversarial argvs."""
    bad = 0
    for _ in range(n):
        argv = [A.adv_word(ctx.rng, 0, 6, 0.6) for _ in range(ctx.rng.randint(1, 4))]
        argv = [a.replace("\0", "") for a in argv]
        line = shlex.join(argv)
        p = subprocess.run(["/bin/sh", "-c", "printf '%s\\0' " + line], capture_output=True)
        got = p.stdout.decode("utf-8", "surrogateescape").split("\0")[:-1]
        if got != argv or posix_split(line) != argv:
            bad += 1
            ctx.tie_broken.append({"kind": "oracle-vs-sh", "argv": argv, "line": line, "sh": got, "shlex": posix_split(line)})
    ctx.count("sh-crosscheck", n)
    ctx.extra["sh_crosscheck_disagreements"] = bad


def correspondence(ctx):
    core.assert_repo_loaded()
    corpus(ctx)
    run_cases(ctx, [gen(ctx) for _ in range(ctx.pick(300, 8000))])
    if not ctx.quick:
        sh_crosscheck(ctx, 400)


def search(ctx):
    run_cases(ctx, [gen(ctx) for _ in range(ctx.pick(3000, 15000))])


def replay(ctx, rec):
    run_cases(ctx, [rec["case"]])
