"""C31 — Requirement and mutual-exclusion rules are enforced exactly (DESIGN §6 C31, engine Rules §5.7).

Implementation: `Task._rule_violations()` and the three submission paths (`Task.__call__`, `Submitter.__call__`,
`Job(...)` + `Submitter.submit`) of generated python / shell tasks, for ALL assignments over a ≤ 3-value domain per
field.  Model: lean/PydraModel/Rules (driver Drivers/Rules.lean).  Oracle: `oracle()` below, written from the
property statement with one notion of "set" (a value was given, it is not None and not False).
"""

from __future__ import annotations

import json

from harness import core
from harness.engines import rules as R

META = {
    "engine": "Rules",
    "category": "proof",
    "design_ref": "§6 C31, §5.7",
    "technique": "Lean 4 theorem (decision logic of _rule_violations ⇔ the property's predicate, for any number of fields, "
    "requirement sets and groups) + call-site order regenerated from the source + exhaustive-per-task differential correspondence",
    "text": "Lean theorems over a model of Task._rule_violations / Requirement(Set).satisfied, for every definition (any number of "
    "fields, requirement sets with or without allowed values, xor groups with or without None) and every assignment: "
    "C31_code_exact — the violation list is empty iff mandatory fields are set, every triggering field with requirements has a "
    "requirement set that holds, and every exclusive group has at most one (exactly one unless None is a member) set field, with "
    "the code's three notions of 'set'; C31_partial — the same with the property's single notion of 'set' on assignments "
    "without an empty string in an exclusive group / False on a required non-bool field (decidable hypothesis Uniform); witnesses "
    "C31_witness_xor_empty, C31_witness_optbool_false and C31_no_uniform_notion (no single notion of 'set' makes the property true of "
    "the pinned code) for the two known findings; per-clause lemmas C31_mandatory / C31_requires / C31_xor_at_most_one / "
    "C31_xor_exactly_one.  C31_before_execution: on the call events of Task.__call__, Submitter.__call__, Job.__init__, Job.run, "
    "Task._check_rules regenerated from the source on every run, an unconditional _check_rules precedes every execution-starting "
    "call and the storing of the task in a Job (decide).  Correspondence: generated python and shell tasks (≤ 5 fields of kinds "
    "str|None, bool, bool|None, str mandatory, str defaulted), every assignment of each task (≤ 243): _rule_violations() kinds and "
    "fields, and the submission outcome (ValueError, no body run, no job directory) vs model vs independent Python oracle.",
    "note": "Trusted: Lean kernel; hand-written model of _rule_violations/Requirement.satisfied (tied by the exhaustive-per-task "
    "correspondence); AST extractor for the call-site order (source order is taken as evaluation order; conditionals are marked "
    "'guarded'); parsing of the violation messages into (kind, field names).  Outside the property's quantifier but modelled "
    "(Val.lazy, Field.exempt, Field.optFileset; documented by C31_lazy_field_skipped, C31_lazy_behaviour, "
    "C31_exempt_unset_triggers, C31_optfileset_true) and exercised in two fidelity streams that compare implementation, model "
    "and a Python transcription of C31_code_exact: readonly inputs and optional outargs with a path template (shell), and "
    "workflow node inputs connected to an upstream output (checked at Workflow.construct, before any node runs).  "
    "ShellTask's extra argstr-template checks are not modelled (generated argstrs are plain).",
    "rule": "case = (task definition, assignment of one of ≤ 3 domain values to every field); all assignments of every generated "
    "definition are explored; distinct by canonical JSON of (fields, rules, groups, assignment); non-trivial = the definition has "
    "at least one requirement set or exclusive group.  Fidelity streams (counted in the same totals, labelled stream=ext / "
    "stream=lazy in the distribution): all assignments of definitions with readonly / optional-outarg fields; assignments with "
    "one or two lazy fields",
    "assumptions": [
        "xor groups are frozensets (no duplicate member) and requirement names refer to fields (enforced by Task._check_arg_refs)",
        "the property is claimed for resolved values of optional/bool/str fields (its quantifier); lazy values, readonly and "
        "path_template fields are modelled and compared with the code's documented clause-wise behaviour only",
    ],
    "trusted": ["model of Task._rule_violations / Requirement.satisfied written by hand (Rules/Model.lean)"],
}

_NS = "PydraModel.Rules."
OBLIGATIONS = [
    _NS + n
    for n in (
        "C31_code_exact",
        "C31_partial",
        "C31_spec_decides",
        "C31_mandatory",
        "C31_requires",
        "C31_xor_at_most_one",
        "C31_xor_exactly_one",
        "C31_witness_xor_empty",
        "C31_witness_empty_triggers",
        "C31_witness_optbool_false",
        "C31_bool_false_rejected",
        "C31_full_statement_fails",
        "C31_no_uniform_notion",
        "C31_lazy_field_skipped",
        "C31_lazy_behaviour",
        "C31_exempt_unset_triggers",
        "C31_optfileset_true",
        "CallSites.C31_before_execution",
        "CallSites.C31_before_execution_meaning",
        "CallSites.checkedBefore_spec",
    )
]
LEAN_TARGETS = ["PydraModel.Props.C31"]
MODEL_TARGETS = ["PydraModel.Rules.Lemmas2", "PydraModel.DriverUtil"]
EXTRACTORS = [R.extract_call_sites]

HOWS = ("call", "submitter", "job")


# --------------------------------------------------------------------------------------------------
# oracle: the property statement, nothing else


def is_set(v) -> bool:
    return v != R.UNSET and v is not None and v is not False


def oracle(d: dict, eff: dict) -> bool:
    """May the task be executed?  mandatory fields set ∧ every set field with requirements has a requirement set whose
    fields are all set (to an allowed value where given) ∧ each exclusive group has at most one set field, exactly one
    unless the group contains None."""
    for f in d["fields"]:
        if eff[f["name"]] == R.UNSET:
            return False  # only mandatory fields can be unset (defaulted ones hold their default)
    for f in d["fields"]:
        if is_set(eff[f["name"]]) and f["requires"]:
            if not any(all(is_set(eff[n]) and (al is None or eff[n] in al) for n, al in rs) for rs in f["requires"]):
                return False
    for g in d["xor"]:
        k = sum(1 for n in g if n is not None and is_set(eff[n]))
        if k > 1 or (None not in g and k != 1):
            return False
    return True


def oracle_code(d: dict, eff: dict) -> bool:
    """Outside the quantifier (lazy values, readonly / path_template fields): what the code documents, clause by clause —
    the statement of C31_code_exact transcribed independently of the Lean model.  Used only for the fidelity streams."""
    kinds = {f["name"]: f["kind"] for f in d["fields"]}

    def unset(v):
        return isinstance(v, str) and v == R.UNSET

    def lazy(v):
        return isinstance(v, str) and v == R.LAZY

    def triggers(f, v):  # the field's own requirements are looked at
        return not (lazy(v) or v is None or v is False or (f["kind"] == "outopt" and v is True))

    def present(n):  # a required field counts as given
        v = eff[n]
        return not (v is None or (kinds[n] == "bool" and v is False))

    def allowed(n, al):
        v = eff[n]
        return al is None or (isinstance(v, str) and not unset(v) and not lazy(v) and v in al)

    def truthy(v):
        return lazy(v) or (not unset(v) and bool(v))

    for f in d["fields"]:
        v = eff[f["name"]]
        if unset(v) and f["kind"] not in R.EXT_KINDS:
            return False
        if triggers(f, v) and f["requires"] and not any(all(present(n) and allowed(n, al) for n, al in rs) for rs in f["requires"]):
            return False
    for g in d["xor"]:
        k = sum(1 for n in g if n is not None and truthy(eff[n]))
        if k > 1 or (k == 0 and None not in g):
            return False
    return True


def match_D51(d: dict, eff: dict) -> bool:
    """some member of an exclusive group holds the empty string"""
    return any(n is not None and eff[n] == "" for g in d["xor"] for n in g)


def match_D52(d: dict, eff: dict) -> bool:
    """a field of type `bool | None` holding False is named in a requirement set"""
    kinds = {f["name"]: f["kind"] for f in d["fields"]}
    return any(
        kinds[n] == "optbool" and eff[n] is False for f in d["fields"] for rs in f["requires"] for n, _ in rs
    )


# --------------------------------------------------------------------------------------------------


def enc(v):
    if isinstance(v, str) and v == R.UNSET:
        return {"unset": True}
    if isinstance(v, str) and v == R.LAZY:
        return {"lazy": True}
    return v


def model_query(d: dict, effs: list[dict]) -> dict:
    q = R.canon_def(d)
    return {"op": "rules", "fields": q["fields"], "xor": q["xor"], "assignments": [{k: enc(v) for k, v in e.items()} for e in effs]}


def canon_model_viol(v: list) -> list:
    out = []
    for kind, payload in v:
        out.append([kind, sorted(payload) if isinstance(payload, list) else payload])
    return sorted(out, key=lambda x: (x[0], str(x[1])))


def expected_submit(viol: list) -> dict:
    return {"exc": "ValueError", "ran": False, "jobdir": False} if viol else {"exc": None, "ran": True, "jobdir": True}


def run_defs(ctx, defs: list[dict], *, only: dict | None = None, accepted_probes: int | None = None):
    """Explore every assignment of every definition (or the single assignment `only`)."""
    if accepted_probes is None:
        accepted_probes = ctx.pick(3, 12)
    moddir = ctx.scratch / "mods"
    marker = ctx.scratch / "marker.txt"
    work = []
    for d in defs:
        cls = R.build(d, moddir)
        asgs = [only] if only is not None else R.assignments(d)
        effs = [R.effective(d, a) for a in asgs]
        impls = []
        n_acc = 0
        for i, (a, eff) in enumerate(zip(asgs, effs)):
            task = R.instantiate(cls, a)
            viol = R.canon_violations(task._rule_violations())
            probe = None
            if viol or n_acc < accepted_probes or only is not None:
                how = HOWS[(i + len(viol)) % 3]
                root = ctx.scratch / "cache" / f"{d['name']}_{i}"
                p = R.probe_submission(cls, a, root, how, marker)
                probe = {"exc": p["exc"], "ran": p["ran"], "jobdir": p["jobdir"]}
                ctx.count(f"submit:{how}")
                if not viol:
                    n_acc += 1
            impls.append({"viol": viol, "submit": probe})
        work.append((d, asgs, effs, impls))
        ctx.count(f"flavor={d['flavor']}")
        ctx.count(f"fields={len(d['fields'])}")
        ctx.count(f"reqsets={sum(len(f['requires']) for f in d['fields'])}")
        ctx.count(f"xor_groups={len(d['xor'])}" + ("+None" if any(None in g for g in d["xor"]) else ""))
    ans = ctx.driver("Rules", [model_query(d, effs) for d, _, effs, _ in work])
    for k, (d, asgs, effs, impls) in enumerate(work):
        m = ans[k] if ans is not None else None
        if m is not None and ("error" in m or not m.get("wf") or not m.get("closed")):
            ctx.tie_broken.append({"kind": "model-driver", "detail": f"definition rejected by the model: {json.dumps(m)[:300]}"})
            m = None
        has_rules = bool(d["xor"]) or any(f["requires"] for f in d["fields"])
        cd = R.canon_def(d)
        for j, (a, eff, impl) in enumerate(zip(asgs, effs, impls)):
            want = oracle(d, eff)
            accepted = not impl["viol"]
            spec_ok = accepted == want
            if impl["submit"] is not None:
                # violations are reported before any execution; an accepted task does execute
                spec_ok = spec_ok and impl["submit"] == expected_submit(impl["viol"])
            model = None
            if m is not None:
                mr = m["results"][j]
                mv = canon_model_viol(mr["viol"])
                model = {"viol": mv, "submit": expected_submit(mv) if impl["submit"] is not None else None}
                # the Lean spec must agree with the Python oracle, and C31_partial must be visible in the data
                if mr["spec"] != want:
                    ctx.tie_broken.append({"kind": "oracle-vs-lean-spec", "case": {"def": d, "assignment": a}, "lean": mr["spec"], "python": want})
                if mr["uniform"] and (not mv) != mr["spec"]:
                    ctx.tie_broken.append({"kind": "theorem-contradicted-by-driver", "case": {"def": d, "assignment": a}})
                # the match rules of D51/D52 are the negation of the Lean hypothesis `Uniform` of C31_partial
                if mr["uniform"] == (match_D51(d, eff) or match_D52(d, eff)):
                    ctx.tie_broken.append({"kind": "match-rule-vs-lean-Uniform", "case": {"def": d, "assignment": a}, "lean_uniform": mr["uniform"]})
            defect = None
            if not spec_ok:
                defect = "D51" if match_D51(d, eff) else ("D52" if match_D52(d, eff) else None)
            kinds = sorted({v[0] for v in impl["viol"]}) or ["accepted"]
            ctx.count("outcome:" + "+".join(kinds))
            case = {"def": d, "assignment": a}
            ctx.judge(
                case,
                impl,
                model,
                spec_ok,
                nontrivial=has_rules,
                defect=defect,
                key=json.dumps([cd, eff], sort_keys=True),
                what="_rule_violations / submission",
            )


def run_fidelity_defs(ctx, defs: list[dict], *, only: dict | None = None):
    """Streams outside the property's quantifier — `stream: "ext"` (readonly inputs, optional outargs with a path
    template: model flags exempt / optFileset) and `stream: "lazy"` (workflow node inputs connected to an upstream
    output).  Implementation vs model vs `oracle_code`; violating assignments are also submitted (must raise before any
    body runs)."""
    moddir = ctx.scratch / "mods"
    marker = ctx.scratch / "marker_f.txt"
    work = []
    for d in defs:
        cls = R.build(d, moddir)
        if d["stream"] == "lazy":
            asgs = [only] if only is not None else R.lazy_assignments(ctx.rng, d, ctx.pick(60, 200))
            if not asgs:
                continue
            mod = R.lazy_module(d, cls, moddir)
            viols = R.lazy_violations(mod, d, asgs)
        else:
            asgs = [only] if only is not None else R.assignments(d)
            viols = [R.canon_violations(R.instantiate(cls, a)._rule_violations()) for a in asgs]
        effs = [R.effective(d, a) for a in asgs]
        impls = []
        n_probe = 0
        for i, (a, viol) in enumerate(zip(asgs, viols)):
            probe = None
            if viol and (n_probe < ctx.pick(4, 30) or only is not None):
                n_probe += 1
                root = ctx.scratch / "cache_f" / f"{d['name']}_{i}"
                if d["stream"] == "lazy":
                    probe = R.lazy_submission(mod, d, a, root, marker)
                else:
                    p = R.probe_submission(cls, a, root, HOWS[i % 3], marker)
                    probe = {"exc": p["exc"], "ran": p["ran"] or p["jobdir"]}
                ctx.count(f"submit:{d['stream']}")
            impls.append({"viol": viol, "submit": probe})
        work.append((d, asgs, effs, impls))
        ctx.count(f"stream={d['stream']}")
        for f in d["fields"]:
            if f["kind"] in R.EXT_KINDS:
                ctx.count(f"kind={f['kind']}")
    ans = ctx.driver("Rules", [model_query(d, effs) for d, _, effs, _ in work])
    for k, (d, asgs, effs, impls) in enumerate(work):
        m = ans[k] if ans is not None else None
        if m is not None and ("error" in m or not m.get("wf")):
            ctx.tie_broken.append({"kind": "model-driver", "detail": f"definition rejected by the model: {json.dumps(m)[:300]}"})
            m = None
        cd = R.canon_def(d)
        for j, (a, eff, impl) in enumerate(zip(asgs, effs, impls)):
            want = oracle_code(d, eff)
            spec_ok = (not impl["viol"]) == want
            if impl["submit"] is not None:
                spec_ok = spec_ok and impl["submit"] == {"exc": "ValueError", "ran": False}
            model = None
            if m is not None:
                mv = canon_model_viol(m["results"][j]["viol"])
                model = {"viol": mv, "submit": ({"exc": "ValueError", "ran": False} if mv else {"exc": None, "ran": True}) if impl["submit"] is not None else None}
            ctx.count(f"outcome[{d['stream']}]:" + ("+".join(sorted({v[0] for v in impl["viol"]})) or "accepted"))
            ctx.judge(
                {"def": d, "assignment": a, "stream": d["stream"]},
                impl,
                model,
                spec_ok,
                nontrivial=True,
                defect=None,
                key=json.dumps([d["stream"], cd, eff], sort_keys=True),
                what=f"_rule_violations / submission ({d['stream']} stream, outside the quantifier)",
            )


# --------------------------------------------------------------------------------------------------
# corpus: witnesses of the known findings (mirrors of the Lean witness theorems)

W51 = {
    "def": {
        "flavor": "shell", "name": "W51", "empty": True,
        "fields": [{"name": "alpha", "kind": "optstr", "requires": []}, {"name": "beta", "kind": "optstr", "requires": []}],
        "xor": [["alpha", "beta"]],
    },
    "assignment": {"alpha": "", "beta": "x"},
}  # fmt: skip
W51b = {
    "def": {
        "flavor": "python", "name": "W51b", "empty": True,
        "fields": [{"name": "alpha", "kind": "optstr", "requires": [[["beta", None]]]}, {"name": "beta", "kind": "optstr", "requires": []}],
        "xor": [],
    },
    "assignment": {"alpha": "", "beta": None},
}  # fmt: skip
W52 = {
    "def": {
        "flavor": "python", "name": "W52", "empty": False,
        "fields": [{"name": "alpha", "kind": "optstr", "requires": [[["flag", None]]]}, {"name": "flag", "kind": "optbool", "requires": []}],
        "xor": [],
    },
    "assignment": {"alpha": "x", "flag": False},
}  # fmt: skip


def _accepted(ctx, w) -> tuple[bool, list]:
    cls = R.build(dict(w["def"], name=w["def"]["name"] + "_probe"), ctx.scratch / "mods")
    v = R.canon_violations(R.instantiate(cls, w["assignment"])._rule_violations())
    return (not v), v


def check_findings(ctx):
    """replay the witnesses of the known findings on the implementation"""
    known = {f["id"] for f in ctx.known()}
    acc51, v51 = _accepted(ctx, W51)
    acc51b, v51b = _accepted(ctx, W51b)
    acc52, v52 = _accepted(ctx, W52)
    if "D51" in known:
        ctx.finding(
            "D51",
            acc51 and v51b == [["requires", "alpha"]],
            f"xor {{alpha,beta}}, alpha='', beta='x' -> violations {v51}; alpha='' requiring unset beta -> {v51b}",
        )
    if "D52" in known:
        ctx.finding("D52", acc52, f"alpha='x' requires flag, flag: bool|None = False -> violations {v52}")


def corpus(ctx):
    check_findings(ctx)
    for w in (W51, W51b, W52):
        run_defs(ctx, [w["def"]], only=w["assignment"])
    cdir = core.VERIF / "corpus" / "rules"
    for f in sorted(cdir.glob("*.jsonl")):
        for line in f.read_text().splitlines():
            if line.strip():
                rec = json.loads(line)
                if rec.get("property", "C31") == "C31":
                    run_defs(ctx, [rec["def"]], only=rec.get("assignment"))


def gen_defs(ctx, n: int, tag: str) -> list[dict]:
    out = []
    for i in range(n):
        flavor = "python" if ctx.rng.random() < 0.5 else "shell"
        out.append(R.gen_rules_def(ctx.rng, flavor, f"T{tag}_{ctx.seed}_{i}"))
    return out


def gen_fidelity_defs(ctx, n_ext: int, n_lazy: int, tag: str) -> list[dict]:
    out = [R.gen_ext_def(ctx.rng, f"E{tag}_{ctx.seed}_{i}") for i in range(n_ext)]
    for i in range(n_lazy):
        d = R.gen_rules_def(ctx.rng, "python" if ctx.rng.random() < 0.5 else "shell", f"L{tag}_{ctx.seed}_{i}", empty_p=0.1)
        d["stream"] = "lazy"
        out.append(d)
    return out


def correspondence(ctx):
    core.assert_repo_loaded()
    corpus(ctx)
    run_defs(ctx, gen_defs(ctx, ctx.pick(26, 400), "c"))
    run_fidelity_defs(ctx, gen_fidelity_defs(ctx, ctx.pick(6, 60), ctx.pick(8, 80), "f"))


def search(ctx):
    run_defs(ctx, gen_defs(ctx, ctx.pick(80, 400), "s"), accepted_probes=2)
    run_fidelity_defs(ctx, gen_fidelity_defs(ctx, ctx.pick(10, 40), ctx.pick(10, 40), "t"))


def replay(ctx, rec):
    check_findings(ctx)
    if rec["case"].get("stream") in ("ext", "lazy"):
        run_fidelity_defs(ctx, [rec["case"]["def"]], only=rec["case"]["assignment"])
    else:
        run_defs(ctx, [rec["case"]["def"]], only=rec["case"]["assignment"])
