"""C03 — Workflow state propagation matches a nested-loop reference evaluation (DESIGN §6 C03, engine WfState §5.2).

LAYERED / PARTIAL.  Three parties per generated workflow:

  impl   the real pydra workflow (generated module, debug worker, fresh cache root)           harness/engines/wfstate.py
  spec   the Lean nested-loop interpreter with origin-tagged axes (WfState/Spec.lean)           } one driver call
  model  the Lean model of the code's mechanism, including its defects (WfState/Model.lean)     }

spec_ok = (impl == spec): the oracle is the Lean spec, which knows nothing about pydra's state machinery.
A disagreement impl != spec is attributed to a known finding only if (a) the Lean model predicts the implementation's
behaviour exactly (impl == model) and (b) the finding's match rule — a predicate on the case structure, implemented here
in Python and, independently, in Lean (WfState/Class.lean; the two are compared on every case) — holds.  A disagreement
on a workflow inside the class (`inClass`: no shared origins, no later-upstream-through-two-fields, no combiner that
removes all inherited axes of a node with an own splitter, no partially combined zip feeding another node, no node name that
is a substring of a foreign combiner key) is always a VIOLATION.
"""

from __future__ import annotations

import copy
import json
from pathlib import Path

from harness import core
from harness.engines import wfstate

META = {
    "engine": "WfState",
    "category": "proof",
    "design_ref": "§6 C03, §5.2",
    "technique": "Lean 4: mixed-radix routing theorem + node-level fan-in theorem + kernel-evaluated witnesses; "
    "executable Lean spec interpreter and Lean model of pydra's state machinery run against the implementation on generated workflows",
    "text": "PARTIAL (layered).  (1) WORKFLOW LEVEL, proved in Lean (C03_workflow_Simple_partial): for EVERY workflow of the "
    "decidable class Simple — any number of nodes and any wiring, own splitters absent / over one field / outer over two fields, "
    "list lengths >= 1, no combiner, no scalar splitter, and at every node the connected upstream states and the own splitter "
    "have pairwise disjoint duplicate-free axes, each upstream state feeds one field, no connected upstream state is fed by "
    "another connected one (NoSharedOrigin on axes) — the whole model of pydra's mechanism (both construction passes incl. "
    "_add_state_history/_complete_prev_state/_remove_repeated and the second pass of _create_graph, set_input_groups, "
    "prepare_states_ind/prepare_inputs, _split_task, LazyOutField._get_value) and the nested-loop reference both succeed with "
    "equal workflow outputs, equal job counts and equal job outputs at every node.  (2) NODE LEVEL, any number of upstream "
    "states and any axis sizes: the index that "
    "State.prepare_inputs assigns to an upstream in the outer product [_U1,…,_Uk] (+ own splitter) is the position of the job's "
    "coordinates restricted to that upstream's axes (C03_routing, mixed radix, by induction); for a node whose upstream final "
    "states have pairwise disjoint duplicate-free axes, each connected through one field, the model's inputs_ind entry equals "
    "the index the nested-loop reference reads (C03_fanin_disjoint, C03_chain); _add_state_history is the identity when no "
    "connected state's history meets a connected root (C03_history_noop); with duplicate-free keys the code's group selection "
    "by dictionary inclusion equals the reference's selection by coordinate restriction (C03_group_test).  (3) Kernel-evaluated "
    "witnesses show the model of the "
    "code differs from the reference on the diamond (|A|² jobs, D2) and on six further shapes, so C03_full_statement is "
    "stated and refuted for the model, not claimed.  NOT proved: Model.run = Spec.run for the rest of the empirical class "
    "(combiners, scalar splitters, shared origins the mechanism happens to handle) — there the composition is TESTED: every "
    "generated workflow (≤ 5 nodes; chain, fan-in, "
    "fan-out, triangle, diamond, random DAG, nodes optionally nested workflows; outer/inner splits over 1–2 of 3 fields, lists of length 1–3, combiners over own "
    "and inherited axes; a dense stream of chains/fan-ins whose nodes have an upstream state AND an own outer/scalar splitter AND a "
    "combiner over own / inherited / mixed axes; a wide stream of fan-ins of 3 and 4 independently split upstream nodes with pairwise "
    "different state sizes in every field order, with and without an own splitter on the consuming node — the encoder task has "
    "five input fields —, also with the first upstream feeding two fields) is executed by pydra (debug worker), by the Lean spec interpreter and by the Lean model; workflow outputs, "
    "per-node job counts and per-node job inputs (read from the cache root) are compared three ways; on every sixth workflow "
    "a second run over the same objects is compared with the model's second run (Model.runTwice, used by C30).",
    "note": "Trusted: Lean kernel; hand-written Lean model of State/_create_graph/NodeExecution/LazyOutField (tied to the code "
    "only by differential execution); generator reach (one task type whose output encodes its inputs; no splits over "
    "upstream outputs, nested workflows only as two-node encoders, no explicit `_U` references in splitters).  Inside the class every disagreement is "
    "a violation; outside it (shared origins etc.) agreement is reported as testing only.",
    "rule": "case = workflow graph (nodes with sources, own split, combiner; outputs); distinct by canonical JSON; "
    "non-trivial = at least one node has a stateful upstream (state actually propagates)",
    "assumptions": [
        "tasks are deterministic functions of their inputs (the encoder task)",
        "the debug worker executes nodes in graph order; other workers are the subject of C17",
    ],
    "trusted": ["Lean model of pydra/engine/state.py (workflow part), node.py, workflow.py::_create_graph, submitter.py::NodeExecution, lazy.py (WfState/Model.lean)"],
}

_NS = "PydraModel.WfState."
OBLIGATIONS = [
    _NS + n
    for n in (
        "C03_routing",
        "C03_job_enumeration",
        "C03_product_enumeration",
        "C03_fanin_disjoint",
        "C03_chain",
        "C03_history_noop",
        "C03_group_test",
        "C03_witness_diamond",
        "C03_triangle_agrees",
        "C03_witness_descendant",
        "C03_witness_rewired",
        "C03_witness_partial_zip",
        "C03_witness_comb_all_prev",
        "C03_witness_later_multi",
        "C03_witness_name_clash",
        "C03_witness_key_order",
        "C03_full_statement_false",
        "C03_no_shared_origin_not_enough",
        "C03_workflow_Simple_partial",
        "C03_complete_prev_state_first",
        "C03_complete_prev_state_again",
        "simpleExample_in_class",
        "simpleExample_jobs",
    )
]
LEAN_TARGETS = ["PydraModel.Props.C03"]
MODEL_TARGETS = [
    "PydraModel.WfState.Spec",
    "PydraModel.WfState.Model",
    "PydraModel.WfState.Rerun",
    "PydraModel.WfState.Class",
    "PydraModel.WfState.Simple",
    "PydraModel.DriverUtil",
]

F3 = ("x", "y", "z")  # the fields the random generators draw from
F5 = wfstate.FIELDS  # all fields of the encoder task, in the task's field order (wide fan-ins use u and v too)
CORPUS = core.VERIF / "corpus" / "wfstate"

# --------------------------------------------------------------------------------------------------------------------
# class predicates (Python mirror of WfState/Class.lean; compared with the Lean answer on every case)


def _lazy_ups(nd):
    return [(f, nd["in"][f]["n"]) for f in F5 if f in nd["in"] and "n" in nd["in"][f]]


def _sh_leaves(t):
    return [t] if isinstance(t, str) else _sh_leaves(t[0]) + _sh_leaves(t[1])


def _sh_remove(t, drop):
    """Shape of a splitter with the dropped axes removed (`None`: nothing left)."""
    if isinstance(t, str):
        return None if drop(t) else t
    l, r = _sh_remove(t[0], drop), _sh_remove(t[1], drop)
    if l is None:
        return r
    if r is None:
        return l
    return (l, r)


def _sh_keys(t, ks=None):
    """The key list `State.splits` builds for a splitter of this shape (mirror of `Sh.keys` in WfState/Class.lean): an
    unprocessed left operand of an already processed right operand goes in FRONT of all keys collected so far."""
    if ks is None:
        return [t] if isinstance(t, str) else _sh_keys(t, [])
    if isinstance(t, str):
        return ks
    l, r = t
    if isinstance(l, str) and isinstance(r, str):
        return ks + [l, r]
    if isinstance(l, str):
        return [l] + _sh_keys(r, ks)
    if isinstance(r, str):
        return _sh_keys(l, ks) + [r]
    return _sh_keys(r, _sh_keys(l, ks))


def analyse(case) -> dict:
    """Per-node origin bookkeeping: ups (stateful upstreams with fields), upAxes, own, comb (resolved), fin, hist."""
    infos: dict[str, dict] = {}
    alias: dict[str, str] = {}
    for nd in case["nodes"]:
        name = nd["name"]
        ups: list[list] = []
        for f, u in _lazy_ups(nd):
            if infos[u]["fin"]:
                for e in ups:
                    if e[0] == u:
                        e[1].append(f)
                        break
                else:
                    ups.append([u, [f]])
        up_axes: list[str] = []
        for u, _ in ups:
            up_axes += [a for a in infos[u]["fin"] if a not in up_axes]
        sp = nd.get("split")
        own: list[str] = []
        if sp:
            if sp[0] == "inner":
                own = [f"{name}.{sp[1]}"]
                alias[f"{name}.{sp[2]}"] = f"{name}.{sp[1]}"
            elif sp[0] == "outer":
                own = [f"{name}.{sp[1]}", f"{name}.{sp[2]}"]
            else:
                own = [f"{name}.{sp[0]}"]
        comb = [alias.get(c, c) for c in nd.get("combine") or []]
        fin = [a for a in up_axes + own if a not in comb]
        hist = [name] if own else []
        for u, _ in ups:
            hist += [h for h in infos[u]["hist"] if h not in hist]
        # shape (nesting) of the final splitter: the upstream shapes in connection order, then the own part; a zipped pair
        # contributes both fields
        own_shape = None
        if sp:
            own_shape = (f"{name}.{sp[1]}", f"{name}.{sp[2]}") if sp[0] in ("inner", "outer") else f"{name}.{sp[0]}"
        full = None
        for t in [infos[u]["shape"] for u, _ in ups] + [own_shape]:
            full = t if full is None else (full if t is None else (full, t))
        shape = None if full is None else _sh_remove(full, lambda a: alias.get(a, a) in comb)
        mis = bool(nd.get("combine")) and shape is not None and _sh_keys(shape) != _sh_leaves(shape)
        infos[name] = dict(ups=ups, upAxes=up_axes, own=own, comb=comb, fin=fin, hist=hist, shape=shape, misordered=mis)
    return {"infos": infos, "alias": alias}


def flags(case) -> dict:
    an = analyse(case)
    infos, alias = an["infos"], an["alias"]

    def shared(i):
        hs = [infos[u]["hist"] for u, _ in i["ups"]]
        return any(set(hs[a]) & set(hs[b]) for a in range(len(hs)) for b in range(a + 1, len(hs)))

    def roots(i):
        return [u for u, _ in i["ups"] if not infos[u]["ups"]]

    def triggers(i, v):
        iv = infos[v]
        return bool(iv["ups"]) and bool({u for u, _ in iv["ups"]} & set(roots(i)))

    consumers = {u for nd in case["nodes"] for _, u in _lazy_ups(nd)}

    def partial_zip(nd):
        comb = nd.get("combine") or []
        return any((a in comb) != (b in comb) for b, a in alias.items())

    sh = any(shared(i) for i in infos.values())
    fl = {
        "shared": sh,
        "dropsRoot": any(shared(i) and any(triggers(i, v) and infos[v]["own"] for v, _ in i["ups"]) for i in infos.values()),
        "mergesInto": any(shared(i) and any(triggers(i, v) and not infos[v]["own"] for v, _ in i["ups"]) for i in infos.values()),
        "sharedComb": sh and any(nd.get("combine") for nd in case["nodes"]),
        "laterMulti": any(any(len(fl) >= 2 for _, fl in i["ups"][1:]) for i in infos.values()),
        "combAllPrev": any(i["own"] and i["upAxes"] and all(a in i["comb"] for a in i["upAxes"]) for i in infos.values()),
        "partialZipFeeds": any(partial_zip(nd) and nd["name"] in consumers for nd in case["nodes"]),
        # State.current_combiner tests `self.name in comb` (substring): a key of another node that contains this node's name
        "nameClash": any(nd["name"] in c and not c.startswith(nd["name"] + ".") for nd in case["nodes"] for c in nd.get("combine") or []),
        # the shape on which State.splits' OLD key bookkeeping listed the keys of a combined state out of nesting order
        # (D46, fixed): a coverage counter, inside the class
        "keyOrder": any(i["misordered"] for i in infos.values()),
    }
    fl = {k: bool(v) for k, v in fl.items()}
    # keyOrder is NOT an exclusion: D46 is fixed (/repo 932a47fa), the shape must agree with the reference
    fl["inClass"] = not (fl["shared"] or fl["laterMulti"] or fl["combAllPrev"] or fl["partialZipFeeds"] or fl["nameClash"])
    return fl


def kind_of(obs: dict, spec: dict) -> str:
    """How an observable differs from the reference: ok / exception class / morejobs / wrongvals."""
    if obs == spec:
        return "ok"
    if "error" in obs:
        return obs["error"]
    if "error" in spec:
        return "spec-error"
    if obs.get("jobs") != spec.get("jobs"):
        return "morejobs"
    return "wrongvals"


def attribute(fl: dict, kind: str) -> str | None:
    """Match rules of the known findings: (class flags of the case, failure mode predicted by the Lean model) -> finding id.
    Nothing inside the class is ever attributed; outside the class every failure mode is mapped (the attribution only
    counts when the model predicts the implementation's behaviour exactly, see `run_cases`)."""
    if fl["inClass"] or kind == "ok":
        return None
    errors = ("AttributeError", "PydraStateError", "TypeError", "KeyError", "IndexError", "ValueError", "AssertionError")
    if fl["nameClash"]:
        # the combiner key of an inherited axis is treated as the node's own: the axis is not combined in the prev-state part
        return "D39"
    if fl["partialZipFeeds"] and kind in ("AttributeError", "PydraStateError", "TypeError"):
        # depth() says "no state", splitter_rpn_final says "state": no setter / missing attribute, or — when the
        # re-applied update_connections adds the upstream to an existing list — the nested-list TypeError
        return "D29"
    if fl["combAllPrev"] and kind == "ValueError":
        return "D37"
    if fl["shared"]:
        if kind == "TypeError":
            return "D30"
        if kind == "ValueError" and fl["dropsRoot"] and not fl["sharedComb"]:
            return "D31"  # two own-splitter descendants of one connected root: the root is removed twice (list.remove)
        if kind in errors:
            return "D36" if fl["sharedComb"] else ("D31" if fl["dropsRoot"] else "D30")
        if kind == "morejobs":
            return "D2"
        if kind == "wrongvals":
            return "D31" if fl["dropsRoot"] else ("D36" if fl["sharedComb"] else "D2")
    if fl["laterMulti"] and kind in ("wrongvals", "morejobs"):
        return "D38"
    if fl["partialZipFeeds"]:
        return "D29"
    if fl["combAllPrev"]:
        return "D37"
    if fl["laterMulti"]:
        return "D38"
    return None


# --------------------------------------------------------------------------------------------------------------------
# generator


def _fresh(rng, counter):
    k = rng.choice([1, 2, 2, 3])
    base = counter[0]
    counter[0] += 10
    return [base + i for i in range(k)]


def _spec_jobs(case) -> int:
    """Number of jobs the reference will run (generator-side budget only)."""
    an = analyse(case)["infos"]
    sizes = {}
    for nd in case["nodes"]:
        for f, s in nd["in"].items():
            if "l" in s:
                sizes[f"{nd['name']}.{f}"] = len(s["l"])
    total = 0
    for i in an.values():
        n = 1
        for a in i["upAxes"] + i["own"]:
            n *= sizes.get(a, 1)
        total += n
    return total


SHAPES = ["random", "random", "random", "chain", "fanin", "fanout", "triangle", "diamond"]


def _wiring(rng, shape: str, n: int) -> list[dict[str, str]]:
    """Upstream wiring per node: field -> upstream name (structured shapes; 'random' is wired in gen_case)."""
    nm = [f"N{i}" for i in range(n)]
    w: list[dict[str, str]] = [dict() for _ in range(n)]
    if shape == "chain":
        for i in range(1, n):
            w[i][rng.choice(F3)] = nm[i - 1]
    elif shape == "fanin":
        fs = rng.sample(F3, min(3, n - 1))
        for f, u in zip(fs, nm[: n - 1]):
            w[n - 1][f] = u
        if n - 1 > 3:
            w[n - 2][rng.choice(F3)] = nm[0]
    elif shape == "fanout":
        for i in range(1, n):
            w[i][rng.choice(F3)] = nm[0]
    elif shape == "triangle":
        w[1]["x"] = nm[0]
        fx, fy = rng.sample(F3, 2)
        w[2][fx], w[2][fy] = nm[0], nm[1]
        for i in range(3, n):
            w[i][rng.choice(F3)] = nm[rng.randrange(i)]
    elif shape == "diamond":
        w[1][rng.choice(F3)] = nm[0]
        w[2][rng.choice(F3)] = nm[0]
        fx, fy = rng.sample(F3, 2)
        w[3][fx], w[3][fy] = nm[1], nm[2]
        for i in range(4, n):
            w[i][rng.choice(F3)] = nm[rng.randrange(i)]
    return w


def gen_case(rng, p_comb: float = 0.3, max_jobs: int = 40, p_dense: float = 0.45, p_wide: float = 0.15) -> dict:
    r = rng.random()
    if r < p_wide:
        return _gen_wide(rng)  # has its own job budget (24–48 jobs at the fan-in are the point)
    for _ in range(50):
        c = _gen_dense(rng) if rng.random() < p_dense / (1 - p_wide) else _gen_case(rng, p_comb)
        if _spec_jobs(c) <= max_jobs:
            return c
    return c


def _gen_wide(rng) -> dict:
    """The wide stream: a node fed by THREE or FOUR independently split upstream nodes (no shared origins: inside the proved
    class) whose states have PAIRWISE DIFFERENT sizes, in every order of the connected fields — `State.prepare_inputs`
    builds the outer product of the upstream index ranges one factor at a time, and only ≥ 3 factors of different sizes
    tell the factors apart.  With and without an own splitter on the consuming node (fields u, v make room for it), with
    the first upstream feeding two fields (zipped by the code: in the class), optionally with one upstream reached through
    a pass-through node, an outer own splitter on a root, or a combiner over one inherited axis."""
    k = rng.choice([3, 3, 3, 4])
    own = rng.random() < 0.5
    sizes = rng.sample([1, 2, 3] if k == 3 else [1, 2, 3, 4], k)  # pairwise different, in random order
    counter = [0]

    def lst(n):
        base = counter[0]
        counter[0] += 10
        return [base + i for i in range(n)]

    nodes, ups = [], []
    via = rng.randrange(k) if (k == 3 and rng.random() < 0.3) else None  # this upstream is reached through a pass-through node
    for j in range(k):
        name = f"N{len(nodes)}"
        f = rng.choice(F3)
        if k == 3 and sizes[j] == 2 and rng.random() < 0.25:
            g = rng.choice([h for h in F3 if h != f])
            nd = {"name": name, "in": {f: {"l": lst(2)}, g: {"l": lst(1)}}, "split": ["outer", f, g], "combine": []}
        else:
            nd = {"name": name, "in": {f: {"l": lst(sizes[j])}}, "split": [f], "combine": []}
            if rng.random() < 0.2:
                nd["in"][f]["w"] = 1
        nodes.append(nd)
        if via == j:
            p = {"name": f"N{len(nodes)}", "in": {rng.choice(F3): {"n": name}}, "split": None, "combine": [], "wf": rng.random() < 0.2}
            nodes.append(p)
            ups.append(p["name"])
        else:
            ups.append(name)
    fields = list(F5)
    rng.shuffle(fields)
    ins = {}
    order = list(ups)
    rng.shuffle(order)  # which upstream sits on which field: every order of the factors
    for u in order:
        ins[fields.pop()] = {"n": u}
    split = None
    if own:
        if len(fields) >= 2 and rng.random() < 0.35:
            f, g = fields.pop(), fields.pop()
            ins[f], ins[g] = {"l": lst(2)}, {"l": lst(1)}
            split = ["outer", f, g]
        else:
            f = fields.pop()
            ins[f] = {"l": lst(rng.choice([1, 2, 2]))}
            split = [f]
    if fields and rng.random() < 0.2:
        first = min((f for f in ins if "n" in ins[f]), key=F5.index)
        ins[fields.pop()] = {"n": ins[first]["n"]}  # the FIRST upstream (in field order) through two fields
    for f in fields:
        if rng.random() < 0.3:
            ins[f] = {"c": rng.choice([0, 5, "s"])}
    name = f"N{len(nodes)}"
    nd = {"name": name, "in": ins, "split": split, "combine": []}
    nodes.append(nd)
    if rng.random() < 0.2:
        # combine one inherited axis (never all inherited axes of a node with an own splitter: D37)
        root = nodes[0]
        nd["combine"] = [f"{root['name']}.{root['split'][-1] if len(root['split']) == 1 else root['split'][1]}"]
    outs = [name] + ([rng.choice(ups)] if rng.random() < 0.25 else [])
    return {"nodes": nodes, "out": outs, "shape": "wide"}


def _gen_dense(rng) -> dict:
    """The dense stream: chains and fan-ins WITHOUT shared origins in which the non-root nodes have upstream state AND an
    own splitter (outer / scalar over two fields, or one field) AND a combiner drawn systematically from: a proper subset
    of the own fields (for a scalar splitter: one field of the zipped pair), all own fields, one inherited axis, all
    inherited axes, own + inherited mixed, none.  Lists have 1–2 elements so that the cases are cheap."""
    n = rng.choice([2, 3, 3, 4])
    nroots = 1 if n == 2 else rng.choice([1, 2, 2])
    counter = [0]

    def lst(k=None):
        k = k or rng.choice([1, 2, 2])
        base = counter[0]
        counter[0] += 10
        return [base + i for i in range(k)]

    nodes: list[dict] = []
    for i in range(n):
        name = f"N{i}"
        ins: dict = {}
        if i < nroots:
            ups: list[str] = []
        else:
            # upstreams with pairwise disjoint origins (the proved class), one field each; the first may take two fields
            info = analyse({"nodes": nodes})["infos"]
            cand = [m["name"] for m in nodes]
            rng.shuffle(cand)
            ups, seen = [], set()
            for u in cand:
                h = set(info[u]["hist"])
                if info[u]["fin"] and not (h & seen) and len(ups) < rng.choice([1, 1, 2]):
                    ups.append(u)
                    seen |= h
            if not ups:
                ups = [cand[0]]
        free = list(F3)
        rng.shuffle(free)
        for u in ups:
            ins[free.pop()] = {"n": u}
        if ups and len(ups) == 1 and len(free) == 2 and rng.random() < 0.15:
            ins[free.pop()] = {"n": ups[0]}  # the first (only) upstream through two fields: zipped correctly by the code
        split = None
        r = rng.random()
        if i < nroots or r < 0.85:
            if len(free) >= 2 and rng.random() < (0.55 if i < nroots else 0.7):
                op = rng.choice(["outer", "inner", "inner"] if i >= nroots else ["outer", "inner"])
                f1, f2 = free[0], free[1]
                if rng.random() < 0.5:
                    f1, f2 = f2, f1
                l1 = lst()
                l2 = [v + 100 for v in l1] if op == "inner" else lst()
                ins[f1], ins[f2] = {"l": l1}, {"l": l2}
                split = [op, f1, f2]
            elif free:
                f = free[0]
                ins[f] = {"l": lst()}
                split = [f]
            if split and rng.random() < 0.25:
                for f in split[1:] if len(split) == 3 else split:
                    ins[f]["w"] = 1
        for f in F3:
            if f not in ins and rng.random() < 0.3:
                ins[f] = {"c": rng.choice([0, 5, "s"])}
        nd = {"name": name, "in": ins, "split": split, "combine": []}
        nodes.append(nd)
        an = analyse({"nodes": nodes})
        me = an["infos"][name]
        inv = {a: b for b, a in an["alias"].items()}
        own, inh = me["own"], me["upAxes"]

        def fields(a):  # the field names that spell axis `a` in a combiner
            return [a, inv[a]] if a in inv else [a]

        variants = [[]]
        if own:
            variants.append(fields(own[0])[:1])  # proper subset of the own fields (one field of a zipped pair / one axis)
            if len(fields(own[0])) == 2:
                variants.append(fields(own[0])[1:])  # the other field of the zipped pair
            variants.append([f for a in own for f in fields(a)])  # all own fields
            if len(own) == 2:
                variants.append(fields(own[1]))
        if inh:
            variants.append(fields(inh[0]))  # one inherited axis
            if len(inh) > 1:
                variants.append(fields(inh[-1]))
                variants.append([f for a in inh for f in fields(a)])  # all inherited axes
            if own:
                variants.append(fields(own[0])[:1] + fields(inh[-1]))  # mixed
                variants.append(fields(inh[0]) + [f for a in own for f in fields(a)])
        if i >= nroots or rng.random() < 0.3:
            # combiners that remove every inherited axis of a node with an own splitter are D37 (outside the class): rare
            def covers(v):
                res = {an["alias"].get(c, c) for c in v}
                return bool(own) and bool(inh) and all(a in res for a in inh)

            pool = variants if rng.random() < 0.15 else [v for v in variants if not covers(v)]
            nd["combine"] = list(rng.choice(pool if rng.random() < 0.85 else [[]]))
            if i == n - 1 and own and own[0] in inv and rng.random() < 0.45:
                # the last node may combine ONE field of its zipped pair (in the class: nothing consumes it); the code has to
                # close the combiner over the pair (`_current_combiner_all`) — with or without inherited axes next to it
                nd["combine"] = [rng.choice(fields(own[0]))] + ([f for f in fields(inh[0])] if len(inh) > 1 and rng.random() < 0.3 else [])
        # a partially combined zip must not feed another node (D29, outside the class): keep it for the last node only
        if i < n - 1 and any((a in nd["combine"]) != (b in nd["combine"]) for b, a in an["alias"].items()):
            nd["combine"] = [f for c in nd["combine"] for f in fields(an["alias"].get(c, c))]
            nd["combine"] = list(dict.fromkeys(nd["combine"]))
    outs = [nodes[-1]["name"]]
    if n > 2 and rng.random() < 0.4:
        outs.append(rng.choice([m["name"] for m in nodes[:-1]]))
    return {"nodes": nodes, "out": outs, "shape": "dense"}


def _gen_case(rng, p_comb: float) -> dict:
    shape = rng.choice(SHAPES)
    lo = {"triangle": 3, "diamond": 4, "fanin": 3}.get(shape, 2)
    n = rng.choice([k for k in (2, 3, 3, 4, 4, 5) if k >= lo])
    wiring = _wiring(rng, shape, n) if shape != "random" else None
    nodes: list[dict] = []
    counter = [0]
    for i in range(n):
        name = f"N{i}"
        ins: dict = {}
        prev = [nd["name"] for nd in nodes]
        if wiring is not None:
            for f, u in wiring[i].items():
                ins[f] = {"n": u}
            for f in F3:
                if f not in ins and rng.random() < 0.5:
                    ins[f] = {"c": rng.choice([0, 5, "s"])}
        else:
            for f, p in zip(F3, (0.75, 0.45, 0.2)):
                r = rng.random()
                if prev and r < p:
                    ins[f] = {"n": rng.choice(prev)}
                elif r < 0.8:
                    ins[f] = {"c": rng.choice([0, 5, "s"])}
        free = [f for f in F3 if f not in ins or "c" in ins[f]]
        split = None
        if free and rng.random() < (0.85 if i == 0 else 0.35):
            if len(free) >= 2 and rng.random() < 0.5:
                op = rng.choice(["outer", "inner"])
                f1, f2 = sorted(rng.sample(free, 2))
                if rng.random() < 0.2:
                    f1, f2 = f2, f1
                l1 = _fresh(rng, counter)
                l2 = [v + 100 for v in l1] if op == "inner" else _fresh(rng, counter)
                ins[f1], ins[f2] = {"l": l1}, {"l": l2}
                split = [op, f1, f2]
            else:
                f = rng.choice(free)
                ins[f] = {"l": _fresh(rng, counter)}
                split = [f]
            if rng.random() < 0.3:  # pass the lists through workflow inputs (lazy at construction)
                for f in split[1:] if len(split) == 3 else split:
                    ins[f]["w"] = 1
        nd = {"name": name, "in": ins, "split": split, "combine": []}
        if rng.random() < 0.12:
            nd["wf"] = True  # the node is a nested workflow (two encoder nodes inside)
        nodes.append(nd)
        # combiner over the axes the reference gives this node
        info = analyse({"nodes": nodes})
        axes = info["infos"][name]["upAxes"] + info["infos"][name]["own"]
        if axes and rng.random() < p_comb:
            k = rng.choice([1, 1, 2, len(axes)])
            chosen = rng.sample(axes, min(k, len(axes)))
            inv = {}
            for b, a in info["alias"].items():
                inv[a] = b
            comb = []
            for a in chosen:
                if a in inv:  # zipped axis: name both fields, or (less often) only one of them
                    r = rng.random()
                    comb += [a, inv[a]] if r < 0.7 else ([a] if r < 0.85 else [inv[a]])
                else:
                    comb.append(a)
            nd["combine"] = comb
    outs = [nodes[-1]["name"]]
    if n > 2 and rng.random() < 0.4:
        outs.append(rng.choice([nd["name"] for nd in nodes[:-1]]))
    case = {"nodes": nodes, "out": outs, "shape": shape}
    if rng.random() < 0.1:
        # a node whose name is a field name ("x" is a substring of every key "<node>.x"): pydra classifies combiner keys by
        # substring containment of the node name
        case = rename(case, rng.choice([nd["name"] for nd in nodes]), rng.choice(F3))
    return case


def rename(case: dict, old: str, new: str) -> dict:
    """Rename node `old` to `new` everywhere (names, upstream references, dotted combiner keys, outputs)."""

    def key(c):
        n, f = c.split(".", 1)
        return f"{new}.{f}" if n == old else c

    nodes = []
    for nd in case["nodes"]:
        nd2 = dict(nd, name=new if nd["name"] == old else nd["name"])
        nd2["in"] = {f: ({"n": new} if s.get("n") == old else s) for f, s in nd["in"].items()}
        nd2["combine"] = [key(c) for c in nd.get("combine") or []]
        nodes.append(nd2)
    return dict(case, nodes=nodes, out=[new if o == old else o for o in case["out"]])


# --------------------------------------------------------------------------------------------------------------------
# shrinking (delta debugging on the case structure)


def _valid(case) -> bool:
    names = []
    for nd in case["nodes"]:
        for _, u in _lazy_ups(nd):
            if u not in names:
                return False
        names.append(nd["name"])
    if not case["out"] or any(o not in names for o in case["out"]):
        return False
    an = analyse(case)
    for nd in case["nodes"]:
        i = an["infos"][nd["name"]]
        if any(c not in i["upAxes"] + i["own"] for c in i["comb"]):
            return False
        sp = nd.get("split")
        if sp:
            for f in sp[1:] if len(sp) == 3 else sp:
                if "l" not in nd["in"].get(f, {}):
                    return False
            if sp[0] == "inner" and len(nd["in"][sp[1]]["l"]) != len(nd["in"][sp[2]]["l"]):
                return False
    return True


def _neighbours(case):
    nodes = case["nodes"]
    # drop a node nobody needs
    for k in range(len(nodes) - 1, -1, -1):
        name = nodes[k]["name"]
        c = copy.deepcopy(case)
        del c["nodes"][k]
        c["out"] = [o for o in c["out"] if o != name]
        yield c
    # drop an output
    for k in range(len(case["out"])):
        c = copy.deepcopy(case)
        del c["out"][k]
        yield c
    for k, nd in enumerate(nodes):
        if nd.get("combine"):
            for j in range(len(nd["combine"])):
                c = copy.deepcopy(case)
                del c["nodes"][k]["combine"][j]
                yield c
            c = copy.deepcopy(case)
            c["nodes"][k]["combine"] = []
            yield c
        for f, s in nd["in"].items():
            c = copy.deepcopy(case)
            if "n" in s:
                c["nodes"][k]["in"][f] = {"c": 0}
                yield c
                c = copy.deepcopy(case)
                del c["nodes"][k]["in"][f]
                yield c
            elif "l" in s:
                if len(s["l"]) > 1:
                    sp = nd.get("split") or []
                    zipped = [g for g in sp[1:]] if sp and sp[0] == "inner" else [f]
                    for g in zipped:
                        c["nodes"][k]["in"][g]["l"] = c["nodes"][k]["in"][g]["l"][:-1]
                    yield c
                if s.get("w"):
                    c = copy.deepcopy(case)
                    del c["nodes"][k]["in"][f]["w"]
                    yield c
            else:
                del c["nodes"][k]["in"][f]
                yield c
        sp = nd.get("split")
        if sp:
            c = copy.deepcopy(case)
            c["nodes"][k]["split"] = None
            for f in sp[1:] if len(sp) == 3 else sp:
                c["nodes"][k]["in"][f] = {"c": 0}
            yield c
            if len(sp) == 3:
                c = copy.deepcopy(case)
                c["nodes"][k]["split"] = [sp[1]]
                c["nodes"][k]["in"][sp[2]] = {"c": 0}
                yield c


def shrink(case, still_fails, budget: int = 150):
    """Greedy delta debugging: keep applying the first structural reduction that preserves `still_fails`."""
    case = copy.deepcopy(case)
    improved = True
    while improved and budget > 0:
        improved = False
        for c in _neighbours(case):
            if budget <= 0:
                break
            if not _valid(c):
                continue
            budget -= 1
            if still_fails(c):
                case, improved = c, True
                break
    return case


# --------------------------------------------------------------------------------------------------------------------
# running


def _strip(case):
    return {"nodes": case["nodes"], "out": case["out"]}


def _norm(obs, case):
    """Lean answers carry every job's *output* (`jobouts`); the implementation is observed through the jobs' *inputs* read
    from the cache root: strip the tag (and the wrapper of a nested-workflow node) and sort, as the engine does."""
    if not isinstance(obs, dict) or "jobouts" not in obs:
        return obs
    nested = {nd["name"] for nd in case["nodes"] if nd.get("wf")}
    ins = {}
    for name, outs in obs["jobouts"].items():
        ins[name] = sorted(json.dumps((o[1] if name in nested else o)[1:], sort_keys=True) for o in outs)
    r = {k: v for k, v in obs.items() if k != "jobouts"}
    r["jobins"] = ins
    return r


def run_cases(ctx, cases, label="generated"):
    cases = [c for c in cases]
    impls, reruns = [], []
    for k, c in enumerate(cases):
        # every sixth workflow is run a second time over the same constructed objects (C30's repeated-run model)
        r = wfstate.run_case(_strip(c), ctx.scratch, rerun=(k % 6 == 0))
        r.pop("phase", None)
        reruns.append(r.pop("rerun", None))
        impls.append(r)
    ans = ctx.driver("WfState", [_strip(c) for c in cases])
    results = []
    for k, (c, i) in enumerate(zip(cases, impls)):
        fl = flags(c)
        a = ans[k] if ans is not None else None
        if a is not None and ("error" in a and "spec" not in a):
            ctx.tie_broken.append({"kind": "driver-rejected-case", "case": c, "detail": a})
            continue
        spec = _norm(a["spec"], c) if a else None
        model = _norm(a["model"], c) if a else None
        if a is not None:
            lean_fl = {k2: a["cls"].get(k2) for k2 in fl}
            if lean_fl != fl:
                ctx.tie_broken.append({"kind": "class-predicate-mismatch", "case": c, "python": fl, "lean": lean_fl})
            if not a["cls"].get("wellFormed"):
                ctx.tie_broken.append({"kind": "generator-left-domain", "case": c})
            if a["cls"].get("simple"):
                # the class of the workflow-level theorem: inside the empirical class, and model = reference (proved)
                ctx.count("class:Simple (theorem applies)")
                ctx.extra["simple_class_cases"] = ctx.extra.get("simple_class_cases", 0) + 1
                if not fl["inClass"] or a["model"] != a["spec"]:
                    ctx.tie_broken.append({"kind": "Simple-class-contradicts-theorem-or-inClass", "case": c, "flags": fl,
                                           "model": a["model"], "spec": a["spec"]})
            if reruns[k] is not None and a.get("model2") is not None:
                m2 = _norm(a["model2"], c)
                first = {k2: v for k2, v in i.items()}
                same = reruns[k] == first
                ctx.count("rerun:" + ("same-as-first" if same else "differs-from-first") + (":in-class" if fl["inClass"] else ":outside"))
                if m2 != reruns[k]:
                    if fl["inClass"]:
                        ctx.tie_broken.append({"kind": "second-run-model-disagrees", "case": c, "impl_second": reruns[k], "model_second": m2})
                    else:
                        ctx.count("rerun:model-disagrees-outside-class")
                elif not same and fl["inClass"]:
                    # a second run that differs inside the class would be a C30 defect no finding explains
                    ctx.tie_broken.append({"kind": "second-run-differs-inside-class", "case": c, "first": first, "second": reruns[k]})
        if model is not None and ("unmodelled" in model or "malformed" in model):
            ctx.count("model:unmodelled")
            model = None
        if spec is None:
            continue
        spec_ok = i == spec
        kind = kind_of(i, spec)
        mkind = kind_of(model, spec) if model is not None else None
        defect = attribute(fl, mkind if mkind is not None else kind)
        ups = any(analyse(c)["infos"][nd["name"]]["ups"] for nd in c["nodes"])
        ctx.count(f"shape:{c.get('shape', label)}")
        ctx.count(f"nodes={len(c['nodes'])}")
        if any(nd.get("wf") for nd in c["nodes"]):
            ctx.count("has-nested-workflow-node")
        ctx.count("class:in" if fl["inClass"] else "class:outside")
        ctx.count(f"impl:{kind}")
        if not fl["inClass"]:
            for k2 in ("shared", "laterMulti", "combAllPrev", "partialZipFeeds", "nameClash", "keyOrder"):
                if fl[k2]:
                    ctx.count(f"outside:{k2}")
        # density of the node kind the state machinery is most delicate for
        an_i = analyse(c)["infos"]
        for nd in c["nodes"]:
            i2 = an_i[nd["name"]]
            if i2["ups"] and i2["own"]:
                kind2 = "none" if not nd.get("combine") else (
                    "own" if all(a in i2["own"] for a in i2["comb"]) else ("inherited" if all(a in i2["upAxes"] for a in i2["comb"]) else "mixed"))
                zipped = nd["split"][0] == "inner"
                ctx.count(f"node:upstream+own-{'scalar' if zipped else ('outer' if len(nd['split']) == 3 else 'single')}+comb-{kind2}" + (":in-class" if fl["inClass"] else ""))
        ctx.extra["in_class_cases"] = ctx.extra.get("in_class_cases", 0) + (1 if fl["inClass"] else 0)
        ctx.extra["outside_class_cases"] = ctx.extra.get("outside_class_cases", 0) + (0 if fl["inClass"] else 1)
        if not fl["inClass"] and spec_ok:
            ctx.extra["outside_class_agreeing_with_reference"] = ctx.extra.get("outside_class_agreeing_with_reference", 0) + 1
        v = ctx.judge(
            c,
            i,
            model,
            spec_ok,
            nontrivial=ups,
            defect=defect,
            what=f"workflow outputs and per-node job counts vs Lean nested-loop reference; failure mode {kind}; flags "
            + ",".join(k2 for k2, b in fl.items() if b),
        )
        results.append((c, i, spec, model, v))
    return results


def load_corpus(name):
    p = CORPUS / name
    if not p.exists():
        return []
    return [json.loads(l) for l in p.read_text().splitlines() if l.strip()]


WHAT = {
    "D2": "morejobs",
    "D29": "AttributeError",
    "D30": "TypeError",
    "D31": "wrongvals",
    "D37": "ValueError",
    "D38": "wrongvals",
    "D36": "KeyError",
    "D39": "wrongvals",
}


PINNED_FINGERPRINT = "f5a40c82e41143e9"  # sha256 prefix of the source of the modelled functions at the pinned commit


def fingerprint() -> str:
    """Source fingerprint of the functions the Lean model mirrors.  Not a verdict: when it differs from the pinned one the
    model is being compared with changed code, and the generation budget is raised."""
    import hashlib
    import inspect

    import pydra.engine.state as st
    from pydra.engine.lazy import LazyOutField
    from pydra.engine.node import Node
    from pydra.engine.state import State
    from pydra.engine.submitter import NodeExecution
    from pydra.engine.workflow import Workflow

    objs = [
        State._connect_splitters, State._complete_prev_state, State._remove_repeated, State._add_state_history,
        State._prevst_current_check, State.set_input_groups, State._merge_previous_groups, State._add_current_groups,
        State.prepare_states_ind, State.prepare_states_combined_ind, State.prepare_inputs, State.splits, State.depth,
        st.splits_groups, st.combine_final_groups, st.remove_inp_from_splitter_rpn,
        Node._get_upstream_states, Node._set_state, Workflow._create_graph,
        NodeExecution.start, NodeExecution._split_task, NodeExecution._resolve_lazy_inputs, LazyOutField._get_value,
    ]  # fmt: skip
    h = hashlib.sha256()
    for o in objs:
        h.update(inspect.getsource(o).encode())
    return h.hexdigest()[:16]


def correspondence(ctx):
    core.assert_repo_loaded()
    try:
        fpr = fingerprint()
    except Exception as e:  # noqa: BLE001  (a modelled function disappeared: certainly changed code)
        fpr = f"unavailable:{core.exc_tag(e)}"
    ctx.extra["modelled_source_fingerprint"] = fpr
    changed = fpr != PINNED_FINGERPRINT
    if changed:
        ctx.notes.append("modelled functions differ from the pinned commit: generation budget doubled")
    ctx.extra["proved_class_cases"] = (
        "see in_class_cases: the node-level theorems' hypotheses hold at every node; the workflow-level agreement there "
        "is checked on every case, not proved"
    )
    known = {f["id"] for f in ctx.known()}
    # corpus first: witnesses of the known findings, then regression cases that must pass; then seeded generation.
    # One batch = one driver start (the Lean driver costs seconds to start, nothing per case).
    findings = load_corpus("findings.jsonl")
    cases = [dict(r["case"], shape="corpus", corpus_id=r["id"]) for r in findings]
    cases += [dict(r["case"], shape="corpus", corpus_id=r["id"]) for r in load_corpus("regressions.jsonl")]
    # minimised past disagreements between the model and the implementation (each must now be predicted exactly)
    cases += [dict(r["case"], shape="corpus", corpus_id=r["id"]) for r in load_corpus("past_disagreements.jsonl")]
    # D46 (fixed): the targeted key-order cases must agree with the reference — all of them in the thorough tier, a
    # sixth per seed in the quick tier
    ko = load_corpus("key_order.jsonl")
    cases += [dict(r["case"], shape="corpus", corpus_id=r["id"]) for k, r in enumerate(ko) if ctx.tier == "thorough" or k % 6 == ctx.seed % 6]
    n = ctx.pick(110, 2000) * (2 if changed else 1)
    cases += [gen_case(ctx.rng, max_jobs=ctx.pick(32, 90)) for _ in range(n)]
    res = run_cases(ctx, cases)
    by_id = {c.get("corpus_id"): (c, i, spec, model) for c, i, spec, model, _ in res if c.get("corpus_id")}
    for rec in findings:
        if rec["id"] in known and rec["id"] in by_id:
            c, i, spec, model = by_id[rec["id"]]
            kind = kind_of(i, spec)
            ctx.finding(
                rec["id"],
                kind != "ok",
                f"witness gives {kind} (recorded: {rec.get('expect')}); model predicts {kind_of(model, spec) if model else 'n/a'}",
            )
    # minimise what is about to be reported (bounded effort), so that the replay is small
    if ctx.violations:
        _minimise(ctx)


def _minimise(ctx):
    out = []
    for v in ctx.violations[: ctx.pick(2, 3)]:
        case = v.get("case")
        if not isinstance(case, dict) or "nodes" not in case:
            out.append(v)
            continue

        def still(c):
            r = wfstate.run_case(_strip(c), ctx.scratch)
            r.pop("phase", None)
            a = core.Driver("WfState").run([_strip(c)])[0]
            if "spec" not in a:
                return False
            fl = flags(c)
            sp = _norm(a["spec"], c)
            m = _norm(a["model"], c) if "unmodelled" not in a["model"] else None
            bad = r != sp
            explained = bad and (m is None or m == r) and attribute(fl, kind_of(m if m is not None else r, sp)) is not None
            return bad and not explained

        try:
            small = shrink(case, still, budget=ctx.pick(8, 60))
        except Exception:  # noqa: BLE001  (shrinking is best effort)
            small = case
        v = dict(v, case=dict(small, shrunk_from=case))
        out.append(v)
    ctx.violations[: len(out)] = out


def search(ctx):
    run_cases(ctx, [gen_case(ctx.rng, p_comb=0.35) for _ in range(ctx.pick(250, 2500))])


def replay(ctx, rec):
    """Re-run a replay file: a violation record (one case) or a broken-tie record (the cases it names)."""
    recs = [rec] if "case" in rec else [t for t in rec.get("no_longer_checks", []) if isinstance(t.get("case"), dict)]
    cases = []
    for r in recs:
        case = {k: v for k, v in r["case"].items() if k != "shrunk_from"}
        if "nodes" in case:
            cases.append(case)
    run_cases(ctx, cases, label="replay")
    # the known findings' witnesses are replayed as in a normal run, so that the verdict is complete
    known = {f["id"] for f in ctx.known()}
    findings = [r for r in load_corpus("findings.jsonl") if r["id"] in known]
    res = run_cases(ctx, [dict(r["case"], shape="corpus", corpus_id=r["id"]) for r in findings], label="corpus")
    for (c, i, spec, model, _), r in zip(res, findings):
        ctx.finding(r["id"], kind_of(i, spec) != "ok", "replayed witness")
