"""C06 — A cache hit returns what executing the task now would return (DESIGN §6 C06, engines Hash §5.3 + cache §5.4)."""

from __future__ import annotations

import copy
import json
import os
from pathlib import Path

from harness import core
from harness.engines import hashing as H
from harness.extractors.hash_lits import hash_lits

META = {
    "engine": "Hash",
    "category": "proof",
    "design_ref": "§6 C06, §5.3, §2.3, §7 D4/D5/D28",
    "technique": "Lean 4 theorem: equal task checksums imply equivalent tasks, in collision-extraction form (digest function a "
    "parameter), under explicit hypotheses for what _compute_hashes does not hash; one witness theorem per unhashed aspect; "
    "differential correspondence on pairs of tasks submitted one after the other into one cache root",
    "text": "Lean theorems, for tasks with any number of fields and input values of any size, digest function H an arbitrary "
    "function returning 16 bytes: two tasks with the same Task._checksum have the same task type, the same field names, the "
    "same digest for every hashed entry (field values, Outputs class) and — for every field value of the grammar G0 — the "
    "same type and content, or else two different byte strings fed to H during the two computations collide "
    "(C06_hashed_equiv); if in addition closure cells, globals and the command-line metadata of the input fields agree, the "
    "tasks are equivalent, so a hit in a checksum-keyed cache returns what running the task would return (C06_partial, "
    "C06_hit_is_fresh).  The model hashes exactly what Task._compute_hashes hashes, which is why the unconditional statement "
    "fails: witness theorems (equal checksums for every H, tasks not equivalent) for closure cells, globals, a workflow "
    "constructor's closure, argstr, position, sep and formatter (C06_witness_*).  numpy shape and dtype ARE part of the hash "
    "(repaired defect D5; C06_numpy_shape_dtype_distinguished + regression cases).  The model is tied to the code by "
    "building pairs of tasks that differ in exactly one aspect through the public API, comparing Task._checksum with the "
    "model's checksum string, and submitting both into one cache root with the debug worker: checksum equality, whether "
    "the second submission executed, and its outputs against a fresh run in an empty cache.",
    "note": "Trusted: Lean kernel; hand-written model of Task._compute_hashes / _checksum (Hash/Model.lean); harness conversion of "
    "task objects to model tasks (hashing.task_def_case); the abstract cache 'hit iff a result is stored under the checksum' "
    "(the job protocol itself is C10-C12's subject).",
    "rule": "case = (task A, task B, aspect): python tasks (function from generated source: body, closure value, input value / "
    "type / container order / numpy shape / dtype / memory layout / raw-buffer twins / callable stored on a plain instance / aliased vs separate equal objects incl. File objects), shell tasks (executable, argstr, position, sep, formatter, input value), "
    "workflow tasks (constructor closure); distinct by canonical JSON; every case is non-trivial (two task classes built, "
    "two submissions, one fresh run)",
    "assumptions": [
        "tasks are deterministic functions of what TaskEquiv compares",
        "module globals read by a task function do not change between submissions (outside the property's quantifier; the observed "
        "behaviour is recorded in the evidence: the checksum ignores them)",
    ],
    "trusted": [
        "model of Task._compute_hashes written by hand (Hash/Model.lean); literals regenerated (Gen/HashLits.lean)",
        "Lean BLAKE2b (driver only), validated against hashlib.blake2b on every run",
    ],
}

_NS = "PydraModel.Hash."
OBLIGATIONS = [
    _NS + n
    for n in (
        "C06_hashed_equiv",
        "C06_partial",
        "C06_hit_is_fresh",
        "C06_witness_closure",
        "C06_witness_globals",
        "C06_witness_workflow_closure",
        "C06_witness_argstr",
        "C06_witness_position",
        "C06_witness_sep",
        "C06_witness_formatter",
        "C06_witness_callable_attr_dropped",
        "C06_numpy_shape_dtype_distinguished",
        "C08_discriminates",
        "C08_context_free",
        "checksum_sep_ok",
        "heads_prefix_free",
        "words_ok",
        "Sources.sources_ok",
    )
]
LEAN_TARGETS = ["PydraModel.Props.C06", "Drivers.Hash"]
MODEL_TARGETS = ["PydraModel.Hash.DriverImpl", "Drivers.Hash"]
EXTRACTORS = [hash_lits]

CORPUS = core.VERIF / "corpus" / "hash" / "c06.jsonl"

# aspect -> known finding that explains "same checksum, second submission served the first one's result"
DEFECT_OF_ASPECT = {
    "closure": "D4-closure",
    "argstr": "D4-argstr",
    "position": "D4-position",
    "sep": "D4-sep",
    "formatter": "D4-formatter",
    "wf-closure": "D28",
}


def _i(v):
    return {"k": "int", "v": str(v)}


def _s(v):
    return {"k": "str", "v": v}


def gen_pair(rng) -> dict:
    """two tasks differing in exactly one aspect (or in none: aspect 'same')"""

    def py(body, inputs, closure=None, params=("x",)):
        t = {"kind": "python", "name": "T", "params": list(params), "body": body, "ret": "ty.Any", "inputs": inputs}
        if closure:
            t["closure"] = closure
        return t

    def sh(fields, inputs, exe="echo"):
        return {"kind": "shell", "exe": exe, "name": "S", "fields": fields, "inputs": inputs}

    aspect = rng.choice(
        ["same", "same", "body", "closure", "input-value", "input-value", "input-type", "input-shape", "input-dtype",
         "input-order", "input-layout", "input-rawbuffer", "input-eqkeys", "input-callable-attr", "input-callable-attr", "input-aliasing", "argstr", "position", "sep", "formatter", "executable", "shell-input", "wf-closure"]
    )  # fmt: skip
    x = rng.randint(0, 50)
    if aspect == "same":
        if rng.random() < 0.5:
            a = py([f"return x + {x}"], {"x": _i(x)})
            return {"a": a, "b": copy.deepcopy(a), "aspect": aspect, "equiv": True}
        a = sh([{"name": "p", "type": "str", "argstr": "-p"}], {"p": _s(str(x))})
        return {"a": a, "b": copy.deepcopy(a), "aspect": aspect, "equiv": True}
    if aspect == "body":
        return {"a": py([f"return x + {x}"], {"x": _i(1)}), "b": py([f"return x + {x + 1}"], {"x": _i(1)}), "aspect": aspect, "equiv": False}
    if aspect == "closure":
        k1, k2 = rng.sample([1, 2, 3, 10, 100, -1], 2)
        return {"a": py([f"return x * {x + 2} + k"], {"x": _i(1)}, {"k": k1}), "b": py([f"return x * {x + 2} + k"], {"x": _i(1)}, {"k": k2}), "aspect": aspect, "equiv": False}
    if aspect == "input-value":
        v1 = H.gen_value(rng, rng.randint(0, 2))
        for _ in range(20):
            m = H.mutate(rng, v1)
            if m and not m[2] and H.valid(m[0]) and not any(n["k"] in ("func", "type", "enum", "path", "obj") for n in H.walk(m[0])) and not any(
                n["k"] in ("func", "type", "enum", "path", "obj") for n in H.walk(v1)
            ):
                try:
                    if H.canon_key(m[0]) != H.canon_key(v1) and not H.unordered_elements(m[0]) and not H.unordered_elements(v1):
                        return {"a": py(["return repr(x)"], {"x": v1}), "b": py(["return repr(x)"], {"x": m[0]}), "aspect": aspect, "equiv": False}
                except KeyError:
                    pass
            v1 = H.gen_value(rng, rng.randint(0, 2))
        return {"a": py(["return repr(x)"], {"x": _i(x)}), "b": py(["return repr(x)"], {"x": _i(x + 1)}), "aspect": aspect, "equiv": False}
    if aspect == "input-type":
        a, b = rng.sample([_i(1), H._f(1.0), {"k": "bool", "v": True}, _s("1"), {"k": "bytes", "hex": "31"}, {"k": "list", "xs": [_i(1)]}, {"k": "tuple", "xs": [_i(1)]}], 2)
        return {"a": py(["return repr(x)"], {"x": a}), "b": py(["return repr(x)"], {"x": b}), "aspect": aspect, "equiv": False}
    if aspect in ("input-shape", "input-dtype"):
        for _ in range(50):
            arr = H.gen_ndarray(rng)
            if arr["k"] != "ndarray":
                continue
            m = H.mutate_ndarray(rng, arr)
            want = "shape" if aspect == "input-shape" else "dtype"
            if m[1] == want:
                body = ["return repr(x.shape) + str(x.dtype) + repr(x.tolist())"]
                return {"a": py(body, {"x": arr}), "b": py(body, {"x": m[0]}), "aspect": aspect, "equiv": False}
        return gen_pair(rng)
    if aspect in ("input-layout", "input-rawbuffer"):
        a, b, same = H.gen_layout_pair(rng, "layout" if aspect == "input-layout" else "raw")
        body = ["return repr(x.shape) + str(x.dtype) + repr(x.tolist())"]
        return {"a": py(body, {"x": a}), "b": py(body, {"x": b}), "aspect": aspect, "equiv": same}
    if aspect == "input-callable-attr":
        # a plain-class instance whose distinguishing state is a callable stored on it (function / partial / class)
        a, b, _asp, call = H.gen_callable_attr_pair(rng)
        body = [f"return {call}"]
        return {"a": py(body, {"x": a}), "b": py(body, {"x": b}), "aspect": aspect, "equiv": False}
    if aspect == "input-aliasing":
        # one object given to two inputs vs two separate equal objects: equal tasks, one cache entry
        al = H.gen_aliased(rng)
        d = next(n for n in H.walk(al) if n["k"] == "def")
        u = {"k": "use", "name": d["name"]}
        a = py(["return 3"], {"x": d, "y": {"k": "list", "xs": [u, _i(1), u]}}, params=("x", "y"))
        env: dict = {}
        b = copy.deepcopy(a)
        b["inputs"] = {n: H.unshare(v, env) for n, v in b["inputs"].items()}
        return {"a": a, "b": b, "aspect": aspect, "equiv": True}
    if aspect == "input-eqkeys":
        # two inputs hashed with the task's shared Cache whose dict keys / set elements are Python-equal but of other type
        k1, k2 = H.gen_eq_twins(rng)
        how = rng.choice(["dict", "dict2", "frozenset", "plain"])
        hx, hy, hy2 = H.eq_holder(rng, k1, how, _i(7)), H.eq_holder(rng, k1, how, _i(7)), H.eq_holder(rng, k2, how, _i(7))
        body = ["return repr(x) + repr(y)"]
        return {"a": py(body, {"x": hx, "y": hy}, params=("x", "y")), "b": py(body, {"x": hx, "y": hy2}, params=("x", "y")), "aspect": aspect, "equiv": False}
    if aspect == "input-order":
        items = [[_s(f"k{j}"), _i(rng.randint(0, 9))] for j in range(rng.randint(2, 4))]
        sh_items = list(items)
        rng.shuffle(sh_items)
        els = [_s(c) for c in rng.sample("abcdefgh", rng.randint(2, 5))]
        sh_els = list(els)
        rng.shuffle(sh_els)
        a = py(["return sorted(x.items()), sorted(y)"], {"x": {"k": "dict", "items": items}, "y": {"k": "set", "xs": els}}, params=("x", "y"))
        b = py(["return sorted(x.items()), sorted(y)"], {"x": {"k": "dict", "items": sh_items}, "y": {"k": "set", "xs": sh_els}}, params=("x", "y"))
        return {"a": a, "b": b, "aspect": "same", "equiv": True}
    v = str(x)
    if aspect == "argstr":
        f1, f2 = rng.sample(["-a", "-b", "--long", "-p"], 2)
        q = {"name": "q", "type": "str", "argstr": "-q"}
        return {"a": sh([{"name": "p", "type": "str", "argstr": f1}, q], {"p": _s(v), "q": _s("2")}), "b": sh([{"name": "p", "type": "str", "argstr": f2}, q], {"p": _s(v), "q": _s("2")}), "aspect": aspect, "equiv": False}
    if aspect == "position":
        return {
            "a": sh([{"name": "p", "type": "str", "argstr": "-p", "position": 1}, {"name": "q", "type": "str", "argstr": "-q", "position": 2}], {"p": _s(v), "q": _s("2")}),
            "b": sh([{"name": "p", "type": "str", "argstr": "-p", "position": 2}, {"name": "q", "type": "str", "argstr": "-q", "position": 1}], {"p": _s(v), "q": _s("2")}),
            "aspect": aspect,
            "equiv": False,
        }
    if aspect == "sep":
        s1, s2 = rng.sample([",", ":", ";", "+"], 2)
        val = {"k": "list", "xs": [_s(v), _s("2")]}
        return {"a": sh([{"name": "p", "type": "list[str]", "argstr": "-p", "sep": s1}], {"p": val}), "b": sh([{"name": "p", "type": "list[str]", "argstr": "-p", "sep": s2}], {"p": val}), "aspect": aspect, "equiv": False}
    if aspect == "formatter":
        return {"a": sh([{"name": "p", "type": "str", "formatter": "fmt_x"}], {"p": _s(v)}), "b": sh([{"name": "p", "type": "str", "formatter": "fmt_y"}], {"p": _s(v)}), "aspect": aspect, "equiv": False}
    if aspect == "executable":
        return {"a": sh([{"name": "p", "type": "str", "argstr": "-p"}], {"p": _s(v)}, "echo"), "b": sh([{"name": "p", "type": "str", "argstr": "-p"}], {"p": _s(v)}, "printf"), "aspect": aspect, "equiv": False}
    if aspect == "shell-input":
        return {"a": sh([{"name": "p", "type": "str", "argstr": "-p"}], {"p": _s(v)}), "b": sh([{"name": "p", "type": "str", "argstr": "-p"}], {"p": _s(v + "x")}), "aspect": "input-value", "equiv": False}
    n1, n2 = rng.sample([1, 2, 3, 4, 5], 2)
    return {"a": {"kind": "workflow", "n": n1, "inputs": {"x": _i(x)}}, "b": {"kind": "workflow", "n": n2, "inputs": {"x": _i(x)}}, "aspect": "wf-closure", "equiv": False}


_uid = [0]


def observe_pair(ctx, pair, moddir: Path) -> dict:
    """Build A and B, submit A then B into one cache root (debug worker), then B again into an empty cache."""
    from pydra.engine.workflow import Workflow

    _uid[0] += 1
    root = ctx.scratch / f"pair{_uid[0]}"
    shared, fresh = root / "shared", root / "fresh"
    cnt = Path(os.environ["VERIF_CNT"])

    def executions():
        return len(cnt.read_text()) if cnt.exists() else 0

    Workflow.clear_cache()
    b = H.Builder(moddir)
    ta, tb = H.build_task(pair["a"], b), H.build_task(pair["b"], b)
    csa, csb = ta._checksum, tb._checksum
    defs = (H.task_def_case(ta), H.task_def_case(tb))
    e0 = executions()
    outa, da = H.run_task(ta, shared)
    e1 = executions()
    dirs_a = H.job_dirs(shared)
    outb, db = H.run_task(tb, shared)
    e2 = executions()
    dirs_b = H.job_dirs(shared)
    # what executing B now would return: a new process-level state (constructed-workflow cache) and an empty cache root
    Workflow.clear_cache()
    tb2 = H.build_task(pair["b"], H.Builder(moddir))
    outf, df = H.run_task(tb2, fresh)
    Workflow.clear_cache()
    is_py = pair["a"]["kind"] == "python"
    top_a = [d for d in dirs_a if d == csa]
    second_served = (e2 == e1) if is_py else (set(dirs_b) == set(dirs_a))
    return {
        "checksums": [csa, csb],
        "same_checksum": csa == csb,
        "first_executed": (e1 - e0 == 1) if is_py else (csa in dirs_a),
        "second_served_from_cache": bool(second_served),
        "b_equals_fresh": json.dumps(outb, sort_keys=True, default=repr) == json.dumps(outf, sort_keys=True, default=repr),
        "errors": [x for x in (outa, outb, outf) if isinstance(x, str)],
        "_defs": defs,
        "_outs": [outa, outb, outf],
        "_detail": [da, db, df],
    }


def run_pairs(ctx, pairs: list[dict], moddir: Path):
    obs = [observe_pair(ctx, p, moddir) for p in pairs]
    q, where = [], []
    for o in obs:
        for d in o["_defs"]:
            if d is not None:
                where.append(len(q))
                q.append({"op": "checksum", "task": d})
            else:
                where.append(None)
    ans = H.model(ctx, q)
    for k, (p, o) in enumerate(zip(pairs, obs)):
        impl = {key: o[key] for key in ("checksums", "same_checksum", "second_served_from_cache", "b_equals_fresh")}
        model = None
        if ans is not None:
            ms = [ans[w].get("checksum") if w is not None else None for w in where[2 * k : 2 * k + 2]]
            if all(ms):
                same = ms[0] == ms[1]
                # abstract cache: a hit iff a result is stored under the checksum; a hit returns the stored result
                model = {"checksums": ms, "same_checksum": same, "second_served_from_cache": same, "b_equals_fresh": (not same) or bool(p["equiv"])}
            else:
                ctx.count("model-declines")
        ok = not o["errors"] and o["first_executed"] and o["b_equals_fresh"] and (o["same_checksum"] == bool(p["equiv"]))
        # identical tasks must share the entry (second one served from the cache)
        if p["equiv"]:
            ok = ok and o["second_served_from_cache"]
        defect = None
        if not ok and not o["errors"] and not p["equiv"]:
            # the listed defect: the aspect is not hashed -> same checksum, B answered with A's result
            if o["same_checksum"] and o["second_served_from_cache"] and not o["b_equals_fresh"]:
                defect = DEFECT_OF_ASPECT.get(p["aspect"])
        ctx.count("aspect:" + p["aspect"])
        ctx.count("kind:" + p["a"]["kind"])
        case = {k2: p[k2] for k2 in ("a", "b", "aspect", "equiv")}
        if not ok and defect is None:
            case["outs"] = [json.dumps(x, default=repr)[:200] for x in o["_outs"]]
            case["detail"] = o["_detail"]
        ctx.judge(case, impl, model, ok, nontrivial=True, key=json.dumps(case, sort_keys=True, default=repr), defect=defect, what="two submissions into one cache root, then a fresh run")
    return obs


def correspondence(ctx):
    core.assert_repo_loaded()
    moddir = ctx.scratch / "mods"
    hc = ctx.scratch / "hashcache"
    hc.mkdir(exist_ok=True)
    os.environ["PYDRA_HASH_CACHE"] = str(hc)
    os.environ["VERIF_CNT"] = str(ctx.scratch / "count.txt")
    H.validate_blake2b(ctx, 12)
    rows = [json.loads(l) for l in CORPUS.read_text().splitlines() if l.strip()]
    judged = [r for r in rows if not r.get("info_only")]
    obs = run_pairs(ctx, judged, moddir)
    known = {f["id"] for f in ctx.known()}
    seen = set()
    for r, o in zip(judged, obs):
        fid = r.get("finding")
        fails = o["same_checksum"] and o["second_served_from_cache"] and not o["b_equals_fresh"]
        if fid:
            seen.add(fid)
            if fid in known:
                ctx.finding(fid, fails, f"{r['name']}: checksums {o['checksums']}, outputs A/B/fresh {[json.dumps(x, default=repr)[:60] for x in o['_outs']]}")
            elif fails:
                ctx.notes.append(f"corpus witness {r['name']} fails but {fid} is not listed for C06")
        if r.get("fixed") and (fails or o["same_checksum"]):
            ctx.notes.append(f"fixed defect {r['fixed']} fails again: {r['name']}")
    for fid in known - seen:
        ctx.finding(fid, False, "no corpus witness")
    # information only: module globals (outside the quantifier)
    for r in rows:
        if r.get("info_only"):
            o = observe_pair(ctx, r, moddir)
            ctx.extra.setdefault("observed_outside_quantifier", {})[r["name"]] = {k: o[k] for k in ("same_checksum", "second_served_from_cache", "b_equals_fresh")}
    n = ctx.pick(36, 400)
    pairs = [gen_pair(ctx.rng) for _ in range(n)]
    for i in range(0, len(pairs), 100):
        run_pairs(ctx, pairs[i : i + 100], moddir)


def search(ctx):
    moddir = ctx.scratch / "mods"
    run_pairs(ctx, [gen_pair(ctx.rng) for _ in range(ctx.pick(120, 600))], moddir)


def replay(ctx, rec):
    moddir = ctx.scratch / "mods"
    hc = ctx.scratch / "hashcache"
    hc.mkdir(exist_ok=True)
    os.environ["PYDRA_HASH_CACHE"] = str(hc)
    os.environ["VERIF_CNT"] = str(ctx.scratch / "count.txt")
    c = rec["case"]
    run_pairs(ctx, [{k: c[k] for k in ("a", "b", "aspect", "equiv")}], moddir)
