"""C02 — Combine groups job outputs into an exact, ordered partition (DESIGN §6 C02, engine StateAlg §5.1)."""

from __future__ import annotations

import itertools
import json

from harness import core
from harness.engines import statealg as sa

META = {
    "engine": "StateAlg",
    "category": "proof",
    "design_ref": "§6 C02, §5.1",
    "technique": "Lean 4 theorems about the mapping loop (any input), kernel evaluation of the structural facts over all splitter "
    "shapes with <= 4 fields and of the whole pipeline on a small scope, + differential correspondence on the public "
    "Task.split(...).combine(...)() path against a stable group-by oracle",
    "text": "Lean theorems: for ANY splitter, combiner and list lengths the loop filling final_combined_ind_mapping files every job "
    "under exactly one group — the one selected by its projection to keys_final — in enumeration order (C02_mapping_partition: no "
    "loss, no duplication, order inside groups), and the run-time grouping of LazyOutField.group_values (what the public path returns) "
    "coincides with that mapping (C02_runtime_grouping, C02_public_is_mapping); assembled for every well-formed splitter over "
    "distinct fields (any number), every combiner, lists of ANY length: the public output is one group per row of the reduced tree and every job "
    "lies in exactly one group, the one matching its projection to the remaining keys, in enumeration order "
    "(C02_public_partition); for ANY splitter tree and ANY set of fields remove_inp_from_splitter_rpn (stack "
    "version, after the repair of D34) returns the RPN of the tree with exactly those fields removed, the remaining fields in "
    "order (C02_remove), and nothing when every axis is combined (C02_all_axes); the reduced RPN is a tree's RPN, so its splits "
    "are the reduced tree's nested loops with aligned keys (C02_reduced_splits, via C01); for every binary-bracketed splitter "
    "shape over <= 4 fields and every non-empty combiner, combiner_all is exactly the reference's closure over inner-linked fields "
    "(C02_linked_le4, kernel evaluation of all 51 shapes); the whole pipeline equals the stable group-by reference on every shape "
    "with <= 3 fields, every combiner, lengths 1-2 (C02_small_scope, bounded) and on the two repaired D34 shapes "
    "(C02_regression_D34).  First-occurrence order for lists of ANY non-zero length: the rows projected to the kept fields are the "
    "reduced tree's rows indexed by the mixed-radix pattern pat(shape, mask) (claimA) whose first occurrences come in increasing "
    "order (nub_pat), so for every splitter over distinct fields (any number) the public output equals the reference's stable group-by on "
    "the fields outside combiner_all when that set is closed under inner links (C02_order_partial, decidable hypothesis), and "
    "with C02_linked_le4 the property itself holds for every binary-bracketed shape over <= 4 canonically labelled fields, every "
    "non-empty combiner, every assignment of non-empty lists (C02_full_le4).  PARTIAL: one theorem for arbitrary field names, n-ary "
    "spellings and > 4 fields (C02_full_statement) is not proved — missing is a general proof that splits_groups' combiner_all is "
    "the linked closure (evaluated for the 51 shapes only).",
    "note": "Trusted: Lean kernel; hand-written model of splits_groups / combine_final_groups / remove_inp_from_splitter_rpn / "
    "prepare_states_combined_ind / LazyOutField group_values; the identity splitter2rpn(rpn2splitter(rpn)) = rpn is assumed in the "
    "model; combiner_all = linked closure is established by kernel evaluation of the 51 shapes with <= 4 fields, not in general.",
    "rule": "case = (splitter tree over <= 4 fields (5 for model fidelity), list length 1-3 per field, non-empty combiner subset of its "
    "fields), observed through Task.split().combine()(); distinct by canonical JSON; non-trivial = >= 2 fields, >= 2 jobs and the "
    "combiner closure is a proper subset of the fields or the tree has an inner product",
    "assumptions": [
        "plain list inputs of length 1-3 (the property's quantifier); combiner = non-empty subset of the splitter's fields",
        "single task (no downstream node consumes the combined output: that is C03 / D29)",
    ],
    "trusted": ["model of the combiner side of pydra/engine/state.py and of lazy.py's group_values written by hand"],
}

_NS = "PydraModel.StateAlg."
OBLIGATIONS = [
    _NS + n
    for n in (
        "fillMapping_spec",
        "C02_mapping_partition",
        "C02_runtime_grouping",
        "C02_public_is_mapping",
        "evalBin_nodup",
        "C02_public_partition",
        "nub_pat",
        "claimA",
        "C02_order_partial",
        "C02_full_le4",
        "removeRPN_rpn",
        "C02_remove",
        "C02_all_axes",
        "C02_linked_le4",
        "C02_reduced_splits",
        "C02_small_scope",
        "C02_regression_D34",
    )
]
LEAN_TARGETS = ["PydraModel.Props.C02"]
MODEL_TARGETS = ["PydraModel.StateAlg.Model", "PydraModel.StateAlg.Spec", "PydraModel.DriverUtil"]

D34_A = sa.flat_case_from(sa.O(sa.F(0), sa.O(sa.F(1), sa.I(sa.F(2), sa.F(3)))), {0: 2, 1: 2, 2: 2, 3: 2}, comb=[0, 1])
D34_B = sa.flat_case_from(sa.O(sa.F(0), sa.I(sa.I(sa.F(1), sa.F(2)), sa.F(3))), {0: 2, 1: 2, 2: 2, 3: 2}, comb=[0])


def remove_tree(t, removed):
    """the splitter with the fields `removed` taken out (an operator goes away iff an operand vanished entirely)"""
    k = sa.kind(t)
    if k == "f":
        return None if t["f"] in removed else t
    cs = [c for c in (remove_tree(c, removed) for c in t[k]) if c is not None]
    if not cs:
        return None
    return cs[0] if len(cs) == 1 else {k: cs}


def rpn_of(t):
    """RPN of a tree (n-ary nodes nest to the left, one-element nodes vanish)"""
    if t is None:
        return []
    k = sa.kind(t)
    if k == "f":
        return [t["f"]]
    out = rpn_of(t[k][0])
    for c in t[k][1:]:
        out += rpn_of(c) + ["*" if k == "o" else "."]
    return out


def rank(t):
    """number of axes of a splitter over plain lists, None when an inner product pairs operands of different rank"""
    k = sa.kind(t)
    if k == "f":
        return 1
    rs = [rank(c) for c in t[k]]
    if None in rs:
        return None
    if k == "o":
        return sum(rs)
    return rs[0] if all(r == rs[0] for r in rs) else None


def axis_lengths_case(t, comb, variant=0):
    """cheap lengths that still discriminate the order of the remaining keys: the remaining axes get lengths 2,1,2,…
    (variant 1: 1,2,3,…), the first combined axis 2, the other combined axes 1"""
    axes = sa.oracle_axes(t)
    closed = set(sa.oracle_closure(t, list(comb)))
    lens, n_rem, n_comb = {}, 0, 0
    total_rem = sum(1 for ax in axes if ax[0] not in closed)
    for ax in axes:
        if ax[0] in closed:
            n = 2 if (n_comb == 0 and total_rem <= 2 - variant) else 1
            n_comb += 1
        else:
            n = ([2, 1, 2, 1] if variant == 0 else [1, 2, 2, 1])[n_rem % 4]
            n_rem += 1
        for f in ax:
            lens[f] = n
    return sa.flat_case_from(t, lens, comb)


def four_field_shapes():
    """every n-ary splitter shape over four fields (binary bracketings included) that plain lists can satisfy"""
    return [t for t in sa.all_trees([0, 1, 2, 3]) if rank(t) is not None]


def systematic_cases(seed: int, everything: bool = False):
    """every 4-field shape x every single-axis partial combiner, plus a rotating (by seed) choice of two-axis partial
    combiners (`everything`: all closed partial combiners, two length variants)"""
    out, seen = [], set()
    for si, t in enumerate(four_field_shapes()):
        fs = sa.tree_fields(t)
        closures = []
        for k in (1, 2, 3):
            for comb in itertools.combinations(fs, k):
                cl = tuple(sa.oracle_closure(t, list(comb)))
                if len(cl) < len(fs) and cl not in closures:
                    closures.append(cl)
        n_axes = len(sa.oracle_axes(t))
        singles = [c for c in closures if sum(1 for ax in sa.oracle_axes(t) if ax[0] in c) == 1]
        multi = [c for c in closures if c not in singles]
        chosen = list(closures) if everything else singles + ([multi[(seed + si) % len(multi)]] if multi and n_axes >= 3 else [])
        for cl in chosen:
            # name the closure by one generator per axis (the code must close it itself)
            gens = [next(f for f in ax if f in cl) for ax in sa.oracle_axes(t) if ax[0] in cl]
            for variant in (0, 1) if everything else ((seed + si) % 2,):
                c = axis_lengths_case(t, gens, variant)
                key = json.dumps([c["splitter"], c["combiner"], [len(v) for _, v, _ in c["fields"]]])
                if key not in seen:
                    seen.add(key)
                    out.append(c)
    return out


def comb_case(rng, nfields, max_jobs=24):
    for _ in range(50):
        fs = rng.sample(range(len(sa.FIELDS)), nfields)
        t = sa.gen_tree(rng, fs, max_depth=4, p_single=0.1)
        lens = sa.assign_lengths(rng, t, 3, 1, repair=rng.random() < 0.93)
        comb = rng.sample(fs, min(nfields, rng.choice([1, 1, 1, 1, 2, 2, 2, 3, nfields])))
        case = sa.flat_case_from(t, lens, comb)
        o = sa.oracle_case(case)
        if o.get("rejected") and rng.random() < 0.8:
            continue  # keep mostly splitters that run
        if not o.get("rejected") and len(o["rows"]) > max_jobs:
            continue
        if not o.get("rejected") and len(o["closure"]) == nfields and nfields > 1 and rng.random() < 0.7:
            continue  # everything combined (one flat list): keep, but rarely
        return case
    return case


def judge_recs(ctx, recs):
    for r in recs:
        case, level = r["case"], r["level"]
        nf = len(case["fields"])
        if level == "state":
            # internals only: fidelity information, never a verdict
            m, i = r.get("model_raw") or {}, r["impl"]
            if "mapping" in m and "mapping" in i:
                same = (
                    m["mapping"] == i["mapping"]
                    and sorted(m["combiner_all"]) == i["combiner_all"]
                    and m["rpn_final"] == i["rpn_final"]
                    and m["keys_final"] == i["keys_final"]
                    and m["states_ind_final"] == i["states_ind_final"]
                )
                ctx.count("state-internals:" + ("agree" if same else "DISAGREE"))
                if not same and len(ctx.extra.setdefault("state_internal_disagreements", [])) < 3:
                    ctx.extra["state_internal_disagreements"].append({"case": case, "impl": i, "model": m})
            continue
        impl = sa.observable(r["impl"], level)
        model = sa.observable(r["model"], level)
        orc = sa.observable(r["oracle"], level)
        njobs = 0 if r["oracle"].get("rejected") else len(r["oracle"]["rows"])
        closed = r["oracle"].get("closure", [])
        has_inner = '"i"' in json.dumps(case["splitter"])
        ctx.count(f"fields={nf}")
        ctx.count("rejected" if r["oracle"].get("rejected") else ("all-combined" if len(closed) == nf else f"remaining={nf - len(closed)}"))
        if has_inner and not r["oracle"].get("rejected"):
            ctx.count("with-inner")
        key = json.dumps([case["splitter"], [len(v) for _, v, _ in case["fields"]], sorted(case["combiner"])])
        nontrivial = nf >= 2 and njobs >= 2 and (len(closed) < nf or has_inner)
        if nf <= 6:  # all trees are gated since the repair of D1
            ctx.judge({"case": case, "level": level}, impl, model, impl == orc, nontrivial=nontrivial, key=key, what="C02 public")
        else:
            ctx.count("outside-quantifier")
            if impl == model or impl != orc:
                ctx.judge({"case": case, "level": level}, impl, model, True, nontrivial=False, key=key, what="C02 public (>4 fields)")
            else:
                ctx.count("outside-quantifier:impl=reference≠model")


def correspondence(ctx):
    core.assert_repo_loaded()
    rng = ctx.rng
    # D34 (repaired): both witnesses are regression cases that must agree with the reference
    for nm, w in (("a", D34_A), ("b", D34_B)):
        got = sa.public_level(w, ctx.scratch / f"d34{nm}")
        if got.get("outputs") != sa.oracle_case(w)["outputs"]:
            ctx.violations.append({"kind": "fixed-defect-regressed", "finding": "D34", "case": w, "impl": got})
    items = [(D34_A, "public"), (D34_B, "public"), (D34_A, "state"), (D34_B, "state")]
    items += [(c, lvl) for c in sa.corpus("c02.jsonl") for lvl in ("state", "public")]
    # systematic: every 4-field shape x partial combiners through the public path (cheap lengths)
    for c in systematic_cases(ctx.seed, everything=not ctx.quick):
        ctx.count("systematic-4-field")
        items.append((c, "public"))
        items.append((c, "state"))
    for _ in range(ctx.pick(8, 450)):
        items.append((comb_case(rng, rng.choice([1, 2, 2, 3, 3, 3, 4, 4, 4, 5])), "public"))
    for _ in range(ctx.pick(150, 5000)):
        items.append((comb_case(rng, rng.choice([2, 3, 3, 4, 4, 4, 5, 6]), max_jobs=40), "state"))
    if not ctx.quick:
        # every tree over <= 3 fields x every combiner x lengths {1,2} on the public path
        for nf in (1, 2, 3):
            fs = list(range(nf))
            for t in sa.all_trees(fs):
                for lens in itertools.product((1, 2), repeat=nf):
                    for k in range(1, nf + 1):
                        for comb in itertools.combinations(fs, k):
                            items.append((sa.flat_case_from(t, dict(zip(fs, lens)), comb), "public"))
    seen, uniq = set(), []
    for c, lvl in items:  # corpus and systematic cases overlap: run each (case, level) once
        k = json.dumps([c, lvl], sort_keys=True)
        if k not in seen:
            seen.add(k)
            uniq.append((c, lvl))
    judge_recs(ctx, sa.run_batch(ctx, uniq))


def search(ctx):
    rng = ctx.rng
    for n in range(ctx.pick(250, 1500)):
        c = comb_case(rng, rng.choice([2, 3, 3, 4, 4, 4]), max_jobs=24)
        impl = sa.observable(sa.public_level(c, ctx.scratch / f"s{n}_{ctx.evaluations}"), "public")
        orc = sa.observable(sa.oracle_case(c), "public")
        ctx.judge({"case": c, "level": "public"}, impl, None, impl == orc, what="C02 search")


def replay(ctx, rec):
    c = rec["case"]
    case, level = (c["case"], c.get("level", "public")) if "case" in c else (c, "public")
    judge_recs(ctx, sa.run_batch(ctx, [(case, level)]))
