"""C36 — Provenance records are complete and consistent (DESIGN §6 C36, §5.4).

Case = (pool task, input, worker, audit flag).  Pool (harness/engines/audittrace.py): succeeding / failing python and
shell (`echo`, `false`) tasks, workflows (chain, failing node, nested twice, nested with failure, independent nodes,
shell nodes, top-level split), run with AuditFlag.PROV or ALL through FileMessenger into the sandbox, debug and cf workers.

  implementation observable  the JSON-LD message files, canonicalised: the forest of activities (nesting by time
                             containment), per activity its job name(s), number of start records, errored flags of its end
                             records, start-before-end, monitor/runtime/generation records attached to it; stray records
  model observable           the same canonical form of `AuditTrace.trace false resource forest` (Lean driver), where the
                             forest is the pool entry's expected execution forest
  spec oracle (independent)  on the raw messages and the result files in the cache root: one activity per executed job,
                             exactly one start (with startedAtTime) and one end record per activity id, end not before start,
                             no end without start, and — over ALL activity ids of the log, job and monitor alike, read by `@id` +
                             `startedAtTime` / `endedAtTime` — exactly one start and one end record per id and the expected number
                             of ids (jobs, plus one monitor per job under ALL); the multiset of errored flags equals that of the stored results and that of the
                             pool definition, named activities carry the flag of the job of that name, one monitor per job (ALL)
"""

from __future__ import annotations

import shutil

from harness import core
from harness.extractors.job_skeleton import extract_job_skeleton
from harness.engines import audittrace as at
from harness.engines.cachehist import ChildRunner

META = {
    "engine": "JobProto",
    "category": "proof",
    "design_ref": "§6 C36, §5.4, §7 D21 (fixed)",
    "technique": "Lean 4 trace theorem by induction over the execution forest (any nesting depth / number of jobs) + differential "
    "correspondence on the message files written by FileMessenger",
    "text": "Lean theorems for every forest of executed jobs (workflow jobs with node jobs nested to any depth, any number of "
    "siblings), with and without resource monitoring, for the Audit calls of Job.run / Job.run_async with one Audit copy per Job: "
    "C36_full — the executed jobs get pairwise different activity ids, each has exactly one start and exactly one end record under "
    "its id, no other id has any, and every end record's errored flag is that of its job's result; C36_bracket — the start precedes "
    "the end (nested jobs' records in between); C36_starts / C36_ends — the exact lists; C36_tasks — audit_task records carry the "
    "job's own id and name; C36_monitor — one monitor activity per job under ALL; C36_all_activities — over the record log read by @id alone, every "
    "activity id (job and monitor) is opened at most once and has exactly one end record under that same id, nothing else is "
    "ended (C36_witness_end_id: a log whose monitor end record is filed under the job's id is not).  C36_witness_shared documents the repaired "
    "defect D21 (one shared Audit object: the workflow's activity has no end record, the last node's has two), "
    "C36_shared_partial that sharing is harmless without nesting.  Tied to pydra/engine/audit.py, utils/messenger.py, "
    "engine/job.py by parsing the emitted JSON-LD files (no network: the context is only named, never fetched). C36_skeleton (decide over the regenerated skeleton of Job.run / run_async): start_audit once before and finalize_audit once after the body (in finally, before the result is saved) on every executing path, neither on a cached path, audit_task only in the synchronous run under PROV.",
    "note": "Trusted: Lean kernel; hand-written model AuditTrace.lean; uuid4 never repeats; the expected execution forest of "
    "each pool entry; nesting is read off timestamps (sequential siblings only under cf).",
    "rule": "case = (pool task, input, worker, flag); distinct by canonical JSON; non-trivial = more than one executed job or a "
    "failing job",
    "assumptions": ["PROV auditing is on (PROV or ALL); gen_uuid never repeats"],
    "trusted": ["model of Audit.start_audit/audit_task/monitor/finalize_audit and their call sites written by hand (JobProto/AuditTrace.lean)"],
}

_NS = "PydraModel.JobProto.Audit."
OBLIGATIONS = [
    _NS + n
    for n in (
        "C36_full",
        "C36_starts",
        "C36_ends",
        "C36_bracket",
        "C36_tasks",
        "C36_monitor",
        "C36_all_activities",
        "C36_opened_count",
        "C36_witness_end_id",
        "C36_witness_shared",
        "C36_regression_own",
        "C36_shared_partial",
    )
]
OBLIGATIONS.append("PydraModel.JobProto.Skel.C36_skeleton")  # decide over the regenerated Job.run / run_async skeleton
LEAN_TARGETS = ["PydraModel.Props.C36", "PydraModel.JobProto.HashCheckSkel"]
EXTRACTORS = [extract_job_skeleton]
MODEL_TARGETS = ["PydraModel.JobProto.AuditTrace", "PydraModel.DriverUtil"]

NAMES = sorted(at.pool(0))
CORPUS = core.VERIF / "corpus" / "audit" / "cases.jsonl"
D21_WITNESS = {"name": "w2", "x": 1, "worker": "debug", "flags": "PROV"}


def load_corpus():
    import json

    out = []
    for l in CORPUS.read_text().splitlines():
        if l.strip() and not l.startswith("#"):
            c = json.loads(l)
            c.pop("note", None)
            out.append(c)
    return out


def gen_case(rng, worker="debug") -> dict:
    names = [n for n in NAMES if worker == "debug" or n not in at.DEBUG_ONLY]
    return {"name": rng.choice(names), "x": rng.randrange(1000), "worker": worker, "flags": rng.choice(["PROV", "PROV", "ALL"])}


WATCHDOG_S = float(__import__("os").environ.get("VERIF_WATCHDOG_S", "900"))  # per case; generous: the machine may be heavily loaded


def run_cases(ctx, cases):
    impls = []
    for c, r in zip(cases, ChildRunner("harness.engines.audittrace:child_case", ctx.scratch, WATCHDOG_S).run(cases, "c36")):
        forest = at.pool(c["x"])[c["name"]][1]
        if "ok" in r:
            impls.append((forest, r["ok"]["msgs"], r["ok"]["stored"], r["ok"]["outcome"]))
        elif "harness_error" in r:
            raise RuntimeError("harness function failed in the child: " + r["harness_error"] + "\n" + r.get("trace", ""))
        else:  # the submission never returned (or killed its interpreter): a finding about this case
            impls.append((forest, [], [], "HANG" if "hang" in r else "CRASH"))
    ans = ctx.driver(
        "AuditTrace",
        [
            {"shared": False, "resource": c["flags"] == "ALL", "forest": at.model_forest(f, c["worker"])}
            for c, (f, _, _, _) in zip(cases, impls)
        ],
    )
    for k, (c, (forest, msgs, stored, outcome)) in enumerate(zip(cases, impls)):
        recs = [at.classify(m) for m in msgs]
        obs = at.canon(recs)
        model = None
        if ans is not None:
            if "trace" in ans[k]:
                model = at.canon(at.from_model(ans[k]["trace"]))
            else:
                ctx.tie_broken.append({"kind": "model-driver", "detail": ans[k]})
        why = at.spec_check(recs, forest, stored, c["flags"] == "ALL")
        want = "err" if forest[0]["errored"] else "ok"
        if outcome != want:
            why.append(f"submission ended {outcome}, pool definition says {want}")
        njobs = len(at.flat_jobs(forest))
        ctx.count(f"task={c['name']}")
        ctx.count(f"worker={c['worker']}")
        ctx.count(f"flags={c['flags']}")
        ctx.count(f"jobs={njobs}")
        ctx.judge(c, obs, model, not why, nontrivial=njobs > 1 or forest[0]["errored"], what="; ".join(why) or "audit messages")


def correspondence(ctx):
    core.assert_repo_loaded()
    # corpus first: the witness of the repaired defect D21 (must pass), then every pool entry once under debug/PROV
    corpus = load_corpus()
    assert corpus[0] == D21_WITNESS
    cases = [c for c in corpus if c["worker"] == "debug"]
    cases += [{"name": n, "x": 3, "worker": "debug", "flags": "PROV"} for n in NAMES]
    # AuditFlag.ALL (job AND monitor activities): python + shell, ok + fail, and nesting, every run
    all_names = ["inc", "boom", "echo", "false", "w3f", "wsh"] if ctx.quick else NAMES
    cases += [{"name": n, "x": 4, "worker": "debug", "flags": "ALL"} for n in all_names]
    cases += [gen_case(ctx.rng, "debug") for _ in range(ctx.pick(4, 120))]
    cf = [c for c in corpus if c["worker"] == "cf"] + [gen_case(ctx.rng, "cf") for _ in range(ctx.pick(1, 12))]
    run_cases(ctx, cases + cf)


def search(ctx):
    run_cases(ctx, [D21_WITNESS] + [{"name": n, "x": 5, "worker": "debug", "flags": f} for n in NAMES for f in ("PROV", "ALL")])


def replay(ctx, rec):
    run_cases(ctx, [rec["case"]])
