"""C16 — The max_concurrent limit is never exceeded (DESIGN §6 C16, engine Sched §5.5)."""

from __future__ import annotations

from harness import core
from harness.engines import sched

META = {
    "engine": "Sched",
    "category": "proof",
    "design_ref": "§6 C16, §5.5",
    "technique": "Lean 4 invariant proof over all schedules and all instants + controlled-worker differential correspondence",
    "text": "Lean theorem C16_full (C16_full_interleaved: also when bodies start and finish while a poll is scanning; C16_rerun: "
    "also when the submission starts on a cache that already holds results - successful or errored, in the cache_root or in "
    "readonly caches - with or without rerun: at most k bodies are executing, cache hits complete without a body), for every sortable workflow graph, any number of nodes and jobs, every limit k, every schedule "
    "(including lost jobs) and every instant, also between two polls: any duplicate-free list of bodies that are executing has "
    "length <= k.  Mechanism (C16_pending_bound): a body executes only inside a pending future and the dispatcher creates a "
    "future only while len(task_futures) < max_concurrent (the D11 repair); C16_old_rule_violates shows by computation that the "
    "rule before the repair ran 3 bodies with k = 2, C16_new_rule_respects is the same schedule under the current rule.  "
    "Tied to pydra/engine/submitter.py by running workflows of up to 10 independent or chained jobs under the controlled "
    "worker with every k from 1 to the job count and 'greedy' schedules (every dispatched body is opened at once, one future "
    "completes per iteration) and random ones, always including the end-of-queue family (k in {2,3}, k+1..k+3 independent / "
    "split / chain+independent jobs, one future completing while the other bodies execute, so that r <= k jobs remain queued with "
    "r + running > k), comparing per iteration tasks / dispatches / pending futures and the maximal "
    "number of simultaneously open bodies with the Lean model replaying the recorded schedule.  Two-pass cases (3-6 jobs all "
    "runnable at once, k in {1,2}; second submission with rerun=True, or after a first one in which every job failed, over the "
    "same cache_root or a readonly cache) are part of both tiers: every job then already has a result when it is handed out.",
    "note": "Trusted: Lean kernel; hand-written model of the dispatch loop (Sched/Model.lean, Sched/Interleaved.lean), one update_status call atomic w.r.t. the environment; "
    "'executing' = lock file held between the body's start and end log lines; the pool of the controlled worker has k+1 "
    "processes so that an overstepping dispatcher shows up as an extra open body; the verdict 'open bodies <= k' is taken from the "
    "bodies' own start/end log and is computed whatever else happened in the run; the observer subclass passes any signature through.",
    "rule": "case = (independent / chained / mixed jobs <= 10, k in 1..n, recorded schedule; plus the end-of-queue family); distinct by canonical JSON; "
    "non-trivial = >= 3 jobs and a schedule policy other than FIFO completion",
    "assumptions": ["one NodeExecution.update_status call is atomic with respect to changes on disk (bodies may start, finish and fail before every node.done / p.done read of a poll: *_interleaved theorems); futures are reported complete between polls"],
    "trusted": ["model of Submitter.expand_workflow_async dispatch written by hand (Sched/Model.lean)"],
}

_NS = "PydraModel.Sched."
OBLIGATIONS = [_NS + n for n in ("C16_full", "C16_full_interleaved", "C16_rerun", "C16_rerun_begins_in_future", "C16_pending_bound", "C16_k1",
                                 "C16_old_rule_violates", "C16_new_rule_respects")]
LEAN_TARGETS = ["PydraModel.Props.C16"]
MODEL_TARGETS = ["PydraModel.Sched.Model", "PydraModel.Sched.Rerun", "PydraModel.DriverUtil"]


def spec(case, obs):
    """the gated verdict: taken from the bodies' own start/end log, whatever else happened in the run (also when the
    run diverged from the model, ended with an exception, or the schedule player gave up)"""
    k = case.get("k")
    if k is not None and (obs.get("maxopen") or 0) > k:
        return False, f"{obs['maxopen']} bodies open at once with max_concurrent={k}"
    if obs.get("outcome") in ("HANG", "DEVICE-TIMEOUT", "LIVELOCK"):
        return False, f"submission did not end: {obs.get('outcome')} {obs.get('msg', '')[:200]}"
    return True, ""


spec.own_two_pass = True  # two-pass cases too are judged by the limit alone (what else they do is C15's subject, finding D73)


def _n(name, preds=(), **kw):
    return {"name": name, "preds": list(preds), **kw}


def shape(rng, n):
    """n jobs as independent nodes, a chain, a split node, or a mix"""
    kind = rng.choice(["indep", "indep", "split", "chain", "mix"])
    names = [chr(ord("a") + i) for i in range(10)]
    if kind == "indep":
        return {"nodes": [_n(names[i]) for i in range(n)], "keep_state": []}
    if kind == "split":
        return {"nodes": [_n("a", split=list(range(n)))], "keep_state": []}
    if kind == "chain":
        return {"nodes": [_n(names[i], [names[i - 1]] if i else []) for i in range(n)], "keep_state": []}
    m = max(1, n // 2)
    nodes = [_n("a", split=list(range(m)))]
    for i in range(n - m):
        nodes.append(_n(names[i + 1], ["a"] if rng.random() < 0.5 else []))
    return {"nodes": nodes, "keep_state": []}


def gen_cases(rng, n, nmax):
    cases = []
    for _ in range(n):
        nj = rng.randint(3, nmax)
        c = shape(rng, nj)
        c["k"] = rng.randint(1, sched.njobs(c))
        c["fail"] = []
        c["policy"] = {"seed": rng.randrange(10**6), "style": rng.choice(["greedy", "greedy", "random", "lazy", "fifo"])}
        c["n_procs"] = min(sched.njobs(c), 10)
        cases.append(c)
    return cases


# witness of the repaired defect D11 (4 independent jobs, k = 2: must now stay within the limit) and an 8-job version
def tail_cases(rng, n):
    """the end of the queue: k in {2, 3}, a few more jobs than k, every dispatched body is opened at once and exactly one
    future completes per iteration ('greedy'): when r <= k jobs are still queued while k - 1 bodies execute, r + running > k"""
    cases = []
    for _ in range(n):
        k = rng.choice([2, 3])
        nj = k + rng.choice([1, 2, 2, 3])
        kind = rng.choice(["indep", "split", "chain+indep"])
        names = [chr(ord("a") + i) for i in range(10)]
        if kind == "indep":
            c = {"nodes": [_n(names[i]) for i in range(nj)], "keep_state": []}
        elif kind == "split":
            c = {"nodes": [_n("a", split=list(range(nj)))], "keep_state": []}
        else:
            c = {"nodes": [_n("n0"), _n("n1", ["n0"])] + [_n(names[i]) for i in range(nj - 2)], "keep_state": []}
        c.update({"k": k, "fail": [], "n_procs": sched.njobs(c), "policy": {"seed": rng.randrange(10**6), "style": "greedy"}})
        cases.append(c)
    return cases


def two_cases(rng, n):
    """the limit over PRE-EXISTING results: a second submission with rerun=True, or after a first one whose jobs all failed
    (Job.run re-executes an errored result), over the same cache_root or a readonly cache; every job runnable at once,
    k in {1, 2}, every dispatched body opened at once"""
    cases = []
    names = [chr(ord("a") + i) for i in range(10)]
    for _ in range(n):
        nj = rng.randint(3, 6)
        kind = rng.choice(["indep", "indep", "split", "mix"])
        if kind == "indep":
            c = {"nodes": [_n(names[i]) for i in range(nj)], "keep_state": []}
        elif kind == "split":
            c = {"nodes": [_n("a", split=list(range(nj)))], "keep_state": []}
        else:
            c = {"nodes": [_n("a", split=[0, 1])] + [_n(names[i + 1]) for i in range(nj - 2)], "keep_state": []}
        tags = sched.all_tags(c)
        how = rng.choice(["rerun", "rerun", "errored", "rerun-ro", "errored-ro"])
        c["two"] = {"rerun": how.startswith("rerun"), "ro": how.endswith("-ro"), "pre_fail": tags if how.startswith("errored") else []}
        c.update({"k": rng.choice([1, 2, 2]), "fail": [], "n_procs": len(tags),
                  "policy": {"seed": rng.randrange(10**6), "style": rng.choice(["greedy", "greedy", "random"])}})
        cases.append(c)
    return cases


# witnesses of repaired findings and hand-made schedules: corpus/sched/C16.jsonl
CORPUS = sched.load_corpus("C16")


def correspondence(ctx):
    core.assert_repo_loaded()
    # corpus (D11 witness) first, then generated cases, in one batch
    res = sched.explore(ctx, [dict(c) for c in CORPUS] + tail_cases(ctx.rng, ctx.pick(3, 40)) + two_cases(ctx.rng, ctx.pick(4, 40))
                        + gen_cases(ctx.rng, ctx.pick(8, 90), ctx.pick(6, 10)), spec, "C16 concurrency limit")
    ctx.extra["max_open_seen"] = max([o.get("maxopen") or 0 for (_, o, _, _, _) in res] + [0])
    ctx.extra["cases_at_limit"] = sum(1 for (c, o, _, _, _) in res if c.get("k") is not None and o.get("maxopen") == c["k"])


def search(ctx):
    sched.explore(ctx, [dict(c) for c in CORPUS] + tail_cases(ctx.rng, ctx.pick(12, 80)) + two_cases(ctx.rng, ctx.pick(10, 70))
                  + gen_cases(ctx.rng, ctx.pick(25, 220), 10), spec, "C16 search")


def replay(ctx, rec):
    sched.explore(ctx, [rec["case"]], spec, "C16 replay")
