"""C38 — Mount lookup compares whole path components (DESIGN §6 C38, engine Mount §5.9).

Template for the other property modules.  A property module provides

  META            level text / technique / rule / assumptions (used for MANIFEST.json and evidence)
  OBLIGATIONS     fully qualified Lean theorem names that must build and pass the axiom audit
  LEAN_TARGETS    lake targets holding them (default PydraModel.Props.<id>)
  MODEL_TARGETS   model/spec modules the driver needs (built alone when a proof is broken)
  EXTRACTORS      functions(ctx) -> [generated files]   (regenerated-from-source tie; optional)
  correspondence(ctx)   run implementation vs model vs spec on generated cases, call ctx.judge / ctx.finding
  search(ctx)           larger impl-vs-spec search used when a proof/correspondence broke (optional)
  replay(ctx, rec)      re-run one replay file
"""

from __future__ import annotations

from pathlib import PurePosixPath

from harness import core

LIVE_MODEL = "comp"  # which Lean function mirrors the working tree: "str" (pinned commit) or "comp" (after fix)

META = {
    "engine": "Mount",
    "category": "proof",
    "design_ref": "§6 C38, §5.9",
    "technique": "Lean 4 theorem (first match in a length-sorted table = longest component prefix) + differential correspondence",
    "text": "Lean theorems, for every table and path of any size: the component-comparing lookup returns a longest "
    "component-prefix entry of a table as produced by parse_mount_table (C38_comp_longest), never a string-prefix sibling "
    "(C38_comp_no_sibling); parse_mount_table's result is sorted longest first (C38_parse_sorted), and its CIFS filter "
    "never changes the answer of on_cifs relative to the full mount table (C38_filter_transparent, C38_parse_transparent) and is idempotent on its own output (C38_parse_idempotent).  The Lean functions are "
    "tied to pydra/utils/mount_identifier.py by running get_mount / on_cifs / on_same_mount / parse_mount_table and the "
    "model on generated mount output and paths (sibling prefixes, nested mounts, '.', '//', trailing '/').",
    "note": "Trusted: Lean kernel; hand-written model of get_mount/parse_mount_table (regex itself is exercised, not modelled); "
    "generator reach; PurePosixPath semantics for path components.",
    "rule": "case = (mount table skeleton, path); distinct by canonical JSON; non-trivial = table has >= 2 entries and the path "
    "has a string-prefix sibling or a nested mount among the entries",
    "assumptions": [
        "mount points are printed by `mount` in canonical spelling (no '//', no trailing '/')",
        "paths are absolute and do not start with exactly two slashes (POSIX leaves '//x' implementation-defined; pathlib treats '//' as a distinct root)",
    ],
    "trusted": ["model of MountIndentifier.get_mount/parse_mount_table written by hand (Mount/Model.lean)"],
}

_NS = "PydraModel.Mount."
OBLIGATIONS = [
    _NS + n
    for n in (
        "C38_comp_longest",
        "C38_comp_no_sibling",
        "C38_parse_sorted",
        "C38_parse_subset",
        "C38_str_partial",
        "C38_str_witness",
        "C38_filter_transparent",
        "C38_parse_transparent",
        "C38_filter_str_witness",
        "C38_parse_idempotent",
        "C38_same_mount_equiv",
        "C38_same_mount_ref",
    )
]
LEAN_TARGETS = ["PydraModel.Props.C38", "PydraModel.Props.C38b"]
MODEL_TARGETS = ["PydraModel.Mount.Model", "PydraModel.DriverUtil"]

NAMES = ["data", "data2", "database", "dat", "mnt", "mnt/share", "home", "home/u", "a", "a/b", "a/b/c", "ab", "a b", "x.y", "é"]
FSTYPES = ["ext4", "cifs", "CIFS", "nfs", "xfs", "apfs", "tmpfs"]


def gen_case(rng) -> dict:
    n = rng.choice([0, 1, 2, 2, 3, 3, 4, 5])
    pts = []
    for _ in range(n):
        base = "/" + rng.choice(NAMES)
        if rng.random() < 0.35:
            base += "/" + rng.choice(NAMES)
        if base not in pts:
            pts.append(base)
    if rng.random() < 0.3:
        pts.append("/")
    pairs = [[p, rng.choice(FSTYPES)] for p in pts]
    rng.shuffle(pairs)
    # paths: under an entry, a string-prefix sibling of an entry, or unrelated
    r = rng.random()
    if pairs and r < 0.45:
        path = rng.choice(pairs)[0].rstrip("/") + rng.choice(["", "/f.txt", "/sub/f", "/./f", "//f", "/"])
    elif pairs and r < 0.85:
        path = rng.choice(pairs)[0].rstrip("/") + rng.choice(["2/x", "base", "_old/f", "x", ".bak", " copy/f"])
    else:
        path = "/" + rng.choice(NAMES) + rng.choice(["", "/f"])
    if not path.startswith("/"):  # the entry was "/" itself; only absolute paths are in the property's domain
        path = "/" + path
    if path.startswith("//") and not path.startswith("///"):
        # exactly two leading slashes are an implementation-defined root in POSIX (pathlib keeps '//' as a
        # different root); outside the modelled domain, see META["assumptions"]
        path = path[1:]
    path2 = "/" + rng.choice(NAMES) + "/g"
    style = rng.choice(["linux", "osx"])
    return {"pairs": pairs, "path": path, "path2": path2, "style": style}


def mount_text(pairs, style) -> str:
    lines = []
    for i, (p, t) in enumerate(pairs):
        if style == "linux":
            lines.append(f"//srv{i}/share on {p} type {t} (rw,relatime)")
        else:
            lines.append(f"/dev/disk{i}s1 on {p} ({t}, local, journaled)")
    return "\n".join(lines) + "\n"


def parts(p: str):
    return [c for c in PurePosixPath(p).parts if c != "/"]


def oracle(table, path):
    """Reference: longest entry that is a component prefix (None = root default)."""
    best = None
    for p, t in table:
        cp = parts(p)
        if parts(path)[: len(cp)] == cp and (best is None or len(cp) > len(parts(best[0]))):
            best = (p, t)
    return best


def has_string_sibling(table, path) -> bool:
    return any(path.startswith(p) and parts(path)[: len(parts(p))] != parts(p) for p, _ in table)


def impl_case(case):
    from pydra.utils.mount_identifier import MountIndentifier as MI

    table = MI.parse_mount_table(0, mount_text(case["pairs"], case["style"]))
    with MI.patch_table(table):
        mp, fs = MI.get_mount(case["path"])
        cifs = MI.on_cifs(case["path"])
        same = MI.on_same_mount(case["path"], case["path2"])
    # the unfiltered table, sorted as parse_mount_table sorts it (C38_parse_transparent: same on_cifs answer)
    full = sorted((tuple(e) for e in case["pairs"]), key=lambda e: len(e[0]), reverse=True)
    with MI.patch_table(full):
        cifs_full = MI.on_cifs(case["path"])
    # C38_parse_idempotent: the table printed as mount output and parsed again is the same table
    again = MI.parse_mount_table(0, mount_text([list(e) for e in table], case["style"])) if table else []
    return {
        "reparse_same": [list(e) for e in again] == [list(e) for e in table],
        "table": [list(e) for e in table],
        "mount": [str(PurePosixPath(mp)), fs],
        "cifs": bool(cifs),
        "same": bool(same),
        "cifs_full": bool(cifs_full),
    }


def run_cases(ctx, cases):
    impls = [impl_case(c) for c in cases]
    # model: parse (on the pairs the generator rendered) and lookup on the *implementation's* table,
    # so the lookup is compared even when the CIFS filter differs
    q = []
    for c, i in zip(cases, impls):
        q.append({"op": "parse", "pairs": c["pairs"]})
        q.append({"op": "get_mount", "table": i["table"], "path": c["path"]})
        q.append({"op": "get_mount", "table": i["table"], "path": c["path2"]})
        full = sorted((list(e) for e in c["pairs"]), key=lambda e: len(e[0]), reverse=True)
        q.append({"op": "get_mount", "table": full, "path": c["path"]})
        q.append({"op": "parse", "pairs": i["table"]})
    ans = ctx.driver("Mount", q)
    for k, (c, i) in enumerate(zip(cases, impls)):
        if ans is not None:
            a_parse, a_get, a_get2, a_full, a_again = ans[5 * k : 5 * k + 5]
            mp, fs = a_get[LIVE_MODEL]
            mp2 = a_get2[LIVE_MODEL][0]
            model = {
                "table": a_parse[LIVE_MODEL],
                "mount": [str(PurePosixPath(mp)), fs],
                "cifs": fs == "cifs",
                "same": parts(mp) == parts(mp2),
                "cifs_full": a_full[LIVE_MODEL][1] == "cifs",
                "reparse_same": a_again[LIVE_MODEL] == i["table"],
            }
        else:
            model = None
        best = oracle(i["table"], c["path"])
        want_mp = str(PurePosixPath(best[0])) if best else "/"
        ok_fs = {t for p, t in i["table"] if parts(p) == parts(want_mp)} if best else {"ext4"}
        spec_ok = i["mount"][0] == want_mp and i["mount"][1] in ok_fs
        # the table itself: only entries under a CIFS mount (component-wise) are kept, longest first
        cifs_pts = [p for p, t in c["pairs"] if t.lower() == "cifs"]
        want_tbl = sorted(
            (e for e in c["pairs"] if any(parts(e[0])[: len(parts(cp))] == parts(cp) for cp in cifs_pts)),
            key=lambda e: len(e[0]),
            reverse=True,
        )
        spec_ok = spec_ok and i["table"] == [list(e) for e in want_tbl]
        # C38_parse_transparent: the CIFS filter never changes the answer of on_cifs
        spec_ok = spec_ok and i["cifs"] == i["cifs_full"] and i["reparse_same"]
        ctx.count("on_cifs=" + str(i["cifs"]))
        sib = has_string_sibling(i["table"], c["path"]) or any(
            e[0].startswith(cp) and parts(e[0])[: len(parts(cp))] != parts(cp) for e in c["pairs"] for cp in cifs_pts
        )
        nontrivial = len(c["pairs"]) >= 2 and (sib or best is not None)
        ctx.count("sibling" if sib else ("nested" if best else "unrelated"))
        ctx.count(f"entries={len(c['pairs'])}")
        ctx.judge(c, i, model, spec_ok, nontrivial=nontrivial, defect="D22" if sib else None, what="get_mount/parse_mount_table")


WITNESS = {"pairs": [["/data", "cifs"]], "path": "/data2/x", "path2": "/database/y", "style": "linux"}


def correspondence(ctx):
    core.assert_repo_loaded()
    # corpus first: the D22 witness (known finding or, once repaired, a regression case that must pass)
    i = impl_case(WITNESS)
    fails = i["mount"][0] != "/"
    if any(f["id"] == "D22" for f in ctx.known()):
        ctx.finding("D22", fails, f"get_mount('/data2/x') -> {i['mount']}")
    run_cases(ctx, [WITNESS])
    n = ctx.pick(400, 6000)
    run_cases(ctx, [gen_case(ctx.rng) for _ in range(n)])


def search(ctx):
    run_cases(ctx, [gen_case(ctx.rng) for _ in range(ctx.pick(4000, 20000))])


def replay(ctx, rec):
    run_cases(ctx, [rec["case"]])
