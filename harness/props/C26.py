"""C26 — Output path templates resolve inside the job directory (DESIGN §6 C26, engine PathTemplate §5.7).

Implementation side: `template_update` (what `Job.inputs` holds for an outarg before execution),
`template_update_single(spec_type="output")` (what `ShellOutputs._resolve_value` computes after it), and — for a sample —
a whole task run with the executor intercepted (Job.inputs, the argv element, the collected output).
Model side: `PydraModel.PathTemplate.resolve` through `Drivers/PathTemplate.lean`.
Spec oracle: every resolved path is `<job dir>/<plain name>`; an explicit path comes back as given; two evaluations agree.
"""

from __future__ import annotations

import json
import typing as ty
import uuid
from pathlib import Path

from harness import core
from harness.engines.template import is_plain_name, recording_executor, rel_to

META = {
    "engine": "PathTemplate",
    "category": "proof",
    "design_ref": "§6 C26, §5.7, §7 D16",
    "technique": "Lean 4 theorems over a string-level model of the path-template code (field scan, str.format subset, "
    "extension cases, PurePosixPath.name) + differential correspondence against template_update / _resolve_value",
    "text": "Lean theorems, for templates, values and directories of any length: whenever the last component of the formatted "
    "template is a real name (decidable TemplateTailOK) every resolved path is <job dir>/<plain name> (C26_partial, C26_partial_many); "
    "the hypothesis is exact (C26_tail_exact: otherwise the result is the job directory itself or its parent) and a literal tail "
    "with a non-dot character is sufficient whatever the values are (C26_literal_tail_ok); the result is a function of template, referenced values "
    "and keep_extension only (C26_deterministic, C26_irrelevant_value) and is always directly under the job directory or equal to it / its "
    "parent (C26_never_deeper); the three extension cases of _element_formatting (C26_ext_*), end to end for `{x}suffix` templates (C26_ext_moved_name), and explicit paths returned as given "
    "(C26_explicit).  The full statement is refuted for the pinned code by C26_witness_dotdot / C26_witness_empty (D16).  The model is tied "
    "to pydra/compose/shell/templating.py by running template_update, template_update_single(spec_type='output') and whole tasks "
    "(executor intercepted) against the model on generated templates (0-2 referenced inputs, files with 0-2 extensions, strings "
    "incl. '..', '.', '', slashes, numbers with .Nf specs, lists with MultiOutputFile, keep_extension on/off, explicit paths).",
    "note": "Trusted: Lean kernel; hand-written model of templating.py (regex scans and str.format subset modelled as state machines; "
    "float formatting only for exactly representable decimals); PurePosixPath semantics; generator reach.  Templates with format "
    "features outside the modelled subset are compared against the spec only.",
    "rule": "case = (template, 0-3 typed input values, keep_extension, MultiOutputFile?, explicit value); distinct by canonical JSON; "
    "non-trivial = the template references at least one input and a path was produced",
    "assumptions": [
        "File-typed inputs hold absolute normalised paths of existing files",
        "template field names and literals are ASCII",
        "float inputs are exactly representable decimals (k/8) so that '.Nf' rounding is exact",
    ],
    "trusted": ["model of templating.py written by hand (PathTemplate/Model.lean)"],
}

_NS = "PydraModel.PathTemplate."
OBLIGATIONS = [
    _NS + n
    for n in (
        "C26_partial",
        "C26_partial_many",
        "C26_tail_exact",
        "C26_never_deeper",
        "C26_literal_tail_ok",
        "C26_witness_dotdot",
        "C26_witness_empty",
        "C26_full_statement_false",
        "C26_deterministic",
        "C26_irrelevant_value",
        "C26_ext_dropped",
        "C26_ext_case_end",
        "C26_ext_case_moved",
        "C26_ext_case_template_ext",
        "C26_ext_moved_name",
        "C26_explicit",
        "C26_off",
    )
]
LEAN_TARGETS = ["PydraModel.Props.C26"]
MODEL_TARGETS = ["PydraModel.PathTemplate.Model", "PydraModel.DriverUtil"]

# ------------------------------------------------------------------------------------------------
# generator

LITS = ["out", "_", "res", ".txt", ".nii", "sub/", "a.b", "-", "pre_", ".", "..", "/", "_brain", "x.y.z", "d/e/"]
STRS = ["s", "sub", "a.b", "a.b.c", "..", ".", "", "a/b", "/abs/p", "x/", "../up", "a b", "ü", "n.tar.gz", "./", "a/..", "a/."]
INTS = [0, 3, -7, 12, 100]
DECS = [(5, 1), (25, 2), (30, 1), (-25, 2), (25, 1), (1125, 3), (375, 3), (1075, 2), (0, 1), (15, 1), (35, 1), (-5, 1), (125, 3)]
STEMS = ["data", "img", "a_b", "T1w"]
EXTS = ["", ".nii", ".nii.gz", ".txt", ".tar.gz", ".", ".a.b.c"]
DIRS = ["in", "in/sub", "in/d.ir", "in/a/b"]
ODD = ["{{x}}", "{z}", "{x", "x}", "{y:03d}", "{x!r}", "{}", "{x:}", "{y:5.1f}", "{y:..f}", "{x.a}", "{0}"]


def gen_value(rng, kind):
    if kind == "str":
        return {"kind": "str", "value": rng.choice(STRS)}
    if kind == "int":
        return {"kind": "int", "value": rng.choice(INTS)}
    if kind == "float":
        m, k = rng.choice(DECS)
        return {"kind": "float", "dec": [m, k]}
    if kind == "file":
        return {"kind": "file", "dir": rng.choice(DIRS), "fname": rng.choice(STEMS) + rng.choice(EXTS)}
    if kind == "liststr":
        return {"kind": "liststr", "value": [rng.choice(STRS) for _ in range(rng.choice([0, 1, 2, 2, 3]))]}
    if kind == "listint":
        return {"kind": "listint", "value": [rng.choice(INTS) for _ in range(rng.choice([0, 1, 2, 2, 3]))]}
    if kind == "none":
        return {"kind": "none"}
    if kind == "bool":
        return {"kind": "bool", "value": rng.random() < 0.5}
    if kind == "negzero":
        return {"kind": "negzero"}
    raise AssertionError(kind)


def gen_case(rng) -> dict:
    nref = rng.choice([0, 1, 1, 1, 2, 2, 2])
    names = ["x", "y"][:nref]
    multi = rng.random() < 0.25
    inputs = []
    for n in names:
        kinds = ["str", "str", "int", "float", "file", "file", "file"]
        if rng.random() < 0.08:
            kinds = ["bool", "negzero", "int", "float"]  # falsy-but-set values: False, -0.0, 0, 0.0 are in INTS/DECS too
        if multi:
            kinds += ["liststr", "liststr", "listint"]
        if rng.random() < 0.04:
            kinds = ["none"]
        if rng.random() < 0.03:
            kinds = ["liststr"]  # a list without MultiOutputFile (formats the list's repr; compared with the spec only)
        v = gen_value(rng, rng.choice(kinds))
        v["name"] = n
        inputs.append(v)
    if rng.random() < 0.3:  # an input the template does not mention
        v = gen_value(rng, rng.choice(["str", "int", "file"]))
        v["name"] = "w"
        inputs.append(v)
    # template: literal pieces and the referenced fields in random order
    pieces = []
    for n in names:
        kind_n = next((i["kind"] for i in inputs if i["name"] == n), "")
        num = kind_n in ("int", "float", "negzero")
        if num and rng.random() < 0.5:
            pieces.append("{%s:.%df}" % (n, rng.choice([0, 1, 2, 3])))
        elif kind_n != "bool" and rng.random() < 0.04:
            pieces.append("{%s:.1f}" % n)  # 'f' on whatever the value is
        else:
            pieces.append("{%s}" % n)
        if rng.random() < 0.08:
            pieces.append("{%s}" % n)  # the same field twice
    for _ in range(rng.choice([0, 1, 1, 2, 3])):
        pieces.append(rng.choice(LITS))
    if rng.random() < 0.06:
        pieces.append(rng.choice(ODD))
    rng.shuffle(pieces)
    tmpl = "".join(pieces)
    if tmpl == "":
        tmpl = rng.choice(["out.txt", "{x}", "o"])  # an empty template is "no template" (path_template falsy)
    r = rng.random()
    if r < 0.8:
        given = {"kind": "template"}
    elif r < 0.87:
        given = {"kind": "off"}
    else:
        given = {"kind": "path", "p": rng.choice(["$S/exp/o.txt", "$S/exp/deep/er/o.nii.gz", "rel.txt", "sub/rel.txt", "../up.txt", "$S/JOB/inside.txt"])}
    return {"tmpl": tmpl, "inputs": inputs, "keep": rng.random() < 0.6, "multi": multi, "given": given}


def grid_cases() -> list[dict]:
    """Systematic part: one file input x every extension shape x template shapes x keep."""
    out = []
    tmpls = ["{x}", "{x}_out", "pre_{x}", "{x}.txt", "out_{x}.nii", "{x}_brain", "a.b/{x}", "d/{x}_o", "o.{x}", "{x}/", "{x}/.."]
    for ext in EXTS:
        for t in tmpls:
            for keep in (True, False):
                out.append(
                    {
                        "tmpl": t,
                        "inputs": [{"kind": "file", "dir": "in", "fname": "data" + ext, "name": "x"}],
                        "keep": keep,
                        "multi": False,
                        "given": {"kind": "template"},
                    }
                )
    for s in STRS:
        for t in ["{x}", "{x}_o", "o_{x}.txt", "d/{x}", "{x}/o", "{x}{x}"]:
            out.append({"tmpl": t, "inputs": [{"kind": "str", "value": s, "name": "x"}], "keep": True, "multi": False, "given": {"kind": "template"}})
    # set-but-falsy values: 0, 0.0, -0.0, False, "" (and True) must resolve like any other value
    fx = {"kind": "file", "dir": "in", "fname": "scan.nii.gz", "name": "x"}
    falsy = [{"kind": "int", "value": 0}, {"kind": "float", "dec": [0, 1]}, {"kind": "negzero"}, {"kind": "bool", "value": False},
             {"kind": "bool", "value": True}, {"kind": "str", "value": ""}]
    for fv in falsy:
        specs = ["{y}", "{x}_{y}", "{y}_{x}", "o_{y}.txt"]
        if fv["kind"] in ("int", "float", "negzero"):
            specs += ["{x}_{y:.2f}", "v{y:.0f}", "{y:.1f}.txt"]
        for t in specs:
            for keep in (True, False):
                ins = [dict(fx)] if "{x}" in t else []
                out.append({"tmpl": t, "inputs": ins + [{**fv, "name": "y"}], "keep": keep, "multi": False, "given": {"kind": "template"}})
    for m, k in DECS:
        for t in ["{y}", "v{y:.0f}", "v{y:.1f}", "v{y:.2f}.txt", "{y:.3f}"]:
            out.append({"tmpl": t, "inputs": [{"kind": "float", "dec": [m, k], "name": "y"}], "keep": True, "multi": False, "given": {"kind": "template"}})
    return out


WITNESSES = [
    {"tmpl": "{x}", "inputs": [{"kind": "str", "value": "..", "name": "x"}], "keep": True, "multi": False, "given": {"kind": "template"}},
    {"tmpl": "{x}", "inputs": [{"kind": "str", "value": "", "name": "x"}], "keep": True, "multi": False, "given": {"kind": "template"}},
]

# ------------------------------------------------------------------------------------------------
# implementation


def _build(case, scratch: Path):
    """(task, outarg field, job dir) for a case; files are created under `scratch`."""
    from fileformats.generic import File
    from pydra.compose import shell
    from pydra.utils.general import get_fields
    from pydra.utils.typing import MultiOutputFile

    ins, kw = {}, {}
    for i in case["inputs"]:
        k = i["kind"]
        if k == "file":
            d = scratch / i["dir"]
            d.mkdir(parents=True, exist_ok=True)
            p = d / i["fname"]
            if not p.exists():
                p.write_text("x")
            tp, val = File, p
        elif k == "str":
            tp, val = str, i["value"]
        elif k == "int":
            tp, val = int, i["value"]
        elif k == "float":
            tp, val = float, i["dec"][0] / 10 ** i["dec"][1]
        elif k == "liststr":
            tp, val = list[str], list(i["value"])
        elif k == "listint":
            tp, val = list[int], list(i["value"])
        elif k == "none":
            tp, val = ty.Optional[str], None
        elif k == "bool":
            tp, val = bool, bool(i["value"])
        elif k == "negzero":
            tp, val = float, -0.0
        else:
            raise core.Infra(f"bad input kind {k}")
        ins[i["name"]] = shell.arg(type=tp, argstr="", **({"default": None} if k == "none" else {}))
        kw[i["name"]] = val
    otype = MultiOutputFile if case["multi"] else File
    C = shell.define(
        "cmd",
        inputs=ins,
        outputs={"out": shell.outarg(type=otype, path_template=case["tmpl"], keep_extension=case["keep"], argstr="")},
    )
    g = case["given"]
    if g["kind"] == "off":
        kw["out"] = False
    elif g["kind"] == "path":
        kw["out"] = Path(g["p"].replace("$S", str(scratch)))
    task = C(**kw)
    fld = next(f for f in get_fields(task) if f.name == "out")
    return task, fld


def _obs(cd, value) -> dict:
    if value is None:
        return {"kind": "absent"}
    if isinstance(value, list):
        return {"kind": "many", "ps": [rel_to(cd, v) for v in value]}
    return {"kind": "one", "p": rel_to(cd, value)}


def impl_fast(case, scratch: Path) -> tuple[dict, bool]:
    """(observable, D16 match rule) from template_update and template_update_single(spec_type="output")."""
    from pydra.compose.shell import templating as T
    from pydra.utils.general import attrs_values

    cd = scratch / "JOB"
    try:
        task, fld = _build(case, scratch)
    except Exception as e:  # definition / instantiation rejected
        return {"build": core.exc_tag(e)}, False

    def upd():
        try:
            d = T.template_update(task, cache_dir=cd)
            return _obs(cd, d["out"]) if "out" in d else {"kind": "absent"}
        except Exception as e:
            return {"kind": "error", "err": core.exc_tag(e)}

    def outp():
        try:
            return _obs(cd, T.template_update_single(fld, task=task, cache_dir=cd, spec_type="output"))
        except Exception as e:
            return {"kind": "error", "err": core.exc_tag(e)}

    a, b = upd(), outp()
    det = a == upd() and b == outp()
    # D16 match rule, on the code's own formatted template: its last component is empty, "." or ".."
    return {"input": a, "output": b, "det": det}, d16_rule_on_code(task, fld)


def d16_rule_on_code(task, fld) -> bool:
    """D16 match rule evaluated on the code's own formatted template: its last component is empty, "." or ".."."""
    from pydra.compose.shell import templating as T
    from pydra.utils.general import attrs_values

    try:
        v = T._template_formatting(fld, task, attrs_values(task))
        vs = v if isinstance(v, list) else ([] if v is None else [v])
        return any(Path(x).name in ("", "..") for x in vs)
    except Exception:
        return False


def _out_obs(cd, value) -> dict:
    """Collected outputs as a flat list of paths (a one-element MultiOutputFile list collapses to a single File)."""
    if value is None:
        return {"paths": []}
    vs = value if isinstance(value, list) else [value]
    return {"paths": sorted({rel_to(cd, v) for v in vs})}  # equal entries of a MultiOutputFile list are collected once


CODE_RULE: dict = {}


def impl_full(case, scratch: Path) -> tuple[dict, str | None]:
    """A whole task run with the executor intercepted: Job.inputs['out'], the argv, the collected output.
    Returns (observable, job directory or None when the executor was never reached)."""
    rec: dict = {}
    try:
        task, fld = _build(case, scratch)
    except Exception as e:
        return {"build": core.exc_tag(e)}, None
    # kept out of the compared observation; used only when the model does not cover the case (e.g. a list in a format)
    CODE_RULE[id(case)] = d16_rule_on_code(task, fld)
    res = {}
    with recording_executor(rec):
        try:
            outs = task(cache_root=scratch / ("cache-" + uuid.uuid4().hex[:12]), worker="debug")
            res["outputs"] = _out_obs(rec["cache_dir"], outs.out)
        except Exception as e:
            res["outputs"] = {"error": core.exc_tag(e)}
    if "cache_dir" not in rec:
        return {"not-executed": res["outputs"]}, None
    cd = rec["cache_dir"]
    v = rec["inputs"].get("out")
    res["job_input"] = _obs(cd, None if (v is None or v is False) else v)
    res["argv_has"] = sorted({rel_to(cd, a) for a in rec["argv"][1:] if str(a) == str(cd) or str(a).startswith(str(cd) + "/")})
    return res, str(cd)


# ------------------------------------------------------------------------------------------------
# model


def model_query(case, scratch: Path) -> dict:
    vals = []
    for i in case["inputs"]:
        k = i["kind"]
        if k == "file":
            comps = [c for c in (str(scratch) + "/" + i["dir"]).split("/") if c]
            v = {"file": {"dir": comps, "name": i["fname"]}}
        elif k == "str":
            v = {"str": i["value"]}
        elif k == "int":
            v = {"int": i["value"]}
        elif k == "float":
            v = {"dec": i["dec"]}
        elif k == "liststr":
            v = {"list": [{"str": s} for s in i["value"]]}
        elif k == "listint":
            v = {"list": [{"int": n} for n in i["value"]]}
        elif k == "bool":
            v = {"str": "True" if i["value"] else "False"}  # str(bool); never generated with a format spec
        elif k == "negzero":
            v = {"str": "-0.0"}  # str(-0.0); with a format spec the case is compared with the spec only (model_covers)
        else:
            v = {"none": True}
        vals.append([i["name"], v])
    g = dict(case["given"])
    if g["kind"] == "path":
        g["p"] = str(Path(g["p"].replace("$S", str(scratch))))
    return {"op": "resolve", "cd": str(scratch / "JOB"), "tmpl": case["tmpl"], "vals": vals, "keep": case["keep"], "multi": case["multi"], "given": g}


def model_obs(cd: str, out: dict) -> dict | None:
    """Model answer in the harness' canonical form; None = outside the modelled subset."""
    if out["kind"] == "error":
        if out["err"].startswith("unmodelled"):
            return None
        return {"kind": "error", "err": out["err"]}
    if out["kind"] == "one":
        return {"kind": "one", "p": rel_to(cd, out["p"])}
    if out["kind"] == "many":
        return {"kind": "many", "ps": [rel_to(cd, p) for p in out["ps"]]}
    return {"kind": "absent"}


# ------------------------------------------------------------------------------------------------
# oracle


def paths_of(o: dict) -> list[str]:
    return [o["p"]] if o.get("kind") == "one" else list(o.get("ps", [])) if o.get("kind") == "many" else []


def spec_fast(case, impl, scratch) -> bool:
    if "build" in impl:
        return True  # the definition was rejected: nothing resolved
    ok = impl["det"]
    g = case["given"]
    if g["kind"] == "path":
        want = rel_to(scratch / "JOB", str(Path(g["p"].replace("$S", str(scratch)))))
        ok = ok and impl["input"] == {"kind": "one", "p": want}
    elif g["kind"] == "off":
        ok = ok and impl["input"] == {"kind": "absent"}
    else:
        ok = ok and all(is_plain_name(p) for p in paths_of(impl["input"]))
        # the template is in force and nothing it mentions is unset: a path must come out (an exception is a refusal,
        # "no output" is not).  0, 0.0, -0.0, False and "" are set values.
        if all_referenced_set(case):
            ok = ok and impl["input"].get("kind") != "absent"
    ok = ok and all(is_plain_name(p) for p in paths_of(impl["output"]))
    if all_referenced_set(case):
        ok = ok and impl["output"].get("kind") != "absent"
    return ok and ext_clause_ok(case, impl)


def all_referenced_set(case) -> bool:
    """No input that is unset (None) is mentioned by the template (any spelling starting `{name`)."""
    return not any(i["kind"] == "none" and ("{" + i["name"]) in case["tmpl"] for i in case["inputs"])


def model_covers(case) -> bool:
    """-0.0 under a format spec is outside the model's exact-decimal floats."""
    return not any(i["kind"] == "negzero" and ("{" + i["name"] + ":") in case["tmpl"] for i in case["inputs"])


def ext_clause_ok(case, impl) -> bool:
    """"keeping or dropping the input file's extension as declared", for the unambiguous situation: the template has no
    extension of its own and references exactly one input, a file `stem.ext`: with keep_extension the resolved name ends in
    `.ext`, without it it does not."""
    t = case["tmpl"]
    refs = [i for i in case["inputs"] if "{" + i["name"] + "}" in t]
    if case["given"]["kind"] != "template" or "." in t or len(refs) != 1 or refs[0]["kind"] != "file":
        return True
    if any(("{" + i["name"]) in t for i in case["inputs"] if i is not refs[0]):
        return True
    fname = refs[0]["fname"]
    stem, _, ext = fname.partition(".")
    if not stem or not ext:
        return True
    for key in ("input", "output"):
        o = impl[key]
        if o.get("kind") != "one":
            continue
        if o["p"].endswith("." + ext) != bool(case["keep"]):
            return False
        # dropping means dropping ALL of `.ext` (which may itself be multi-part, `.nii.gz`): neither the template nor the
        # stem contains a dot here, so no dot may be left in the resolved name (seeded change C26r3: `Path.stem`)
        if not case["keep"] and "." in o["p"].rsplit("/", 1)[-1]:
            return False
    return True


def run_fast(ctx, cases):
    scratch = ctx.scratch / "c26"
    scratch.mkdir(exist_ok=True)
    cd = str(scratch / "JOB")
    impls = [impl_fast(c, scratch) for c in cases]
    q = []
    for c in cases:
        mq = model_query(c, scratch)
        q.append(mq)
        q.append({**mq, "given": {"kind": "template"}})  # the output side ignores the explicit value
    ans = ctx.driver("PathTemplate", q)
    for k, (c, (impl, rule)) in enumerate(zip(cases, impls)):
        model = None
        if ans is not None:
            a, b = ans[2 * k], ans[2 * k + 1]
            if "error" in a or "error" in b:
                ctx.tie_broken.append({"kind": "model-driver", "detail": f"driver rejected {c}: {a.get('error') or b.get('error')}"})
            else:
                mi, mo = model_obs(cd, a["out"]), model_obs(cd, b["out"])
                if mi is not None and mo is not None and "build" not in impl and model_covers(c):
                    model = {"input": mi, "output": mo, "det": True}
                    if (not b["tailOK"]) != rule and paths_of(mo):
                        # the Lean predicate and the harness' match rule must be the same predicate
                        ctx.tie_broken.append({"kind": "match-rule-mismatch", "case": c, "lean_tailOK": b["tailOK"], "harness_rule": rule})
                else:
                    ctx.count("outside-model")
        ok = spec_fast(c, impl, scratch)
        produced = "build" not in impl and bool(paths_of(impl["input"]) or paths_of(impl["output"]))
        refs = sum(1 for i in c["inputs"] if "{" + i["name"] in c["tmpl"])
        _count(ctx, c, impl, refs)
        ctx.judge(c, impl, model, ok, nontrivial=produced and refs >= 1, defect="D16" if rule else None, what="template_update/_resolve_value")


def _count(ctx, c, impl, refs):
    ctx.count(f"refs={refs}")
    ctx.count("keep" if c["keep"] else "drop")
    ctx.count("given=" + c["given"]["kind"])
    if c["multi"]:
        ctx.count("MultiOutputFile")
    for i in c["inputs"]:
        ctx.count("val:" + i["kind"])
        if i["kind"] == "file":
            ctx.count("file-exts=%d" % min(i["fname"].count("."), 3))
    if "build" in impl:
        ctx.count("outcome:build-" + impl["build"])
        return
    o = impl["input"]
    if o["kind"] == "error":
        ctx.count("outcome:" + o["err"])
    elif o["kind"] == "absent":
        ctx.count("outcome:absent")
    else:
        ps = paths_of(o)
        ctx.count("outcome:plain" if all(is_plain_name(p) for p in ps) else ("outcome:explicit" if c["given"]["kind"] == "path" else "outcome:escape"))


def run_full(ctx, cases):
    scratch = ctx.scratch / "c26full"
    scratch.mkdir(exist_ok=True)
    impls = [impl_full(c, scratch) for c in cases]
    todo = [(c, impl, cd) for c, (impl, cd) in zip(cases, impls) if cd is not None]
    ans = ctx.driver("PathTemplate", [{**model_query(c, scratch), "cd": cd} for c, _, cd in todo])
    answers = dict(zip((id(c) for c, _, _ in todo), ans)) if ans is not None else {}
    for c, (impl, cd) in zip(cases, impls):
        model = None
        rule = False
        a = answers.get(id(c))
        if a is not None and "error" in a:
            ctx.tie_broken.append({"kind": "model-driver", "detail": f"driver rejected {c}: {a['error']}"})
        elif a is not None and model_covers(c):
            m = model_obs(cd, a["out"])
            rule = not a["tailOK"] and c["given"]["kind"] == "template"
            if a["out"].get("kind") == "error" and str(a["out"].get("err", "")).startswith("unmodelled"):
                # the model has no formatted template for this case: D16's match rule is read off the code's own
                rule = CODE_RULE.get(id(c), False) and c["given"]["kind"] == "template"
            if m is not None and m["kind"] != "error":
                ps = paths_of(m)
                model = {"job_input": m, "argv_has": sorted(set(p for p in ps if not p.startswith("ABS:")))}
                # collected outputs are modelled only when paths were produced from the template and every one is a plain
                # name (a directory / missing file is decided by File() coercion, which this engine does not model)
                plain = bool(ps) and all(is_plain_name(p) for p in ps) and c["given"]["kind"] == "template"
                model["outputs"] = {"paths": sorted(set(ps))} if plain else impl["outputs"]
        ok = True
        if "job_input" in impl and c["given"]["kind"] == "template":
            ok = all(is_plain_name(p) for p in paths_of(impl["job_input"])) and all(is_plain_name(p) for p in impl["outputs"].get("paths", []))
            if all_referenced_set(c):
                ok = ok and impl["job_input"].get("kind") != "absent"
        ctx.count("full-run")
        ctx.count("full:" + ("build" if "build" in impl else "not-executed" if cd is None else "error" if "error" in impl["outputs"] else "collected"))
        ctx.judge({"full": True, **c}, impl, model, ok, nontrivial=bool(paths_of(impl.get("job_input", {}))), defect="D16" if rule else None, what="task run (executor intercepted)")


def full_sample(rng, n):
    out = []
    while len(out) < n:
        c = gen_case(rng)
        if c["given"]["kind"] == "off":
            continue
        if any(" " in str(v) for i in c["inputs"] for v in ([i.get("value")] if not isinstance(i.get("value"), list) else i["value"])):
            continue  # a value with white space is split again on its way into argv (D14, property C23): fast path only
        out.append(c)
    return out


def confirm_findings(ctx):
    """Replay the D16 witnesses on the implementation (corpus first)."""
    scratch = ctx.scratch / "c26w"
    scratch.mkdir(exist_ok=True)
    obs = [impl_fast(w, scratch)[0] for w in WITNESSES]
    fails = obs[0].get("input") == {"kind": "one", "p": ".."} and obs[1].get("input") == {"kind": "one", "p": ""}
    if any(f["id"] == "D16" for f in ctx.known()):
        ctx.finding("D16", fails, f"x='..' -> {obs[0].get('input')}; x='' -> {obs[1].get('input')}")


def correspondence(ctx):
    core.assert_repo_loaded()
    confirm_findings(ctx)
    corpus = []
    cf = core.VERIF / "corpus" / "template" / "C26.jsonl"
    if cf.exists():
        corpus = [json.loads(l) for l in cf.read_text().splitlines() if l.strip()]
    run_fast(ctx, WITNESSES + corpus + grid_cases() + [gen_case(ctx.rng) for _ in range(ctx.pick(1500, 25000))])
    full_corpus = []
    ff = core.VERIF / "corpus" / "template" / "C26_full.jsonl"
    if ff.exists():
        full_corpus = [json.loads(l) for l in ff.read_text().splitlines() if l.strip()]
    run_full(ctx, WITNESSES + full_corpus + full_sample(ctx.rng, ctx.pick(120, 2500)))


def search(ctx):
    run_fast(ctx, [gen_case(ctx.rng) for _ in range(ctx.pick(6000, 40000))])


def replay(ctx, rec):
    core.assert_repo_loaded()
    confirm_findings(ctx)
    c = dict(rec["case"])
    if c.pop("full", False):
        run_full(ctx, [c])
    else:
        run_fast(ctx, [c])
