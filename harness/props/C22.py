"""C22 — Shell argument vector follows the documented field semantics (DESIGN §6 C22, engine Argv §5.7)."""

from __future__ import annotations

import json

from harness import core
from harness.engines import argv as A

META = {
    "engine": "Argv",
    "category": "proof",
    "design_ref": "§6 C22, §5.7",
    "technique": "Lean 4 refinement theorems (position sort = sorted stable permutation; slot filling; per-field string "
    "building + shlex re-tokenisation = documented arguments on safe values) + differential correspondence on argv captured at subprocess.run",
    "text": "Lean theorems for any number of fields, list lengths and string lengths.  FULL: position_sort is a sorted, stable "
    "permutation in three buckets (C22_positionSort_shape/_sorted/_perm/_stable) and equals the documented order whenever explicit "
    "positions are pairwise different (C22_order); shell.define assigns pairwise different positions, none 0 (C22_define_positions); "
    "unset / empty multi-input / argstr-less fields are skipped, False flags give nothing, True flags their argstr (C22_omit_*, C22_flag).  "
    "PARTIAL: for every definition accepted by shell.define and every harmless assignment (SafeField: inert, non-blank, bracket-free "
    "values and argstr text; excludes D41 = falsy value under a plain argstr and D42 = '...' with a non-blank separator) such that no "
    "set unpositioned field received an implicit slot below the explicit non-negative position of a set field (NoImplicitBelowExplicit, "
    "decidable; excludes D26): shell.define + _command_args returns, without error, executable ++ documented arguments of the set "
    "fields in documented order ++ append_args (C22_commandArgs_partial; order part alone: C22_order_partial; per-field part: "
    "C22_scalar_plain, C22_list_repeated, C22_list_joined).  Witnesses C22_witness_D26/_D41/_D42, C22_witness_not_full.  The model is "
    "tied to pydra/compose/shell/{task,builder,templating}.py and pydra/utils/general.py by generating task definitions through "
    "shell.define/shell.arg/shell.outarg and comparing the argv handed to subprocess.run (thorough: also the argv a real child "
    "receives) with the model and with an independent Python oracle; the Lean reference Spec.commandArgs is compared with that oracle on every case.",
    "text_extended": "Argstr TEXT: parseArgstr's segments render back to the text minus '...' (C22_parse_roundtrip), templated = \"{\" in text "
    "(C22_parse_wf), literal pieces are brace-free pieces of the text (C22_parse_pieces), brace-free text is one literal (C22_parse_plain); "
    "C22_commandArgs_text_partial restates the main theorem on the text users write.  Extended model (Argv/ModelX.lean, driver op runx): "
    "formatter= as an uninterpreted function (C22_formatter_args: what it is called with; C22_formatter_lands: its stripped/squeezed result is "
    "re-tokenised as the field's contribution), bool on a File-union omitted (C22_omit_fileunion_bool), readonly (C22_readonly), outarg "
    "path_template resolved by PathTemplate.resolve (C22_outarg_template), conversions/format specs as keys answered by Python's format() "
    "(parameter xenv), allowed_values and the mandatory rule (prepare); C22_extended_partial = the main theorem on the lowered definition; "
    "C22_lower_base/_position: lowering is the identity on base fields and never touches positions.",
    "note": "Trusted: Lean kernel; hand-written model (Argv/Model.lean, PositionSort.lean, Shlex.lean); the Python oracle "
    "harness/engines/argv.py:spec_argv; generator reach (no xor/requires, no {{ }} escapes or attribute/item lookups in argstrs).",
    "rule": "case = (definition: up to 6 fields of kinds bool/str/int/float/Path/list/MultiInputObj/outarg with argstr None/''/plain/"
    "templated/cross-referencing/'...', explicit + implicit + negative positions, separators; value assignment over the safe "
    "alphabet); distinct by canonical JSON; non-trivial = at least two set fields or a list field set",
    "assumptions": [
        "extended features: format() of a value for a key with conversion/spec, and formatter bodies, are parameters of the model (the harness computes them with Python); format specs only on scalar int/float fields; requires=/xor= are C31's",
        "values are non-empty words over a shlex-inert alphabet (C23 covers the rest)",
        "no xor=/requires= (C31), no attribute/item lookups or {{ }} escapes in argstrs",
        "a MultiInputObj field repeats its argstr per element also without '...' (as the code does)",
    ],
    "trusted": ["model of _command_args/_format_arg/position_sort/remaining_positions written by hand (lean/PydraModel/Argv)"],
}

_NS = "PydraModel.Argv."
OBLIGATIONS = [
    _NS + n
    for n in (
        "C22_commandArgs_partial",
        "C22_order_partial",
        "C22_define_positions",
        "C22_order",
        "C22_positionSort_shape",
        "C22_positionSort_sorted",
        "C22_positionSort_perm",
        "C22_positionSort_stable",
        "C22_omit_unset",
        "C22_omit_empty_multi",
        "C22_omit_no_argstr",
        "C22_omit_skipped",
        "C22_flag",
        "C22_tp_unwrap",
        "C22_flag_optional",
        "C22_classForm_sorted",
        "C22_witness_D45",
        "C22_list_repeated",
        "C22_list_joined",
        "C22_scalar_plain",
        "C22_parse_roundtrip",
        "C22_parse_wf",
        "C22_parse_pieces",
        "C22_parse_plain",
        "C22_commandArgs_text_partial",
        "C22_extended_partial",
        "C22_lower_position",
        "C22_omit_fileunion_bool",
        "C22_formatter_args",
        "C22_formatter_lands",
        "C22_readonly",
        "C22_outarg_template",
        "C22_lower_base",
        "C22_witness_D26",
        "C22_witness_D41",
        "C22_witness_D41_int",
        "C22_witness_D42",
        "C22_witness_not_full",
    )
]
LEAN_TARGETS = ["PydraModel.Props.C22"]
MODEL_TARGETS = ["PydraModel.Argv.Spec", "PydraModel.DriverUtil"]

RULES = [("D26", A.rule_D26), ("D41", A.rule_D41), ("D42", A.rule_D42)]


def defect_of(case):
    for fid, rule in RULES:
        if rule(case):
            return fid
    return None


def run_cases(ctx, cases, *, real_child=False):
    impls = [A.run_impl(c, ctx.scratch, real_child=real_child, want_cmdline=False) for c in cases]
    ans = ctx.driver("Argv", [A.model_query(c) for c in cases])
    for k, (c, i) in enumerate(zip(cases, impls)):
        a = ans[k] if ans is not None else None
        if i["define"] is not None:
            # definition (or instantiation) rejected: no argv exists; the model must reject the positions too
            impl = {"error": i["define"]}
            model = None if a is None else ({"error": A.MODEL_ERR.get(a["positions"]["err"])} if "err" in a.get("positions", {}) else {"argv": A.model_obs(a)})
            ctx.count("definition-rejected")
            ctx.judge(c, impl, model, True, nontrivial=False, what="shell.define")
            continue
        impl = {"argv": i["argv"]}
        model = None if a is None else {"argv": A.model_obs(a)}
        want = A.spec_argv(c)
        spec_ok = i["argv"] == want
        if a is not None and "spec" in a and a["spec"] != want:
            # the reference semantics the theorems talk about (Lean `Spec.commandArgs`) and the oracle that gates the
            # verdict must be the same function on the generated domain
            ctx.tie_broken.append({"kind": "lean-spec-vs-oracle", "case": c, "lean": a["spec"], "oracle": want})
        if real_child and i["child"] is not None:
            spec_ok = spec_ok and i["child"] == want
            impl["child"] = i["child"]
            if model is not None:
                model["child"] = model["argv"]
        n_set = sum(A.is_set(f, v) for f, v in zip(c["fields"], c["values"]))
        has_list = any(A.is_set(f, v) and f["kind"] in A.ELEM for f, v in zip(c["fields"], c["values"]))
        d = defect_of(c)
        ctx.count(f"set-fields={min(n_set, 5)}{'+' if n_set >= 5 else ''}")
        for f, v in zip(c["fields"], c["values"]):
            ctx.count("kind:" + f["kind"])
            if f["kind"] == "bool" and f["optional"]:
                ctx.count("optional-flag:" + str(v))
            if f["argstr"] is None:
                ctx.count("argstr:none")
            elif "{" in f["argstr"]:
                ctx.count("argstr:templated" + ("..." if f["argstr"].endswith("...") else ""))
            else:
                ctx.count("argstr:plain" + ("..." if f["argstr"].endswith("...") else ""))
            ctx.count("position:" + ("none" if f["position"] is None else "nonneg" if f["position"] >= 0 else "neg"))
            if v is None:
                ctx.count("value:unset")
            elif "..." in json.dumps(v):
                ctx.count("value-with-three-dots")
        if d:
            ctx.count("rule:" + d)
        if isinstance(i["argv"], dict):
            ctx.count("impl-error:" + i["argv"]["error"])
        ctx.judge(c, impl, model, spec_ok, nontrivial=n_set >= 2 or has_list, defect=d, what="argv at subprocess.run vs documented semantics")


def run_cases_x(ctx, cases):
    """Extended features (formatter=, allowed_values, readonly, bool on a File-union, conversions / format specs,
    outargs with a path_template): implementation vs extended model (driver op "runx") vs the documented semantics."""
    impls = [A.run_impl(c, ctx.scratch, want_cmdline=False) for c in cases]
    ans = ctx.driver("Argv", [A.model_query_x(c) for c in cases])
    for k, (c, i) in enumerate(zip(cases, impls)):
        a = ans[k] if ans is not None else None
        model = None if a is None else {"argv": A.model_obs_x(a)}
        if i["define"] is not None and not i["define"].startswith("init:"):
            ctx.count("x:definition-rejected")
            ctx.judge(c, {"argv": {"error": i["define"]}}, model, True, nontrivial=False, what="shell.define (extended)")
            continue
        impl = {"argv": {"error": i["define"]} if i["define"] else i["argv"]}
        exp = A.expected_error_x(c)
        try:
            want = {"error": exp} if exp else A.spec_argv_x(c)
        except Exception as e:  # the oracle itself could not be evaluated: a bug of the harness, never a finding
            raise core.Infra(f"C22 oracle failed on {c}: {e!r}")
        spec_ok = impl["argv"] == want
        d = None
        for fid, rule in (("D26", lambda cc: A.rule_D26(cc, A.is_set_x)), ("D45", lambda cc: A.rule_D45(cc, A.is_set_x)), ("D41", A.rule_D41), ("D42", A.rule_D42)):
            if rule(c):
                d = fid
                break
        for f in c["fields"]:
            for key, lab in (("formatter", "x:formatter"), ("allowed", "x:allowed_values"), ("readonly", "x:readonly"), ("template", "x:path_template")):
                if f.get(key):
                    ctx.count(lab)
            if f["kind"] == "fbool":
                ctx.count("x:file-union-bool")
            if f["argstr"] and any(A._split_key(kk)[1] for kk in A.KEY_RX.findall(f["argstr"])):
                ctx.count("x:format-spec")
        if exp:
            ctx.count("x:expected-error:" + exp)
        ctx.count("x:form:" + c.get("form", "inputs="))
        if any(f["kind"] == "bool" and f["optional"] for f in c["fields"]):
            ctx.count("x:optional-flag")
        if d:
            ctx.count("rule:" + d)
        feat = any(f.get("formatter") or f.get("allowed") or f.get("readonly") or f["kind"] in ("fbool", "out") for f in c["fields"])
        ctx.judge(c, impl, model, spec_ok, nontrivial=feat, defect=d, what="argv at subprocess.run vs documented semantics (extended features)")


def corpus(ctx):
    """Witnesses of the known findings: replayed on the implementation first."""
    known = {f["id"] for f in ctx.known()}
    cases = A.load_corpus("c22.jsonl")
    for c in cases:
        fid = c.pop("finding", None)
        if fid and fid in known:
            i = A.run_impl(c, ctx.scratch, want_cmdline=False)
            fails = i["argv"] != A.spec_argv(c)
            ctx.finding(fid, fails, f"argv {i['argv']} ; documented {A.spec_argv(c)}")
    run_cases(ctx, cases)


def correspondence(ctx):
    core.assert_repo_loaded()
    corpus(ctx)
    n = ctx.pick(250, 8000)
    run_cases(ctx, [A.gen_case(ctx.rng, word=A.safe_word) for _ in range(n)])
    known = {f["id"] for f in ctx.known()}
    xcorpus = A.load_corpus("c22x.jsonl")
    for c in xcorpus:
        fid = c.pop("finding", None)
        if fid and fid in known:
            i = A.run_impl(c, ctx.scratch, want_cmdline=False)
            ctx.finding(fid, i["argv"] != A.spec_argv_x(c), f"argv {i['argv']} ; documented {A.spec_argv_x(c)}")
    nx = ctx.pick(150, 5000)
    run_cases_x(ctx, xcorpus + [A.gen_case_x(ctx.rng) for _ in range(nx // 2)]
                + [A.gen_case(ctx.rng, word=A.safe_word, class_form=1.0, allow_bad_def=0.0) for _ in range(nx - nx // 2)])
    if not ctx.quick:
        run_cases(ctx, [A.gen_case(ctx.rng, word=A.safe_word, outargs=False) for _ in range(400)], real_child=True)


def search(ctx):
    run_cases(ctx, [A.gen_case(ctx.rng, word=A.safe_word) for _ in range(ctx.pick(3000, 15000))])
    run_cases_x(ctx, [A.gen_case_x(ctx.rng) for _ in range(ctx.pick(1500, 8000))])


def is_x_case(c) -> bool:
    return c.get("form") == "class" or any(f.get("formatter") or f.get("allowed") is not None or f.get("readonly") or f.get("template") or f["kind"] in ("fbool", "ro") for f in c["fields"]) or any(
        f["argstr"] and any(A._split_key(k)[1] for k in A.KEY_RX.findall(f["argstr"])) for f in c["fields"]
    )


def replay(ctx, rec):
    (run_cases_x if is_x_case(rec["case"]) else run_cases)(ctx, [rec["case"]])
