"""Extractor for the Template engine (C25): writes lean/PydraModel/Gen/TemplateRegexes.lean from /repo's working tree.

What is regenerated on every run
  * the regex source strings of `parse_command_line_template` (`arg_pattern`, `opt_pattern`, the f-string that builds
    `bool_arg_re`, the quoted-default regex) and the order of the `if/elif` match chain, read from the function's AST;
  * the literals the token surgery tests for (`"out|"`, `"modify|"`, the suffix characters, `=`, `$`, `:`), as the list of
    string constants of the `arg_re` branch, in source order;
  * the file-format table of the type atoms the generator uses (running `fileformats.core.from_mime`);
  * the default-coercion table: `shell.arg(type=T, default=v)` for every builtin type atom and sample literal;
  * `keyword.kwlist` and `shell.Task.RESERVED_FIELD_NAMES`.
Lean lemmas in `Template/Lemmas*.lean` / `Props/C25.lean` compare these with what the hand-written matchers and
tables were written for (closed by `decide`), so a changed regex or table re-opens the proof.
An extractor that cannot find what it looks for raises (-> "tie broken").
"""

from __future__ import annotations

import ast
import keyword

from harness import core

# type atoms of the generator's alphabet (what follows ':' in a template field); shared with harness/props/C25.py
FORMAT_ATOMS = [
    "file",
    "directory",
    "fs-object",
    "generic/file",
    "text/plain",
    "text/csv",
    "image/png",
    "application/gzip",
    "application/json",
    "nosuch",
    "foo/bar",
    "png",
]
BUILTIN_ATOMS = ["int", "float", "str", "bool"]
SAMPLE_LITERALS = ["3", "0", "-1", "1.5", "0.25", "True", "False", "'x'", "None"]


class ExtractError(Exception):
    pass


def lean_str(s: str) -> str:
    out = []
    for ch in s:
        if ch == "\\":
            out.append("\\\\")
        elif ch == '"':
            out.append('\\"')
        elif ch == "\n":
            out.append("\\n")
        elif ch == "\t":
            out.append("\\t")
        elif 32 <= ord(ch) < 127:
            out.append(ch)
        else:
            out.append("\\u{%x}" % ord(ch))
    return '"' + "".join(out) + '"'


def lean_char(ch: str) -> str:
    if ch == "\\":
        return "'\\\\'"
    if ch == "'":
        return "'\\''"
    if 32 <= ord(ch) < 127:
        return f"'{ch}'"
    return "'\\u{%x}'" % ord(ch)


def lean_chars(s: str) -> str:
    return "[" + ", ".join(lean_char(c) for c in s) + "]"


def lean_opt_str(s) -> str:
    return "none" if s is None else f"(some {lean_str(s)})"


def _const_str(node) -> str:
    if isinstance(node, ast.Constant) and isinstance(node.value, str):
        return node.value
    raise ExtractError(f"expected a string constant at line {getattr(node, 'lineno', '?')}")


def read_parser_source() -> dict:
    src = (core.REPO / "pydra" / "compose" / "shell" / "builder.py").read_text()
    tree = ast.parse(src)
    fn = next((n for n in ast.walk(tree) if isinstance(n, ast.FunctionDef) and n.name == "parse_command_line_template"), None)
    if fn is None:
        raise ExtractError("parse_command_line_template not found")
    consts: dict[str, str] = {}
    compiled: dict[str, str] = {}  # regex variable -> pattern text
    for node in ast.walk(fn):
        if isinstance(node, ast.Assign) and len(node.targets) == 1 and isinstance(node.targets[0], ast.Name):
            name = node.targets[0].id
            if name in ("arg_pattern", "opt_pattern"):
                consts[name] = _const_str(node.value)
    for need in ("arg_pattern", "opt_pattern"):
        if need not in consts:
            raise ExtractError(f"{need} not found")
    for node in ast.walk(fn):
        if isinstance(node, ast.Assign) and len(node.targets) == 1 and isinstance(node.targets[0], ast.Name):
            name = node.targets[0].id
            v = node.value
            if isinstance(v, ast.Call) and isinstance(v.func, ast.Attribute) and v.func.attr == "compile" and getattr(v.func.value, "id", "") == "re":
                if len(v.args) != 1 or v.keywords:
                    raise ExtractError(f"re.compile for {name} has flags or extra arguments")
                a = v.args[0]
                if isinstance(a, ast.Name) and a.id in consts:
                    compiled[name] = consts[a.id]
                elif isinstance(a, ast.JoinedStr):
                    parts = []
                    for p in a.values:
                        if isinstance(p, ast.Constant):
                            parts.append(p.value)
                        elif isinstance(p, ast.FormattedValue) and isinstance(p.value, ast.Name) and p.value.id in consts and p.conversion == -1 and p.format_spec is None:
                            parts.append(consts[p.value.id])
                        else:
                            raise ExtractError(f"f-string for {name} not understood")
                    compiled[name] = "".join(parts)
                else:
                    raise ExtractError(f"re.compile argument for {name} not understood")
    for need in ("arg_re", "opt_re", "bool_arg_re"):
        if need not in compiled:
            raise ExtractError(f"{need} not compiled from the patterns")
    # the token loop: `for token in tokens:` whose body is an if/elif chain of `match := X.match(token)`
    loop = next(
        (n for n in ast.walk(fn) if isinstance(n, ast.For) and isinstance(n.target, ast.Name) and n.target.id == "token"),
        None,
    )
    if loop is None or len(loop.body) != 1 or not isinstance(loop.body[0], ast.If):
        raise ExtractError("token loop not found or not a single if/elif chain")
    chain = []
    node = loop.body[0]
    arg_branch = None
    while True:
        t = node.test
        if not (
            isinstance(t, ast.NamedExpr)
            and isinstance(t.value, ast.Call)
            and isinstance(t.value.func, ast.Attribute)
            and isinstance(t.value.func.value, ast.Name)
            and len(t.value.args) == 1
            and isinstance(t.value.args[0], ast.Name)
            and t.value.args[0].id == "token"
        ):
            raise ExtractError("match chain test not understood")
        chain.append(f"{t.value.func.value.id}.{t.value.func.attr}")
        if arg_branch is None:
            arg_branch = node.body
        if len(node.orelse) == 1 and isinstance(node.orelse[0], ast.If):
            node = node.orelse[0]
        else:
            if not (len(node.orelse) == 1 and isinstance(node.orelse[0], ast.Raise)):
                raise ExtractError("match chain does not end in a raise")
            break
    # string constants of the first (arg_re) branch, in source order, without messages of raise statements
    lits = []

    class V(ast.NodeVisitor):
        def visit_Raise(self, n):
            return

        def visit_Constant(self, n):
            if isinstance(n.value, str):
                lits.append(n.value)

    for stmt in arg_branch:
        V().visit(stmt)
    quoted = [s for s in lits if "\\1" in s]
    if len(quoted) != 1:
        raise ExtractError("quoted-default regex not found")
    return {
        "arg_pattern": compiled["arg_re"],
        "opt_pattern": compiled["opt_re"],
        "bool_arg_pattern": compiled["bool_arg_re"],
        "quoted_default_pattern": quoted[0],
        "chain": chain,
        "surgery_literals": [s for s in lits if s != quoted[0]],
    }


def format_rows() -> list[tuple[str, str | None, str | None, bool, str]]:
    """(atom, canonical mime-like or None, ext or None, is a FileSet, error class name or "")"""
    from fileformats.core import from_mime
    from fileformats.generic import FileSet

    rows = []
    for atom in FORMAT_ATOMS:
        key = atom if "/" in atom else f"generic/{atom}"
        try:
            t = from_mime(key)
            rows.append((atom, t.mime_like, getattr(t, "ext", None), issubclass(t, FileSet), ""))
        except Exception as e:
            rows.append((atom, None, None, False, type(e).__name__))
    return rows


def canon_lit(v) -> str:
    if v is None:
        return "None"
    if isinstance(v, bool):
        return "True" if v else "False"
    if isinstance(v, int):
        return str(v)
    if isinstance(v, float):
        return repr(v)
    if isinstance(v, str):
        return "'" + v + "'"
    if isinstance(v, tuple):
        return "(" + ",".join(canon_lit(x) for x in v) + ")"
    return "?" + repr(v)


def coercion_rows() -> list[tuple[str, str, str]]:
    """(type atom, literal source, canonical result or "!<ExceptionClass>") for shell.arg(type=T, default=<literal>)"""
    import builtins

    from pydra.compose import shell

    rows = []
    for atom in BUILTIN_ATOMS:
        tp = getattr(builtins, atom)
        for src in SAMPLE_LITERALS:
            val = eval(src)  # the sample literals above
            try:
                f = shell.arg(name="a", type=tp, default=val)
                rows.append((atom, src, canon_lit(f.default)))
            except Exception as e:
                rows.append((atom, src, "!" + type(e).__name__))
    return rows


def extract_template_regexes(ctx=None):
    core.assert_repo_loaded()
    p = read_parser_source()
    from pydra.compose import shell

    reserved = list(shell.Task.RESERVED_FIELD_NAMES)
    fr = format_rows()
    cr = coercion_rows()
    L = []
    L.append("/- GENERATED by harness/extractors/template_regexes.py from /repo's working tree — do not edit. -/")
    L.append("namespace PydraModel.Gen.TemplateRegexes")
    L.append("")
    for name, key in (("argPattern", "arg_pattern"), ("optPattern", "opt_pattern"), ("boolArgPattern", "bool_arg_pattern"), ("quotedDefaultPattern", "quoted_default_pattern")):
        L.append(f"/-- {key} = {p[key]!r} -/")
        L.append(f"def {name} : List Char := {lean_chars(p[key])}")
        L.append("")
    L.append("/-- the if/elif chain of the token loop -/")
    L.append("def matchChain : List String := [" + ", ".join(lean_str(c) for c in p["chain"]) + "]")
    L.append("")
    L.append("/-- string constants of the `arg_re` branch, in source order (raise messages excluded) -/")
    L.append("def surgeryLiterals : List String := [" + ", ".join(lean_str(c) for c in p["surgery_literals"]) + "]")
    L.append("")
    L.append("/-- (type atom, canonical mime-like, extension, is a FileSet, exception class) from fileformats.core.from_mime -/")
    L.append("def formatRows : List (String × Option String × Option String × Bool × String) := [")
    L.append(",\n".join(f"  ({lean_str(a)}, {lean_opt_str(m)}, {lean_opt_str(e)}, {'true' if fs else 'false'}, {lean_str(x)})" for a, m, e, fs, x in fr))
    L.append("]")
    L.append("")
    L.append("/-- (builtin type atom, literal source, coerced default or !Exception) from shell.arg(type=T, default=v) -/")
    L.append("def coercionRows : List (String × String × String) := [")
    L.append(",\n".join(f"  ({lean_str(a)}, {lean_str(s)}, {lean_str(r)})" for a, s, r in cr))
    L.append("]")
    L.append("")
    L.append("def pyKeywords : List String := [" + ", ".join(lean_str(k) for k in keyword.kwlist) + "]")
    L.append("")
    L.append("def reservedFieldNames : List String := [" + ", ".join(lean_str(k) for k in reserved) + "]")
    L.append("")
    L.append("end PydraModel.Gen.TemplateRegexes")
    out = core.LEAN / "PydraModel" / "Gen" / "TemplateRegexes.lean"
    core.write_if_changed(out, "\n".join(L) + "\n")
    return [str(out)]


if __name__ == "__main__":
    print(extract_template_regexes())
