"""Extract the attribute-level behaviour of every `__getstate__` / `__setstate__` pair that a Job, its
Submitter, Worker and Result go through (C29) from /repo's CURRENT source into
lean/PydraModel/Gen/PickleState.lean.

Each method body is translated statement by statement into per-attribute steps
(enc / dec / encNN / decNN / null / drop / fresh / all); `super().__getstate__()` /
`super().__setstate__(state)` are inlined at the call position.  A statement the translator does not
understand raises ExtractionError (the framework then reports the regenerated tie as broken).
"""

from __future__ import annotations

import ast
import importlib
import inspect
import textwrap

from harness import core

CLASSES = [
    ("pydra.engine.job", "Job"),
    ("pydra.engine.submitter", "Submitter"),
    ("pydra.engine.result", "Result"),
    ("pydra.workers.base", "Worker"),
    ("pydra.workers.cf", "ConcurrentFuturesWorker"),
    ("pydra.workers.debug", "DebugWorker"),
    ("pydra.workers.slurm", "SlurmWorker"),
    ("pydra.workers.sge", "SgeWorker"),
]


class ExtractionError(Exception):
    pass


def _src(fn):
    return ast.parse(textwrap.dedent(inspect.getsource(fn))).body[0]


def _is_state_sub(node, var="state"):
    """state["x"] or state[attr] -> ('lit', 'x') / ('var', 'attr')"""
    if isinstance(node, ast.Subscript) and isinstance(node.value, ast.Name) and node.value.id == var:
        s = node.slice
        if isinstance(s, ast.Constant) and isinstance(s.value, str):
            return ("lit", s.value)
        if isinstance(s, ast.Name):
            return ("var", s.id)
    return None


def _call_name(node):
    if isinstance(node, ast.Call):
        f = node.func
        if isinstance(f, ast.Attribute):
            base = f.value
            if isinstance(base, ast.Name):
                return f"{base.id}.{f.attr}"
            if isinstance(base, ast.Attribute) and isinstance(base.value, ast.Name):
                return f"{base.value.id}.{base.attr}.{f.attr}"
            if isinstance(base, ast.Call) and isinstance(base.func, ast.Name) and base.func.id == "super":
                return f"super().{f.attr}"
        if isinstance(f, ast.Name):
            return f.id
    return None


def _is_docstring(st):
    return isinstance(st, ast.Expr) and isinstance(st.value, ast.Constant) and isinstance(st.value.value, str)


def translate(cls, which: str) -> list[tuple[str, str]]:
    """Steps of cls.__getstate__ / __setstate__ with inherited calls inlined."""
    fn = cls.__dict__.get(which)
    if fn is None:
        for b in cls.__mro__[1:]:
            if which in b.__dict__ and b is not object:
                return translate(b, which)
        # default pickling: all attributes, nothing special
        return [("all", "")]
    node = _src(fn)
    steps: list[tuple[str, str]] = []

    def const_tuple(name_node):
        # self.CONST  -> tuple/list of str defined on the class
        if isinstance(name_node, ast.Attribute) and isinstance(name_node.value, ast.Name) and name_node.value.id == "self":
            val = getattr(cls, name_node.attr, None)
            if isinstance(val, (tuple, list)) and all(isinstance(x, str) for x in val):
                return list(val)
        raise ExtractionError(f"{cls.__name__}.{which}: cannot resolve iteration constant {ast.dump(name_node)}")

    def stmt(st, loopvar=None, loopvals=None):
        def attrs_of(sub):
            kind, name = sub
            if kind == "lit":
                return [name]
            if kind == "var" and name == loopvar:
                return list(loopvals)
            raise ExtractionError(f"{cls.__name__}.{which}: unknown subscript variable {name}")

        if _is_docstring(st) or isinstance(st, ast.Pass):
            return
        if isinstance(st, ast.Return):
            if which == "__getstate__" and isinstance(st.value, ast.Name) and st.value.id == "state":
                return
            raise ExtractionError(f"{cls.__name__}.{which}: unexpected return")
        if isinstance(st, ast.Delete):
            for t in st.targets:
                sub = _is_state_sub(t)
                if not sub:
                    raise ExtractionError(f"{cls.__name__}.{which}: del of {ast.dump(t)}")
                steps.extend(("drop", a) for a in attrs_of(sub))
            return
        if isinstance(st, ast.For):
            if not isinstance(st.target, ast.Name):
                raise ExtractionError(f"{cls.__name__}.{which}: for target")
            # `for key, value in state.items(): setattr(self, key, value)`  handled below (tuple target fails above)
            vals = const_tuple(st.iter)
            for b in st.body:
                stmt(b, st.target.id, vals)
            return
        if isinstance(st, ast.If):
            # `if state[attr] is not None: state[attr] = cp.dumps/loads(state[attr])`
            t = st.test
            if (
                isinstance(t, ast.Compare)
                and len(t.ops) == 1
                and isinstance(t.ops[0], ast.IsNot)
                and isinstance(t.comparators[0], ast.Constant)
                and t.comparators[0].value is None
                and _is_state_sub(t.left)
                and len(st.body) == 1
                and not st.orelse
            ):
                inner: list[tuple[str, str]] = []
                saved = steps[:]
                del steps[:]
                stmt(st.body[0], loopvar, loopvals)
                inner, steps[:] = steps[:], saved
                for k, a in inner:
                    if k not in ("enc", "dec") or a not in attrs_of(_is_state_sub(t.left)):
                        raise ExtractionError(f"{cls.__name__}.{which}: unsupported guarded statement")
                    steps.append((k + "NN", a))
                return
            raise ExtractionError(f"{cls.__name__}.{which}: unsupported if")
        if isinstance(st, ast.Assign) and len(st.targets) == 1:
            tgt, val = st.targets[0], st.value
            sub = _is_state_sub(tgt)
            cn = _call_name(val)
            if isinstance(tgt, ast.Name) and tgt.id == "state":
                if cn in ("self.__dict__.copy", "attrs_values", "attrs.asdict"):
                    steps.append(("all", ""))
                    return
                if cn == "super().__getstate__":
                    steps.extend(translate_base(cls, "__getstate__"))
                    return
                raise ExtractionError(f"{cls.__name__}.{which}: state = {ast.unparse(val)}")
            if sub:
                names = attrs_of(sub)
                if cn in ("cp.dumps", "cp.loads") and len(val.args) == 1 and _is_state_sub(val.args[0]) == sub:
                    steps.extend(("enc" if cn == "cp.dumps" else "dec", a) for a in names)
                    return
                if isinstance(val, ast.Constant) and val.value is None:
                    steps.extend(("null", a) for a in names)
                    return
                if isinstance(val, (ast.Dict, ast.List)) and not getattr(val, "keys", getattr(val, "elts", [])):
                    steps.extend(("fresh", a) for a in names)
                    return
                raise ExtractionError(f"{cls.__name__}.{which}: state[...] = {ast.unparse(val)}")
            # self.x = <fresh value>    /   self.worker.loop = self.loop
            if isinstance(tgt, ast.Attribute) and isinstance(tgt.value, ast.Name) and tgt.value.id == "self":
                if isinstance(val, ast.Constant) and val.value is None:
                    steps.append(("null", tgt.attr))
                else:
                    steps.append(("fresh", tgt.attr))
                return
            if isinstance(tgt, ast.Attribute) and isinstance(tgt.value, ast.Attribute):
                # nested attribute of a restored sub-object (self.worker.loop = self.loop): re-creation inside it
                return
            raise ExtractionError(f"{cls.__name__}.{which}: assignment {ast.unparse(st)}")
        if isinstance(st, ast.Expr):
            cn = _call_name(st.value)
            if cn == "self.__dict__.update":
                steps.append(("all", ""))
                return
            if cn == "super().__setstate__":
                steps.extend(translate_base(cls, "__setstate__"))
                return
            if cn == "setattr":
                a = st.value.args
                if len(a) == 3 and isinstance(a[1], ast.Name) and a[1].id == loopvar:
                    steps.extend(("fresh", n) for n in loopvals)
                    return
            raise ExtractionError(f"{cls.__name__}.{which}: expression {ast.unparse(st)}")
        raise ExtractionError(f"{cls.__name__}.{which}: statement {ast.unparse(st)}")

    for st in node.body:
        # the generic restore loop `for key, value in state.items(): setattr(self, key, value)`
        if (
            isinstance(st, ast.For)
            and isinstance(st.target, ast.Tuple)
            and _call_name(st.iter) == "state.items"
            and len(st.body) == 1
            and isinstance(st.body[0], ast.Expr)
            and _call_name(st.body[0].value) == "setattr"
        ):
            steps.append(("all", ""))
            continue
        stmt(st)
    return steps


def translate_base(cls, which):
    for b in cls.__mro__[1:]:
        if which in b.__dict__ and b is not object:
            return translate(b, which)
    return [("all", "")]


def lean_step(k, a):
    return ".all" if k == "all" else f'.{k} "{a}"'


def extract(ctx=None):
    out = [
        "/- GENERATED by harness/extractors/pickle_state.py from /repo's current source. Do not edit. -/",
        "import PydraModel.Pickle.Model",
        "namespace PydraModel.Gen.PickleState",
        "open PydraModel.Pickle",
        "",
    ]
    names = []
    for modname, clsname in CLASSES:
        cls = getattr(importlib.import_module(modname), clsname)
        g = translate(cls, "__getstate__")
        s = translate(cls, "__setstate__")
        names.append(clsname)
        out.append(f"def {clsname} : ClassState := {{")
        out.append(f'  name := "{clsname}",')
        out.append("  get := [" + ", ".join(lean_step(*x) for x in g) + "],")
        out.append("  set := [" + ", ".join(lean_step(*x) for x in s) + "] }")
        out.append("")
    out.append("def classes : List ClassState := [" + ", ".join(names) + "]")
    out.append("")
    out.append("end PydraModel.Gen.PickleState")
    path = core.LEAN / "PydraModel" / "Gen" / "PickleState.lean"
    core.write_if_changed(path, "\n".join(out) + "\n")
    return [path]


if __name__ == "__main__":
    print(extract()[0].read_text())
