"""Extractor for the Hash engine (C06, C07, C08): writes lean/PydraModel/Gen/HashLits.lean from /repo's working tree.

What is regenerated on every run (from the AST of pydra/utils/hash.py and pydra/compose/base/task.py)
  * every byte literal the serializers emit — the constant pieces of the f-strings (`"str:"`, `":"`, `":("`, `":{"`, …),
    the `b"..."` constants (`b"dict:{"`, `b"="`, `b","`, `b"function:("`, the `type:(`/`origin:(`/`fields:(` family, the
    `_splitter=`/`_xor=` family of `bytes_repr_task`), the recursion placeholder `b"\\x00"` of `hash_single`, the
    `struct.pack` formats, and blake2b's `digest_size` / `person`.  The Lean model (`Hash/Model.lean`) *uses these
    definitions*, so a changed prefix changes the model, and the `decide`-closed lemmas about the tag table (`heads_prefix_free`,
    `len_seps_ok` in Hash/LemmasEnc.lean; `words_ok` in Hash/LemmasRel.lean; `checksum_sep_ok` in Props/C06.lean) are re-checked
    against the source;
  * a digest of the normalised source (`ast.unparse`, docstrings removed) of every modelled function, compared by `decide`
    with the digests the hand-written model was written for (`Hash/Sources.lean`), so that any change of the
    algorithm (e.g. `sorted(obj)` dropped from `bytes_repr_set`, a field skipped in `_compute_hashes`) re-opens
    the proof obligation `Sources.sources_ok` even when no literal changed.
An extractor that does not find the shape it expects raises (-> "tie broken").
"""

from __future__ import annotations

import ast
import hashlib

from harness import core

OUT = core.LEAN / "PydraModel" / "Gen" / "HashLits.lean"

HASH_FUNCS = [
    "hash_function",
    "hash_object",
    "hash_single",
    "bytes_repr",
    "bytes_repr_builtin_repr",
    "bytes_repr_pathlike",
    "bytes_repr_bytes",
    "bytes_repr_str",
    "bytes_repr_int",
    "bytes_repr_float",
    "bytes_repr_complex",
    "bytes_repr_dict",
    "bytes_repr_type",
    "bytes_repr_seq",
    "bytes_repr_set",
    "bytes_repr_code",
    "bytes_repr_partial",
    "bytes_repr_method",
    "bytes_repr_function",
    "bytes_repr_mapping_contents",
    "bytes_repr_sequence_contents",
    "bytes_repr_numpy",
]
TASK_FUNCS = ["_hash", "_checksum", "_hash_changes", "_compute_hashes", "bytes_repr_task"]


class ExtractError(Exception):
    pass


def _strip_doc(fn: ast.FunctionDef):
    for node in ast.walk(fn):
        if isinstance(node, (ast.FunctionDef, ast.AsyncFunctionDef, ast.ClassDef)):
            b = node.body
            if b and isinstance(b[0], ast.Expr) and isinstance(b[0].value, ast.Constant) and isinstance(b[0].value.value, str):
                node.body = b[1:] or [ast.Pass()]
    return fn


def find_funcs(tree: ast.AST) -> dict[str, ast.FunctionDef]:
    out = {}
    for node in ast.walk(tree):
        if isinstance(node, ast.FunctionDef):
            out.setdefault(node.name, node)
    return out


def yields_in_order(fn: ast.AST) -> list[ast.AST]:
    """Yield / YieldFrom nodes of `fn` in source order (nested helper functions excluded)."""
    res = []

    def visit(n, top=False):
        if isinstance(n, (ast.FunctionDef, ast.Lambda)) and not top:
            return
        if isinstance(n, (ast.Yield, ast.YieldFrom)):
            res.append(n)
        for c in ast.iter_child_nodes(n):
            visit(c)

    visit(fn, top=True)
    res.sort(key=lambda n: (n.lineno, n.col_offset))
    return res


def encoded_fstring(v: ast.AST):
    """`f"...".encode()` or `(f"..." f"...").encode()` -> list of ('L', text) / ('E', source) pieces, else None."""
    if isinstance(v, ast.Call) and isinstance(v.func, ast.Attribute) and v.func.attr == "encode" and not v.args:
        s = v.func.value
        if isinstance(s, ast.JoinedStr):
            out = []
            for p in s.values:
                if isinstance(p, ast.Constant):
                    out.append(("L", p.value))
                else:
                    out.append(("E", ast.unparse(p.value)))
            return out
    return None


def const_bytes(v: ast.AST):
    if isinstance(v, ast.Constant) and isinstance(v.value, bytes):
        return v.value
    return None


def lean_bytes(b: bytes) -> str:
    return "[" + ", ".join(str(x) for x in b) + "]"


def lean_str(s: str) -> str:
    out = []
    for ch in s:
        if ch == "\\":
            out.append("\\\\")
        elif ch == '"':
            out.append('\\"')
        elif ch == "\n":
            out.append("\\n")
        elif ch == "\t":
            out.append("\\t")
        elif 32 <= ord(ch) < 127:
            out.append(ch)
        else:
            out.append("\\u{%x}" % ord(ch))
    return '"' + "".join(out) + '"'


def _need(cond, msg):
    if not cond:
        raise ExtractError(msg)


def fparts(fn, idx, shape: str):
    """The idx-th yield of fn must be an encoded f-string of the given shape ('E'/'L' letters); returns the literal texts."""
    ys = yields_in_order(fn)
    _need(idx < len(ys), f"{fn.name}: yield #{idx} missing")
    ps = encoded_fstring(ys[idx].value)
    _need(ps is not None, f"{fn.name}: yield #{idx} is not an encoded f-string")
    got = "".join(k for k, _ in ps)
    _need(got == shape, f"{fn.name}: yield #{idx} has f-string shape {got}, expected {shape}")
    return [t.encode() for k, t in ps if k == "L"]


def bconst(fn, idx):
    ys = yields_in_order(fn)
    _need(idx < len(ys), f"{fn.name}: yield #{idx} missing")
    b = const_bytes(ys[idx].value)
    _need(b is not None, f"{fn.name}: yield #{idx} is not a bytes constant")
    return b


def all_bconsts(fn):
    return [b for y in yields_in_order(fn) if (b := const_bytes(y.value)) is not None]


def struct_formats(fn):
    out = []
    for n in ast.walk(fn):
        if isinstance(n, ast.Call) and ast.unparse(n.func) == "struct.pack":
            _need(n.args and isinstance(n.args[0], ast.Constant), f"{fn.name}: struct.pack format not constant")
            out.append(n.args[0].value)
    return out


def extract(repo=None) -> dict:
    repo = repo or core.REPO
    htree = ast.parse((repo / "pydra/utils/hash.py").read_text())
    ttree = ast.parse((repo / "pydra/compose/base/task.py").read_text())
    hf, tf = find_funcs(htree), find_funcs(ttree)
    for n in HASH_FUNCS:
        _need(n in hf, f"hash.py: function {n} not found")
    for n in TASK_FUNCS:
        _need(n in tf, f"task.py: function {n} not found")
    L: dict[str, bytes] = {}

    # generic object fallback
    (L["objDot"], L["objOpen"]) = fparts(hf["bytes_repr"], 0, "ELEL")
    L["objClose"] = bconst(hf["bytes_repr"], len(yields_in_order(hf["bytes_repr"])) - 1)
    (L["pathDot"], L["pathSep"]) = fparts(hf["bytes_repr_pathlike"], 0, "ELELE")
    (L["bytesTag"], L["bytesLenSep"]) = fparts(hf["bytes_repr_bytes"], 0, "LEL")
    (L["strTag"], L["strLenSep"]) = fparts(hf["bytes_repr_str"], 0, "LEL")
    L["intTag"] = bconst(hf["bytes_repr_int"], 0)
    (L["longTag"], L["longLenSep"]) = fparts(hf["bytes_repr_int"], 1, "LEL")
    L["floatTag"] = bconst(hf["bytes_repr_float"], 0)
    L["complexTag"] = bconst(hf["bytes_repr_complex"], 0)
    L["dictOpen"] = bconst(hf["bytes_repr_dict"], 0)
    L["dictClose"] = bconst(hf["bytes_repr_dict"], 2)
    (L["seqOpen"],) = fparts(hf["bytes_repr_seq"], 0, "EL")
    L["seqClose"] = bconst(hf["bytes_repr_seq"], 2)
    (L["setOpen"],) = fparts(hf["bytes_repr_set"], 0, "EL")
    L["setClose"] = bconst(hf["bytes_repr_set"], 2)
    L["codeOpen"] = bconst(hf["bytes_repr_code"], 0)
    L["codeClose"] = bconst(hf["bytes_repr_code"], 2)
    L["partialOpen"] = bconst(hf["bytes_repr_partial"], 0)
    L["partialClose"] = bconst(hf["bytes_repr_partial"], 2)
    L["methodOpen"] = bconst(hf["bytes_repr_method"], 0)
    L["methodClose"] = bconst(hf["bytes_repr_method"], 2)
    fy = yields_in_order(hf["bytes_repr_function"])
    L["funcOpen"] = bconst(hf["bytes_repr_function"], 0)
    L["funcClose"] = bconst(hf["bytes_repr_function"], len(fy) - 1)
    mc = all_bconsts(hf["bytes_repr_mapping_contents"])
    _need(len(mc) == 2, "bytes_repr_mapping_contents: expected two bytes constants")
    L["mapEq"], L["mapSep"] = mc
    nps = fparts(hf["bytes_repr_numpy"], 0, "EELELEL")
    L["npSep1"], L["npSep2"], L["npSep3"] = nps
    tl = all_bconsts(hf["bytes_repr_type"])
    want = 18
    _need(len(tl) == want, f"bytes_repr_type: {len(tl)} bytes constants, expected {want}")
    names = [
        "typeOpen", "tyOriginOpen", "tyArgsOpen", "tyListOpen", "tyListClose", "tyArgsClose", "tyEllipsis",
        "tyFieldsOpen", "tyFieldsClose", "tyOutputsOpen", "tyOutputsClose", "tyDictOpen", "tyDictClose",
        "tyAnnOpen", "tyAnnClose", "tyMroOpen", "tyMroClose", "typeClose",
    ]  # fmt: skip
    for n, b in zip(names, tl):
        L[n] = b
    # hash_single: placeholder and blake2b parameters
    hs = hf["hash_single"]
    ph = [
        n.value.args[0].value
        for n in ast.walk(hs)
        if isinstance(n, ast.Assign)
        and isinstance(n.value, ast.Call)
        and ast.unparse(n.value.func) == "Hash"
        and n.value.args
        and isinstance(n.value.args[0], ast.Constant)
    ]
    _need(len(ph) == 1 and isinstance(ph[0], bytes), "hash_single: recursion placeholder not found")
    L["placeholder"] = ph[0]
    b2 = [n for n in ast.walk(hs) if isinstance(n, ast.Call) and ast.unparse(n.func) == "blake2b"]
    _need(len(b2) == 1, "hash_single: blake2b call not found")
    kw = {k.arg: k.value for k in b2[0].keywords}
    _need(set(kw) == {"digest_size", "person"} and not b2[0].args, f"hash_single: blake2b parameters changed: {sorted(kw)}")
    digest_size = kw["digest_size"].value
    L["person"] = kw["person"].value
    _need(isinstance(digest_size, int) and isinstance(L["person"], bytes), "blake2b parameters not constants")
    # task.py
    bt = tf["bytes_repr_task"]
    (L["taskOpenA"], L["taskOpenB"]) = fparts(bt, 0, "LEL")
    (L["taskFieldEq"],) = fparts(bt, 1, "EL")
    tb = all_bconsts(bt)
    _need(len(tb) == 6, f"bytes_repr_task: {len(tb)} bytes constants, expected 6")
    for n, b in zip(["taskSep", "taskSplitter", "taskCombiner", "taskNdim", "taskXor", "taskClose"], tb):
        L[n] = b
    ck = tf["_checksum"]
    rets = [n for n in ast.walk(ck) if isinstance(n, ast.Return)]
    _need(len(rets) == 1 and isinstance(rets[0].value, ast.JoinedStr), "_checksum: not a single f-string return")
    ps = [("L", p.value) if isinstance(p, ast.Constant) else ("E", ast.unparse(p.value)) for p in rets[0].value.values]
    _need("".join(k for k, _ in ps) == "ELE", "_checksum: f-string shape changed")
    L["checksumSep"] = ps[1][1].encode()
    outs = [
        n.slice.value
        for n in ast.walk(tf["_compute_hashes"])
        if isinstance(n, ast.Subscript) and isinstance(n.ctx, ast.Store) and isinstance(n.slice, ast.Constant)
    ]
    _need(len(outs) == 1 and isinstance(outs[0], str), "_compute_hashes: the constant key of the Outputs entry not found")
    L["outputsKey"] = outs[0].encode()

    fmts = {n: struct_formats(hf[n]) for n in ("bytes_repr_int", "bytes_repr_float", "bytes_repr_complex")}
    code_attrs = [
        e.attr
        for n in ast.walk(hf["bytes_repr_code"])
        if isinstance(n, ast.Tuple)
        for e in n.elts
        if isinstance(e, ast.Attribute)
    ]
    _need(code_attrs, "bytes_repr_code: attribute tuple not found")
    sources = []
    for n in HASH_FUNCS:
        sources.append(("hash." + n, ast.unparse(_strip_doc(hf[n]))))
    for n in TASK_FUNCS:
        sources.append(("task." + n, ast.unparse(_strip_doc(tf[n]))))
    # the registrations (which classes reach which serializer) are part of the algorithm
    regs = []
    for node in ast.walk(htree):
        if isinstance(node, ast.FunctionDef) and node.name in HASH_FUNCS:
            for d in node.decorator_list:
                regs.append(f"{node.name} <- {ast.unparse(d)}")
        if isinstance(node, ast.Expr) and isinstance(node.value, ast.Call) and "register_serializer" in ast.unparse(node.value.func):
            regs.append("stmt: " + ast.unparse(node.value))
    regs.sort()
    return {
        "lits": L,
        "digest_size": digest_size,
        "formats": fmts,
        "code_attrs": code_attrs,
        "sources": sources,
        "registrations": regs,
    }


def render(d: dict) -> str:
    o = ["/- GENERATED by harness/extractors/hash_lits.py from /repo's working tree — do not edit. -/", "namespace PydraModel.Gen.HashLits", ""]
    for k, b in d["lits"].items():
        o.append(f"/-- {b!r} -/")
        o.append(f"def {k} : List Nat := {lean_bytes(b)}")
    o.append("")
    o.append(f"def digestSize : Nat := {d['digest_size']}")
    o.append("")
    o.append("/-- struct.pack formats used by the int / float / complex serializers -/")
    o.append(
        "def packFormats : List (String × List String) := ["
        + ", ".join(f"({lean_str(k)}, [{', '.join(lean_str(x) for x in v)}])" for k, v in d["formats"].items())
        + "]"
    )
    o.append("")
    o.append("/-- attributes of a code object hashed by bytes_repr_code, in order -/")
    o.append("def codeAttrs : List String := [" + ", ".join(lean_str(x) for x in d["code_attrs"]) + "]")
    o.append("")
    o.append("/-- decorators / statements that register the modelled serializers -/")
    o.append("def registrations : List String := [\n  " + ",\n  ".join(lean_str(x) for x in d["registrations"]) + "\n]")
    o.append("")
    o.append("/-- sha256[:24] of the normalised source (ast.unparse without docstrings) of every modelled function -/")
    o.append("def sources : List (String × String) := [")
    o.append(",\n".join(f"  ({lean_str(n)}, {lean_str(hashlib.sha256(s.encode()).hexdigest()[:24])})" for n, s in d["sources"]))
    o.append("]")
    o.append("")
    o.append("end PydraModel.Gen.HashLits")
    return "\n".join(o) + "\n"


def hash_lits(ctx=None) -> list[str]:
    d = extract()
    core.write_if_changed(OUT, render(d))
    return [str(OUT)]


if __name__ == "__main__":
    print(hash_lits())
