"""Extractor for the JobProto engine: writes lean/PydraModel/Gen/JobSkeleton.lean from /repo's working tree.

The statement skeleton of `Job.run` and `Job.run_async` (pydra/engine/job.py) is read from the Python AST of the
*current* source and emitted as a `Prog` value (lean/PydraModel/JobProto/Prog.lean): which actions happen in which
order, which are inside `try`, `except`, `finally`, `with <lock>`, `if not rerun`.  `Job._populate_filesystem`,
`save` and `record_error` (pydra/engine/result.py) are extracted too and inlined at their call sites (with the
keyword arguments of the call deciding which `if result:` / `if job:` blocks of `save` are active).

Every statement must be recognised: a statement is matched by its normalised source text (`ast.unparse`) against
the tables below (exact strings; compound statements structurally).  Anything else raises `ExtractError`
-> the framework reports the regenerated tie as broken.  `vp("<point>", ...)` hook calls become `Act.vp n`
(no-ops of the semantics; `vpNames[n]` is the point name).

`skeletons()` returns the Python-side trees (used by harness/engines/jobproto.py), `extract_job_skeleton(ctx)` is
the EXTRACTORS entry.
"""

from __future__ import annotations

import ast
import hashlib

from harness import core

GEN = core.LEAN / "PydraModel" / "Gen" / "JobSkeleton.lean"


class ExtractError(Exception):
    pass


# ---- statement tables: normalised source text -> action name (None = no effect on the modelled world) ----------

RUN_SIMPLE = {
    "self.hooks.pre_run(self)": "hookPreRun",
    "self.hooks.pre_run_task(self)": "hookPreRunTask",
    "self.hooks.post_run_task(self, result)": "hookPostRunTask",
    "self.hooks.post_run(self, result)": "hookPostRun",
    "logger.debug(\"'%s' is attempting to acquire lock on %s\", self.name, self.lockfile)": None,
    "result = self.result()": "loadResult",
    "cwd = os.getcwd()": "saveCwd",
    "os.chdir(self.cache_dir)": "chdirJob",
    "os.chdir(cwd)": "restoreCwd",
    "result = Result(outputs=None, runtime=None, errored=False, cache_dir=self.cache_dir, task=self.task)": "initResult",
    "self.audit.start_audit(odir=self.cache_dir)": "auditStart",
    "self.audit.monitor()": "monitor",
    "self.task._run(self, rerun)": "body",
    "await self.task._run_async(self, rerun)": "body",
    "result.outputs = self.task.Outputs._from_job(self)": "collectOutputs",
    "etype, eval, etr = sys.exc_info()": None,
    "traceback = format_exception(etype, eval, etr)": None,
    "result.errored = True": "markErrored",
    "self._errored = True": "markJobErrored",
    "self._errored = False": "clearJobErrored",
    "raise": "reraise",
    "self.audit.finalize_audit(result=result)": "auditFinal",
    "(self.cache_root / f'{self.uid}_info.json').unlink()": "unlinkInfo",
    "self._check_for_hash_changes()": "checkHashes",
    "return result": "ret",
}
RETURN_IF_CACHED = "if result is not None and (not result.errored):\n    return result"
IF_PROV = "if self.audit.audit_check(AuditFlag.PROV):\n    self.audit.audit_task(job=self)"
LOCK_ITEMS = {"SoftFileLock(self.lockfile)": "job", "PydraFileLock(self.lockfile)": "job", "SoftFileLock(lockfile)": "save"}

POPULATE_SIMPLE = {
    "with open(self.cache_root / f'{self.uid}_info.json', 'w') as jsonfile:\n    json.dump({'checksum': self.checksum}, jsonfile)": "writeInfo",
    "if not self.can_resume and self.cache_dir.exists():\n    shutil.rmtree(self.cache_dir)": "clearDir",
    "self.cache_dir.mkdir(parents=False, exist_ok=self.can_resume)": "mkDir",
}

SAVE_SIMPLE = {
    "if job is None and result is None:\n    raise ValueError('Nothing to be saved')": None,
    "if not isinstance(task_path, Path):\n    task_path = Path(task_path)": None,
    "task_path.mkdir(parents=True, exist_ok=True)": "ensureDir",
    "if name_prefix is None:\n    name_prefix = ''": None,
    "lockfile = task_path.parent / (task_path.name + '_save.lock')": None,
    "if result.task and is_workflow(result.task) and (result.outputs is not None):\n    result.outputs = copyfile_workflow(wf_path=task_path, outputs=result.outputs)": "copyOutputs",
    "with (task_path / f'{name_prefix}_result.pklz').open('wb') as fp:\n    cp.dump(result, fp)": "saveResult",
    "with (task_path / f'{name_prefix}_job.pklz').open('wb') as fp:\n    cp.dump(job, fp)": "saveJob",
}
SAVE_ARGS = ["task_path", "result", "job", "return_values", "name_prefix"]

ERROR_SIMPLE = {
    "error_message = str(error)": None,
    "resultfile = error_path / '_result.pklz'": None,
    "if not resultfile.exists():\n    error_message += '\\n\\n    When creating this error file, the results file corresponding\\n    to the job could not be found.'": None,
    "name_checksum = str(error_path.name)": None,
    "timeofcrash = strftime('%Y%m%d-%H%M%S')": None,
    "try:\n    login_name = getpass.getuser()\nexcept KeyError:\n    login_name = f'UID{os.getuid():d}'": None,
    "full_error = {'time of crash': timeofcrash, 'login name': login_name, 'name with checksum': name_checksum, 'error message': error}": None,
    "with (error_path / '_error.pklz').open('wb') as fp:\n    cp.dump(full_error, fp)": "recordError",
    "return error_path / '_error.pklz'": None,
}

# `PydraFileLock` must be a plain polling wrapper of SoftFileLock (same lock contract as `with SoftFileLock`)
PYDRA_FILE_LOCK_MUST_CONTAIN = {
    "__aenter__": ["lock = SoftFileLock(self.lockfile)", "lock.acquire(timeout=0)", "except Timeout:", "self.lock = lock"],
    "__aexit__": ["self.lock.release()"],
}

ACTS = [
    "hookPreRun", "hookPreRunTask", "hookPostRunTask", "hookPostRun", "loadResult", "returnIfCachedOk", "saveCwd",
    "chdirJob", "restoreCwd", "writeInfo", "unlinkInfo", "clearDir", "mkDir", "ensureDir", "saveJob", "saveResult",
    "copyOutputs", "recordError", "initResult", "markErrored", "markJobErrored", "clearJobErrored", "auditStart",
    "auditTask", "monitor", "auditFinal", "body", "collectOutputs", "reraise", "checkHashes", "ret",
]  # fmt: skip


# ---- tree representation: ("act", name) | ("vp", point) | ("seq", [..]) | ("try", catch_all, b, e, f)
#      | ("lock", id, body) | ("ifNotRerun", body) | ("ifAuditProv", body)


def _src(node) -> str:
    return ast.unparse(node)


def _is_doc(st) -> bool:
    return isinstance(st, ast.Expr) and isinstance(st.value, ast.Constant) and isinstance(st.value.value, str)


def _vp_point(st):
    if (
        isinstance(st, ast.Expr)
        and isinstance(st.value, ast.Call)
        and isinstance(st.value.func, ast.Name)
        and st.value.func.id == "vp"
        and st.value.args
        and isinstance(st.value.args[0], ast.Constant)
        and isinstance(st.value.args[0].value, str)
    ):
        return st.value.args[0].value
    return None


class Extractor:
    def __init__(self, repo=None):
        repo = repo or core.REPO
        self.job_src = (repo / "pydra" / "engine" / "job.py").read_text()
        self.res_src = (repo / "pydra" / "engine" / "result.py").read_text()
        job_mod = ast.parse(self.job_src)
        res_mod = ast.parse(self.res_src)
        self.job_cls = self._find(job_mod.body, ast.ClassDef, "Job")
        self.lock_cls = self._find(job_mod.body, ast.ClassDef, "PydraFileLock")
        self.f_run = self._find(self.job_cls.body, ast.FunctionDef, "run")
        self.f_arun = self._find(self.job_cls.body, ast.AsyncFunctionDef, "run_async")
        self.f_pop = self._find(self.job_cls.body, ast.FunctionDef, "_populate_filesystem")
        self.f_save = self._find(res_mod.body, ast.FunctionDef, "save")
        self.f_err = self._find(res_mod.body, ast.FunctionDef, "record_error")
        self._check_imports(job_mod)
        self._check_pydra_file_lock()
        self.audit_chdir = self._audit_chdir(repo)

    @staticmethod
    def _find(body, kind, name):
        for n in body:
            if isinstance(n, kind) and n.name == name:
                return n
        raise ExtractError(f"{kind.__name__} {name!r} not found")

    def _check_imports(self, job_mod):
        # the names the tables rely on must denote what they did when the tables were written
        need = {
            ("filelock", "SoftFileLock"), ("filelock", "Timeout"), ("pydra.engine.result", "save"),
            ("pydra.engine.result", "record_error"), ("pydra.engine.result", "load_result"),
            ("pydra.utils.verif_hooks", "vp"),
        }  # fmt: skip
        have = set()
        for n in job_mod.body:
            if isinstance(n, ast.ImportFrom):
                for a in n.names:
                    if a.asname is None:
                        have.add((n.module, a.name))
        miss = need - have
        if miss:
            raise ExtractError(f"job.py no longer imports {sorted(miss)}")

    def _audit_chdir(self, repo) -> bool:
        """Does `Audit.start_audit` change the working directory (unconditionally)?  The other audit methods the
        skeleton calls must not."""
        mod = ast.parse((repo / "pydra" / "engine" / "audit.py").read_text())
        cls = self._find(mod.body, ast.ClassDef, "Audit")
        start = self._find(cls.body, ast.FunctionDef, "start_audit")
        top = [_src(st) for st in start.body]
        anywhere = "chdir" in _src(start)
        uncond = "os.chdir(self.odir)" in top
        if anywhere and not uncond:
            raise ExtractError("Audit.start_audit: chdir is no longer the unconditional `os.chdir(self.odir)`")
        if uncond and "self.odir = odir" not in top:
            raise ExtractError("Audit.start_audit: `self.odir = odir` not found")
        for fn in ("monitor", "finalize_audit", "audit_task", "audit_message", "audit_check"):
            f = self._find(cls.body, ast.FunctionDef, fn)
            if "chdir" in _src(f):
                raise ExtractError(f"Audit.{fn} changes the working directory")
        return uncond

    def _check_pydra_file_lock(self):
        for fn, needles in PYDRA_FILE_LOCK_MUST_CONTAIN.items():
            f = self._find(self.lock_cls.body, ast.AsyncFunctionDef, fn)
            txt = _src(f)
            for nd in needles:
                if nd not in txt:
                    raise ExtractError(f"PydraFileLock.{fn}: expected {nd!r}")

    # -- generic block walker -------------------------------------------------------------------------------
    def block(self, stmts, table, where, extra=None):
        out = []
        for k, st in enumerate(stmts):
            if k == 0 and _is_doc(st):
                continue
            point = _vp_point(st)
            if point is not None:
                out.append(("vp", point))
                continue
            node = extra(st) if extra else None
            if node is not None:
                out.append(node)
                continue
            txt = _src(st)
            if txt in table:
                if table[txt] is not None:
                    out.append(("act", table[txt]))
                continue
            raise ExtractError(f"{where}: unrecognised statement at line {getattr(st, 'lineno', '?')}: {txt[:160]!r}")
        return ("seq", out)

    # -- Job.run / run_async ---------------------------------------------------------------------------------
    def run_block(self, stmts, where):
        def extra(st):
            txt = _src(st)
            if isinstance(st, (ast.With, ast.AsyncWith)):
                if len(st.items) != 1 or st.items[0].optional_vars is not None:
                    raise ExtractError(f"{where}: unexpected with-items: {txt[:120]!r}")
                item = _src(st.items[0].context_expr)
                if item not in LOCK_ITEMS:
                    raise ExtractError(f"{where}: unknown context manager {item!r}")
                return ("lock", LOCK_ITEMS[item], self.run_block(st.body, where))
            if isinstance(st, ast.Try):
                if st.orelse or len(st.handlers) != 1 or st.handlers[0].name is not None:
                    raise ExtractError(f"{where}: unexpected try shape at line {st.lineno}")
                h = st.handlers[0]
                ht = None if h.type is None else _src(h.type)
                if ht == "Exception":
                    catch_all = False
                elif ht in (None, "BaseException"):
                    catch_all = True
                else:
                    raise ExtractError(f"{where}: unexpected handler type {ht!r}")
                return (
                    "try",
                    catch_all,
                    self.run_block(st.body, where),
                    self.run_block(h.body, where),
                    self.run_block(st.finalbody, where),
                )
            if isinstance(st, ast.If):
                if txt == RETURN_IF_CACHED:
                    return ("act", "returnIfCachedOk")
                if txt == IF_PROV:
                    return ("ifAuditProv", ("seq", [("act", "auditTask")]))
                if _src(st.test) == "not rerun" and not st.orelse:
                    return ("ifNotRerun", self.run_block(st.body, where))
                raise ExtractError(f"{where}: unrecognised if at line {st.lineno}: {txt[:160]!r}")
            if txt == "self._populate_filesystem()":
                return self.populate()
            if isinstance(st, ast.Expr) and isinstance(st.value, ast.Call) and _src(st.value.func) == "save":
                return self.save_call(st.value, where)
            if isinstance(st, ast.Expr) and isinstance(st.value, ast.Call) and _src(st.value.func) == "record_error":
                if _src(st.value) != "record_error(self.cache_dir, error=traceback)":
                    raise ExtractError(f"{where}: unexpected record_error call {txt!r}")
                return self.record_error()
            return None

        return self.block(stmts, RUN_SIMPLE, where, extra)

    def populate(self):
        def extra(st):
            if isinstance(st, ast.Expr) and isinstance(st.value, ast.Call) and _src(st.value.func) == "save":
                return self.save_call(st.value, "_populate_filesystem")
            return None

        if _src(self.f_pop.args) != "self":
            raise ExtractError("_populate_filesystem: signature changed")
        return self.block(self.f_pop.body, POPULATE_SIMPLE, "_populate_filesystem", extra)

    def save_call(self, call: ast.Call, where):
        """Inline `save(self.cache_dir, [result=result,] job=self)`."""
        args = [a.arg for a in self.f_save.args.args]
        if args != SAVE_ARGS or self.f_save.args.vararg or self.f_save.args.kwarg:
            raise ExtractError(f"save: signature changed: {args}")
        if len(call.args) != 1 or _src(call.args[0]) != "self.cache_dir":
            raise ExtractError(f"{where}: save() not called on self.cache_dir: {_src(call)!r}")
        kw = {k.arg: _src(k.value) for k in call.keywords}
        if not set(kw) <= {"result", "job"} or kw.get("job", "self") != "self" or kw.get("result", "result") != "result":
            raise ExtractError(f"{where}: unexpected save() keywords: {_src(call)!r}")
        active = {"result": "result" in kw, "job": "job" in kw, "return_values": False}

        def inner_extra(st):
            if isinstance(st, ast.If) and not st.orelse and _src(st.test) in active:
                if not active[_src(st.test)]:
                    return ("seq", [])
                return self.block(st.body, SAVE_SIMPLE, "save")
            return None

        def extra(st):
            if isinstance(st, ast.With):
                if len(st.items) == 1 and _src(st.items[0].context_expr) == "SoftFileLock(lockfile)" and st.items[0].optional_vars is None:
                    return ("lock", "save", self.block(st.body, SAVE_SIMPLE, "save", inner_extra))
            return None

        return self.block(self.f_save.body, SAVE_SIMPLE, "save", extra)

    def record_error(self):
        if [a.arg for a in self.f_err.args.args] != ["error_path", "error"]:
            raise ExtractError("record_error: signature changed")
        return self.block(self.f_err.body, ERROR_SIMPLE, "record_error")

    def run_tree(self):
        if _src(self.f_run.args) != "self, rerun: bool=False":
            raise ExtractError(f"Job.run: signature changed: {_src(self.f_run.args)!r}")
        return self.run_block(self.f_run.body, "Job.run")

    def arun_tree(self):
        if _src(self.f_arun.args) != "self, rerun: bool=False":
            raise ExtractError(f"Job.run_async: signature changed: {_src(self.f_arun.args)!r}")
        return self.run_block(self.f_arun.body, "Job.run_async")


# ---- tree utilities (shared with harness/engines/jobproto.py) -----------------------------------------------------


def simplify(t):
    """Flatten nested seqs, drop empty ones."""
    k = t[0]
    if k == "seq":
        items = []
        for x in t[1]:
            x = simplify(x)
            if x[0] == "seq":
                items += x[1]
            else:
                items.append(x)
        return ("seq", items)
    if k == "try":
        return ("try", t[1], simplify(t[2]), simplify(t[3]), simplify(t[4]))
    if k == "lock":
        return ("lock", t[1], simplify(t[2]))
    if k in ("ifNotRerun", "ifAuditProv"):
        return (k, simplify(t[1]))
    return t


def flatten(t) -> list:
    """Mirror of `Prog.flatten`: list of ("act", name) | ("vp", point) | ("acq", id) | ("rel", id)."""
    k = t[0]
    if k in ("act", "vp"):
        return [t]
    if k == "seq":
        return [a for x in t[1] for a in flatten(x)]
    if k == "try":
        return flatten(t[2]) + flatten(t[3]) + flatten(t[4])
    if k == "lock":
        return [("acq", t[1])] + flatten(t[2]) + [("rel", t[1])]
    return flatten(t[1])


def vp_names(trees) -> list[str]:
    names = []
    for t in trees:
        for a in flatten(t):
            if a[0] == "vp" and a[1] not in names:
                names.append(a[1])
    return names


def to_lean(t, names, ind=2) -> str:
    pad = " " * ind
    k = t[0]
    if k == "act":
        if t[1] not in ACTS:
            raise ExtractError(f"unknown action {t[1]}")
        return f"{pad}.act .{t[1]}"
    if k == "vp":
        return f"{pad}.act (.vp {names.index(t[1])})  -- {t[1]}"
    if k == "seq":
        if not t[1]:
            return f"{pad}.skip"
        inner = ",\n".join(_strip_comment_for_join(to_lean(x, names, ind + 2)) for x in t[1])
        return f"{pad}.seqs [\n{inner}\n{pad}]"
    if k == "try":
        return (
            f"{pad}.tryExceptFinally {'true' if t[1] else 'false'}\n"
            f"{pad}  (  -- try\n{to_lean(t[2], names, ind + 4)})\n"
            f"{pad}  (  -- except\n{to_lean(t[3], names, ind + 4)})\n"
            f"{pad}  (  -- finally\n{to_lean(t[4], names, ind + 4)})"
        )
    if k == "lock":
        return f"{pad}.withLock .{t[1]} (\n{to_lean(t[2], names, ind + 2)})"
    if k in ("ifNotRerun", "ifAuditProv"):
        return f"{pad}.{k} (\n{to_lean(t[1], names, ind + 2)})"
    raise ExtractError(f"bad tree node {k}")


def _strip_comment_for_join(s: str) -> str:
    # a trailing `-- point` comment on an item would swallow the separating comma: move the comma before it
    lines = s.split("\n")
    last = lines[-1]
    if "  -- " in last:
        code, _, com = last.partition("  -- ")
        lines[-1] = f"{code}  /- {com} -/"
    return "\n".join(lines)


def skeletons(repo=None) -> dict:
    ex = Extractor(repo)
    run = simplify(ex.run_tree())
    arun = simplify(ex.arun_tree())
    names = vp_names([run, arun])
    return {"run": run, "arun": arun, "vp_names": names, "audit_chdir": ex.audit_chdir}


def render(sk) -> str:
    names = sk["vp_names"]
    digest = hashlib.sha256(repr((sk["run"], sk["arun"])).encode()).hexdigest()[:16]

    def lean_str(s):
        return '"' + s.replace("\\", "\\\\").replace('"', '\\"') + '"'

    return (
        "/- GENERATED by harness/extractors/job_skeleton.py from the working tree of the repository\n"
        "   (pydra/engine/job.py: Job.run, Job.run_async, Job._populate_filesystem; pydra/engine/result.py: save,\n"
        "   record_error; pydra/engine/audit.py: Audit.start_audit).  Do not edit. -/\n"
        "import PydraModel.JobProto.Prog\n"
        "namespace PydraModel.Gen.JobSkeleton\n"
        "open PydraModel.JobProto\n\n"
        f"/-- digest of the extracted trees -/\ndef skeletonDigest : String := {lean_str(digest)}\n\n"
        "/-- names of the guarded hook points; `Act.vp n` is `vp(vpNames[n])` -/\n"
        "def vpNames : List String := [\n  " + ",\n  ".join(lean_str(n) for n in names) + "\n]\n\n"
        "/-- `Audit.start_audit` does `os.chdir(self.odir)` unconditionally (pydra/engine/audit.py) -/\n"
        f"def auditStartChdir : Bool := {'true' if sk['audit_chdir'] else 'false'}\n\n"
        "/-- `Job.run` (synchronous; python and shell tasks, workflows under the debug worker) -/\n"
        "def jobRun : Prog :=\n" + to_lean(sk["run"], names) + "\n\n"
        "/-- `Job.run_async` (workflows under asynchronous workers) -/\n"
        "def jobRunAsync : Prog :=\n" + to_lean(sk["arun"], names) + "\n\n"
        "end PydraModel.Gen.JobSkeleton\n"
    )


def extract_job_skeleton(ctx=None):
    sk = skeletons()
    core.write_if_changed(GEN, render(sk))
    return [GEN]


if __name__ == "__main__":
    import sys

    sk = skeletons()
    sys.stdout.write(render(sk))


# ==================================================================================================================
# Shell executor: the failure test on the return code (pydra/environments/native.py, base.py)  ->  Gen/ShellExec.lean

GEN_SHELL = core.LEAN / "PydraModel" / "Gen" / "ShellExec.lean"

RC_NAMES = {"output['return_code']", "return_code", "rc"}

# `Native.execute` must have exactly this shape around the test (normalised source text; the test itself is parsed)
NATIVE_BEFORE = [
    "keys = ['return_code', 'stdout', 'stderr']",
    "cmd_args = job.task._command_args(values=job.inputs)",
    "values = base.execute(cmd_args)",
    "output = dict(zip(keys, values))",
]
NATIVE_IF_BODY = [
    'msg = f"Error running \'{job.name}\' job with {cmd_args}:"',
    "if output['stderr']:\n    msg += '\\n\\nstderr:\\n' + output['stderr']",
    "if output['stdout']:\n    msg += '\\n\\nstdout:\\n' + output['stdout']",
    "raise RuntimeError(msg)",
]
NATIVE_AFTER = ["return output"]
BASE_EXECUTE = ["rc, stdout, stderr = read_and_display(*cmd, strip=strip, **kwargs)", "return (rc, stdout, stderr)"]


def _int_const(node) -> int:
    if isinstance(node, ast.Constant) and type(node.value) is int:
        return node.value
    if isinstance(node, ast.UnaryOp) and isinstance(node.op, ast.USub) and isinstance(node.operand, ast.Constant) and type(node.operand.value) is int:
        return -node.operand.value
    raise ExtractError(f"return-code test: not an integer literal: {_src(node)!r}")


def rc_test(node):
    """Python expression over the return code -> ("truthy",) | (op, k) | ("not", t) | ("or"/"and", a, b)"""
    if _src(node) in RC_NAMES:
        return ("truthy",)
    if isinstance(node, ast.UnaryOp) and isinstance(node.op, ast.Not):
        return ("not", rc_test(node.operand))
    if isinstance(node, ast.BoolOp):
        parts = [rc_test(v) for v in node.values]
        op = "or" if isinstance(node.op, ast.Or) else "and"
        t = parts[0]
        for p in parts[1:]:
            t = (op, t, p)
        return t
    if isinstance(node, ast.Compare) and len(node.ops) == 1:
        ops = {ast.NotEq: "ne", ast.Eq: "eq", ast.Gt: "gt", ast.GtE: "ge", ast.Lt: "lt", ast.LtE: "le"}
        flip = {"ne": "ne", "eq": "eq", "gt": "lt", "ge": "le", "lt": "gt", "le": "ge"}
        op = ops.get(type(node.ops[0]))
        if op is None:
            raise ExtractError(f"return-code test: unsupported comparison {_src(node)!r}")
        left, right = node.left, node.comparators[0]
        if _src(left) in RC_NAMES:
            return (op, _int_const(right))
        if _src(right) in RC_NAMES:
            return (flip[op], _int_const(left))
    raise ExtractError(f"return-code test: unrecognised expression {_src(node)!r}")


def rc_test_lean(t) -> str:
    if t[0] == "truthy":
        return ".truthy"
    if t[0] == "not":
        return f"(.not_ {rc_test_lean(t[1])})"
    if t[0] in ("or", "and"):
        return f"(.{t[0]}_ {rc_test_lean(t[1])} {rc_test_lean(t[2])})"
    k = t[1]
    return f"(.{t[0]} ({k}))" if k < 0 else f"(.{t[0]} {k})"


def rc_test_eval(t, rc: int) -> bool:
    """Python mirror of `RcTest.eval` (used by the harness to predict, cross-checked against the driver)."""
    if t[0] == "truthy":
        return rc != 0
    if t[0] == "not":
        return not rc_test_eval(t[1], rc)
    if t[0] == "or":
        return rc_test_eval(t[1], rc) or rc_test_eval(t[2], rc)
    if t[0] == "and":
        return rc_test_eval(t[1], rc) and rc_test_eval(t[2], rc)
    k = t[1]
    return {"ne": rc != k, "eq": rc == k, "gt": rc > k, "ge": rc >= k, "lt": rc < k, "le": rc <= k}[t[0]]


def shell_exec(repo=None) -> dict:
    """The failure test of `Native.execute`, after checking the statements around it: the return code is
    `subprocess.run(...).returncode` handed through unchanged, and a true test ends in `raise RuntimeError`."""
    repo = repo or core.REPO
    nat = ast.parse((repo / "pydra" / "environments" / "native.py").read_text())
    cls = Extractor._find(nat.body, ast.ClassDef, "Native")
    fn = Extractor._find(cls.body, ast.FunctionDef, "execute")
    body = [st for k, st in enumerate(fn.body) if not (k == 0 and _is_doc(st))]
    ifs = [k for k, st in enumerate(body) if isinstance(st, ast.If)]
    if len(ifs) != 1:
        raise ExtractError("Native.execute: expected exactly one top-level `if`")
    k = ifs[0]
    if [_src(s) for s in body[:k]] != NATIVE_BEFORE:
        raise ExtractError(f"Native.execute: statements before the return-code test changed: {[_src(s) for s in body[:k]]}")
    if [_src(s) for s in body[k + 1 :]] != NATIVE_AFTER:
        raise ExtractError("Native.execute: statements after the return-code test changed")
    st = body[k]
    if st.orelse or [_src(s) for s in st.body] != NATIVE_IF_BODY:
        raise ExtractError(f"Native.execute: the failure branch changed: {[_src(s) for s in st.body]}")
    test = rc_test(st.test)
    # the return code itself
    base = ast.parse((repo / "pydra" / "environments" / "base.py").read_text())
    ex = Extractor._find(base.body, ast.FunctionDef, "execute")
    if [_src(s) for k2, s in enumerate(ex.body) if not (k2 == 0 and _is_doc(s))] != BASE_EXECUTE:
        raise ExtractError("environments.base.execute: body changed")
    rd = Extractor._find(base.body, ast.FunctionDef, "read_and_display")
    txt = _src(rd)
    if "sp.run(cmd, stdout=sp.PIPE, stderr=sp.PIPE, **kwargs)" not in txt:
        raise ExtractError("read_and_display: subprocess call changed")
    rets = [n for n in ast.walk(rd) if isinstance(n, ast.Return)]
    if len(rets) != 2 or any(not (isinstance(r.value, ast.Tuple) and _src(r.value.elts[0]) == "process.returncode") for r in rets):
        raise ExtractError("read_and_display: the return code is no longer `process.returncode`")
    return {"native_test": test, "native_test_src": _src(st.test)}


def render_shell(sx: dict) -> str:
    def lean_str(s):
        return '"' + s.replace("\\", "\\\\").replace('"', '\\"') + '"'

    return (
        "/- GENERATED by harness/extractors/job_skeleton.py from the working tree of the repository\n"
        "   (pydra/environments/native.py: Native.execute; pydra/environments/base.py: execute, read_and_display).\n"
        "   Do not edit. -/\n"
        "import PydraModel.JobProto.RcTest\n"
        "namespace PydraModel.Gen.ShellExec\n"
        "open PydraModel.JobProto\n\n"
        f"/-- source text of the test: `if {sx['native_test_src']}:` … `raise RuntimeError(msg)` -/\n"
        f"def nativeRcTestSrc : String := {lean_str(sx['native_test_src'])}\n\n"
        "/-- the failure test `Native.execute` applies to `subprocess.run(...).returncode` -/\n"
        f"def nativeRcTest : RcTest := {rc_test_lean(sx['native_test'])}\n\n"
        "end PydraModel.Gen.ShellExec\n"
    )


def extract_shell_exec(ctx=None):
    core.write_if_changed(GEN_SHELL, render_shell(shell_exec()))
    return [GEN_SHELL]
