"""Extractor for the Envs and Batch engines (C27, C28, C39): writes lean/PydraModel/Gen/EnvRegexes.lean from /repo.

Regenerated on every run (read from the AST of the working tree, never imported constants of a stale copy):

  pydra/environments/lmod.py   `Lmod.execute`: the regex given to `re.findall`, the expression the child environment
                               starts from (`env = dict(os.environ)`), the argument list of `run_lmod_cmd`
  pydra/environments/base.py   `Container.bind`-independent facts of `get_bindings`: the mode expression and the
                               "rw is kept" guard (as source text), the test that selects the single-path branch
  pydra/environments/docker.py / singularity.py   the literal argv skeleton (program, sub-command, mount flag, workdir flag)
  pydra/workers/slurm.py       the look-behind regexes for -J/-o/-e, the job-id regex, `_sacct_re`, the state lists,
                               the `--no-requeue` literal, the squeue/sacct/scontrol command tuples
  pydra/workers/sge.py         whether `threads_used` is a dict attribute that `run` augments with `+=` before the first qsub
  CPython                      the code points matched by `\\s` in a str pattern

`Props/C39.lean`, `Props/C27.lean`, `Props/C28.lean` pin each of these to the value the hand-written matchers and
models were written for (`by decide`): a changed regex, state list or skeleton re-opens the proof.
An extractor that cannot find what it looks for raises (-> "tie broken").
"""

from __future__ import annotations

import ast
import re
import sys

from harness import core


class ExtractError(Exception):
    pass


def lean_str(s: str) -> str:
    out = []
    for ch in s:
        if ch == "\\":
            out.append("\\\\")
        elif ch == '"':
            out.append('\\"')
        elif ch == "\n":
            out.append("\\n")
        elif ch == "\t":
            out.append("\\t")
        elif 32 <= ord(ch) < 127:
            out.append(ch)
        else:
            out.append("\\u{%x}" % ord(ch))
    return '"' + "".join(out) + '"'


def lean_strs(xs) -> str:
    return "[" + ", ".join(lean_str(x) for x in xs) + "]"


def _parse(rel: str) -> ast.Module:
    return ast.parse((core.REPO / rel).read_text())


def _cls(tree: ast.Module, name: str) -> ast.ClassDef:
    for n in tree.body:
        if isinstance(n, ast.ClassDef) and n.name == name:
            return n
    raise ExtractError(f"class {name} not found")


def _fn(cls: ast.ClassDef, name: str):
    for n in cls.body:
        if isinstance(n, (ast.FunctionDef, ast.AsyncFunctionDef)) and n.name == name:
            return n
    raise ExtractError(f"{cls.name}.{name} not found")


def _str_const(node, what: str) -> str:
    if isinstance(node, ast.Constant) and isinstance(node.value, str):
        return node.value
    raise ExtractError(f"{what}: expected a string constant at line {getattr(node, 'lineno', '?')}")


def _re_calls(fn, attr: str):
    """calls `re.<attr>(pattern, …)` inside fn, in source order"""
    out = []
    for n in ast.walk(fn):
        if (
            isinstance(n, ast.Call)
            and isinstance(n.func, ast.Attribute)
            and n.func.attr == attr
            and isinstance(n.func.value, ast.Name)
            and n.func.value.id == "re"
        ):
            out.append(n)
    out.sort(key=lambda c: (c.lineno, c.col_offset))
    return out


def _str_list(node, what: str) -> list[str]:
    if isinstance(node, (ast.List, ast.Tuple)):
        return [_str_const(e, what) for e in node.elts]
    raise ExtractError(f"{what}: expected a list of strings at line {getattr(node, 'lineno', '?')}")


# --------------------------------------------------------------------------------------
def read_lmod() -> dict:
    tree = _parse("pydra/environments/lmod.py")
    ex = _fn(_cls(tree, "Lmod"), "execute")
    calls = _re_calls(ex, "findall")
    if len(calls) != 1:
        raise ExtractError(f"Lmod.execute: expected one re.findall, found {len(calls)}")
    c = calls[0]
    if len(c.args) != 2 or c.keywords:
        raise ExtractError("Lmod.execute: re.findall has flags or an unexpected signature")
    pattern = _str_const(c.args[0], "Lmod.execute regex")
    # the statement `env = <expr>` that precedes the loop, and the loop body `env[key] = value`
    init = None
    body_ok = False
    for st in ex.body:
        if isinstance(st, ast.Assign) and len(st.targets) == 1 and isinstance(st.targets[0], ast.Name) and st.targets[0].id == "env":
            init = ast.unparse(st.value)
        if isinstance(st, ast.For) and any(c is x for x in ast.walk(st.iter)):
            if len(st.body) == 1 and ast.unparse(st.body[0]) == "env[key] = value" and ast.unparse(st.target) == "(key, value)":
                body_ok = True
    if init is None:
        raise ExtractError("Lmod.execute: `env = …` not found")
    if not body_ok:
        raise ExtractError("Lmod.execute: loop `for key, value in re.findall(…): env[key] = value` not found")
    # the call of base.execute: which argv and env it passes
    exe = [
        n
        for n in ast.walk(ex)
        if isinstance(n, ast.Call) and ast.unparse(n.func) == "base.execute"
    ]
    if len(exe) != 1:
        raise ExtractError("Lmod.execute: expected one base.execute call")
    exe_call = ast.unparse(exe[0])
    cmd_args = [ast.unparse(st.value) for st in ex.body if isinstance(st, ast.Assign) and ast.unparse(st.targets[0]) == "cmd_args"]
    if len(cmd_args) != 1:
        raise ExtractError("Lmod.execute: `cmd_args = …` not found")
    nat = _fn(_cls(_parse("pydra/environments/native.py"), "Native"), "execute")
    nat_cmd = [ast.unparse(st.value) for st in nat.body if isinstance(st, ast.Assign) and ast.unparse(st.targets[0]) == "cmd_args"]
    if len(nat_cmd) != 1:
        raise ExtractError("Native.execute: `cmd_args = …` not found")
    # object state: the attrs fields of Lmod, whether execute writes to `self`, and where the load command is issued
    cls = _cls(tree, "Lmod")
    fields = [st.target.id for st in cls.body if isinstance(st, ast.AnnAssign) and isinstance(st.target, ast.Name)]
    self_writes = sorted(
        {
            ast.unparse(t)
            for n in ast.walk(ex)
            if isinstance(n, (ast.Assign, ast.AugAssign, ast.AnnAssign))
            for t in (n.targets if isinstance(n, ast.Assign) else [n.target])
            if ast.unparse(t).startswith("self.")
        }
    )
    body = [st for k, st in enumerate(ex.body) if not (k == 0 and isinstance(st, ast.Expr) and isinstance(st.value, ast.Constant))]
    first = ast.unparse(body[0]) if body else ""
    n_load = sum(1 for n in ast.walk(ex) if isinstance(n, ast.Call) and ast.unparse(n.func) == "self.run_lmod_cmd")
    return {"regex": pattern, "env_init": init, "execute_call": exe_call, "cmd_args": cmd_args[0], "native_cmd_args": nat_cmd[0],
            "fields": fields, "self_writes": self_writes, "first_stmt": first, "n_load": n_load}


def read_container() -> dict:
    base = _parse("pydra/environments/base.py")
    gb = _fn(_cls(base, "Container"), "get_bindings")
    src = ast.unparse(gb)
    mp = next((n for n in ast.walk(gb) if isinstance(n, ast.FunctionDef) and n.name == "map_path"), None)
    if mp is None:
        raise ExtractError("get_bindings.map_path not found")
    # statements of map_path, as normalised source text
    mp_stmts = [ast.unparse(s) for s in mp.body]
    # the test selecting the single-path branch
    single = None
    for n in ast.walk(gb):
        if isinstance(n, ast.If) and "map_path(value)" in ast.unparse(n.body[0]):
            single = ast.unparse(n.test)
            seq = ast.unparse(n.orelse[0].test) if n.orelse and isinstance(n.orelse[0], ast.If) else None
            break
    if single is None:
        raise ExtractError("get_bindings: branch calling map_path(value) not found")
    cache_stmt = [ast.unparse(s) for s in gb.body if isinstance(s, ast.Assign) and ast.unparse(s.targets[0]) == "bindings[job.cache_root]"]
    if len(cache_stmt) != 1:
        raise ExtractError("get_bindings: `bindings[job.cache_root] = …` not found")
    copy_stmt = [ast.unparse(s) for s in ast.walk(gb) if isinstance(s, ast.Assign) and ast.unparse(s.targets[0]) == "copy_file"]
    if len(copy_stmt) != 1:
        raise ExtractError("get_bindings: `copy_file = …` not found")
    out = {"map_path": mp_stmts, "single_test": single, "seq_test": seq or "", "cache_stmt": cache_stmt[0], "copy_stmt": copy_stmt[0]}
    for mod, clsname in (("docker", "Docker"), ("singularity", "Singularity")):
        ex = _fn(_cls(_parse(f"pydra/environments/{mod}.py"), clsname), "execute")
        lits = []
        for st in ex.body:
            # argv skeleton: the list literal, the `.extend([...])` calls inside/outside the loop
            for n in ast.walk(st):
                if isinstance(n, ast.List):
                    lits.append(ast.unparse(n))
        out[mod] = lits
        call = [n for n in ast.walk(ex) if isinstance(n, ast.Call) and ast.unparse(n.func) == "base.execute"]
        if len(call) != 1:
            raise ExtractError(f"{clsname}.execute: expected one base.execute call")
        out[mod + "_call"] = ast.unparse(call[0].args[0])
    return out


def read_slurm() -> dict:
    tree = _parse("pydra/workers/slurm.py")
    cls = _cls(tree, "SlurmWorker")
    run = _fn(cls, "run")
    searches = _re_calls(run, "search")
    pats = []
    for c in searches:
        if len(c.args) != 2 or c.keywords:
            raise ExtractError("SlurmWorker.run: re.search with flags")
        pats.append((_str_const(c.args[0], "SlurmWorker.run regex"), ast.unparse(c.args[1])))
    if [s for _, s in pats] != ["self.sbatch_args", "self.sbatch_args", "self.sbatch_args", "stdout"]:
        raise ExtractError(f"SlurmWorker.run: unexpected re.search subjects {[s for _, s in pats]}")
    sacct = None
    for st in cls.body:
        if isinstance(st, ast.Assign) and ast.unparse(st.targets[0]) == "_sacct_re":
            v = st.value
            if not (isinstance(v, ast.Call) and ast.unparse(v.func) == "re.compile" and len(v.args) == 1 and not v.keywords):
                raise ExtractError("_sacct_re is not re.compile(<one string>)")
            sacct = _str_const(v.args[0], "_sacct_re")
    if sacct is None:
        raise ExtractError("_sacct_re not found")
    # state lists
    requeue_run = None
    for n in ast.walk(run):
        if isinstance(n, ast.Compare) and ast.unparse(n.left) == "done" and isinstance(n.ops[0], ast.In):
            requeue_run = _str_list(n.comparators[0], "requeue states in run")
    norequeue = None
    for n in ast.walk(run):
        if isinstance(n, ast.Compare) and isinstance(n.ops[0], ast.NotIn) and ast.unparse(n.comparators[0]) == "self.sbatch_args":
            norequeue = _str_const(n.left, "--no-requeue literal")
    vec = _fn(cls, "_verify_exit_code")
    lists = []
    for n in ast.walk(vec):
        if isinstance(n, ast.Compare) and isinstance(n.ops[0], ast.In) and ast.unparse(n.left) == "m.group('status')":
            lists.append((n.lineno, _str_list(n.comparators[0], "state list in _verify_exit_code")))
    lists.sort()
    if len(lists) != 2 or requeue_run is None or norequeue is None:
        raise ExtractError("SlurmWorker: state lists / --no-requeue test not found")
    ok_test = None
    for n in ast.walk(vec):
        if isinstance(n, ast.If) and "exit_code" in ast.unparse(n.test):
            ok_test = ast.unparse(n.test)
            break
    if ok_test is None:
        raise ExtractError("_verify_exit_code: success test not found")
    cmds = {}
    for fn in (run, _fn(cls, "_poll_job"), vec):
        for n in ast.walk(fn):
            if isinstance(n, ast.Assign) and isinstance(n.value, ast.Tuple) and ast.unparse(n.targets[0]) in ("cmd", "cmd_re"):
                elts = [e.value if isinstance(e, ast.Constant) else "<" + ast.unparse(e) + ">" for e in n.value.elts]
                cmds[elts[0]] = elts
    for need in ("squeue", "sacct", "scontrol"):
        if need not in cmds:
            raise ExtractError(f"SlurmWorker: command tuple for {need} not found")
    poll = _fn(cls, "_poll_job")
    poll_test = None
    for n in ast.walk(poll):
        if isinstance(n, ast.If):
            poll_test = ast.unparse(n.test)
            break
    # error-line handling
    err_line = [ast.unparse(s.value) for s in ast.walk(vec) if isinstance(s, ast.Assign) and ast.unparse(s.targets[0]) == "error_line"]
    msgs = [ast.unparse(s.value) for s in ast.walk(vec) if isinstance(s, ast.Assign) and ast.unparse(s.targets[0]) == "error_message"]
    return {
        "jobname": pats[0][0],
        "output": pats[1][0],
        "error": pats[2][0],
        "jobid": pats[3][0],
        "sacct": sacct,
        "requeue_run": requeue_run,
        "requeue_verify": lists[0][1],
        "polling_verify": lists[1][1],
        "norequeue": norequeue,
        "ok_test": ok_test,
        "squeue": cmds["squeue"],
        "sacct_cmd": cmds["sacct"],
        "scontrol": cmds["scontrol"],
        "poll_test": poll_test or "",
        "error_line": err_line,
        "error_messages": msgs,
    }


def read_sge() -> dict:
    tree = _parse("pydra/workers/sge.py")
    cls = _cls(tree, "SgeWorker")
    factory = None
    for st in cls.body:
        if isinstance(st, ast.AnnAssign) and ast.unparse(st.target) == "threads_used":
            v = st.value
            if isinstance(v, ast.Call) and ast.unparse(v.func) == "attrs.field":
                for kw in v.keywords:
                    if kw.arg == "factory":
                        factory = ast.unparse(kw.value)
                    if kw.arg == "default":
                        factory = "default=" + ast.unparse(kw.value)
            elif v is not None:
                factory = "default=" + ast.unparse(v)
    if factory is None:
        raise ExtractError("SgeWorker.threads_used: attribute / factory not found")
    run = _fn(cls, "run")
    aug = [n for n in ast.walk(run) if isinstance(n, ast.AugAssign) and ast.unparse(n.target) == "self.threads_used" and isinstance(n.op, ast.Add)]
    sub = [n for n in ast.walk(run) if isinstance(n, ast.Call) and ast.unparse(n.func) == "self.submit_array_job"]
    if not sub:
        raise ExtractError("SgeWorker.run: submit_array_job call not found")
    aug_before = bool(aug) and min(a.lineno for a in aug) < min(s.lineno for s in sub)
    aug_src = ast.unparse(min(aug, key=lambda a: a.lineno)) if aug else ""
    # load_job(ind=…) keyword that job.load_job does not accept
    job = _parse("pydra/engine/job.py")
    lj = next((n for n in job.body if isinstance(n, ast.FunctionDef) and n.name == "load_job"), None)
    if lj is None:
        raise ExtractError("job.load_job not found")
    params = [a.arg for a in lj.args.args + lj.args.kwonlyargs]
    kw_used = sorted({kw.arg for n in ast.walk(cls) if isinstance(n, ast.Call) and ast.unparse(n.func) == "load_job" for kw in n.keywords if kw.arg})
    return {"factory": factory, "aug_before_submit": aug_before, "aug_src": aug_src, "load_job_params": params, "load_job_kwargs_used": kw_used, "has_var_kw": lj.args.kwarg is not None}


def read_rc_tests() -> dict:
    """the failure test each environment applies to the command's return code: the top-level `if` of `execute` whose
    test reads the return code; every branch of its body must end in `raise RuntimeError(...)`"""
    from harness.extractors.job_skeleton import rc_test, rc_test_lean

    out = {}
    for mod, clsname in (("docker", "Docker"), ("singularity", "Singularity"), ("lmod", "Lmod")):
        ex = _fn(_cls(_parse(f"pydra/environments/{mod}.py"), clsname), "execute")
        ifs = [st for st in ex.body if isinstance(st, ast.If) and "return_code" in ast.unparse(st.test)]
        if len(ifs) != 1:
            raise ExtractError(f"{clsname}.execute: expected exactly one top-level return-code test, found {len(ifs)}")
        st = ifs[0]
        if st.orelse:
            raise ExtractError(f"{clsname}.execute: the return-code test has an else branch")

        def always_raises(body) -> bool:
            last = body[-1]
            if isinstance(last, ast.Raise):
                return isinstance(last.exc, ast.Call) and ast.unparse(last.exc.func) == "RuntimeError"
            if isinstance(last, ast.If) and last.orelse:
                return always_raises(last.body) and always_raises(last.orelse)
            return False

        if not always_raises(st.body):
            raise ExtractError(f"{clsname}.execute: a true return-code test does not always end in raise RuntimeError")
        # the tested value must be what base.execute returned: `values = base.execute(...)` then zip / unpacking
        src = ast.unparse(ex)
        if mod == "lmod":
            if "values = base.execute(cmd_args, env=env)" not in src or "return_code, stdout, stderr = values" not in src:
                raise ExtractError("Lmod.execute: the return code is no longer taken from base.execute unchanged")
        else:
            if "output = dict(zip(keys, values))" not in src or "keys = ['return_code', 'stdout', 'stderr']" not in src:
                raise ExtractError(f"{clsname}.execute: the return code is no longer taken from base.execute unchanged")
        t = rc_test(st.test)
        out[mod] = {"src": ast.unparse(st.test), "tree": t, "lean": rc_test_lean(t)}
    return out


def read_load_and_run() -> dict:
    """`load_and_run` (pydra/engine/job.py): keyword names of the `Result(...)` calls in its two error paths, the field
    names of `Result` (pydra/engine/result.py) and which of them have no default, the order of the statements in the
    two handlers"""
    job = _parse("pydra/engine/job.py")
    fn = next((n for n in job.body if isinstance(n, ast.FunctionDef) and n.name == "load_and_run"), None)
    if fn is None:
        raise ExtractError("job.load_and_run not found")
    calls = [n for n in ast.walk(fn) if isinstance(n, ast.Call) and ast.unparse(n.func) == "Result"]
    calls.sort(key=lambda c: c.lineno)
    if len(calls) != 2:
        raise ExtractError(f"load_and_run: expected two Result(...) calls, found {len(calls)}")
    kwargs = []
    for c in calls:
        if c.args or any(k.arg is None for k in c.keywords):
            raise ExtractError("load_and_run: Result(...) called with positional or ** arguments")
        kwargs.append([k.arg for k in c.keywords])
    res = _cls(_parse("pydra/engine/result.py"), "Result")
    fields, mandatory = [], []
    for st in res.body:
        if isinstance(st, ast.AnnAssign) and isinstance(st.target, ast.Name):
            fields.append(st.target.id)
            if st.value is None:
                mandatory.append(st.target.id)
    if not fields:
        raise ExtractError("Result: no fields found")
    tries = [st for st in fn.body if isinstance(st, ast.Try)]
    if len(tries) != 2:
        raise ExtractError("load_and_run: expected two try statements")
    handlers = []
    for t in tries:
        if len(t.handlers) != 1 or ast.unparse(t.handlers[0].type) != "Exception":
            raise ExtractError("load_and_run: handler shape changed")
        h = t.handlers[0]
        handlers.append([ast.unparse(s).split("\n")[0] for s in h.body])
    # does load_and_run turn its argument into a Path before using `.parent`?  do the batch scripts pass a quoted string?
    body = [st for k, st in enumerate(fn.body) if not (k == 0 and isinstance(st, ast.Expr) and isinstance(st.value, ast.Constant))]
    converts = any(
        isinstance(st, ast.Assign) and ast.unparse(st.targets[0]) == "job_pkl" and ast.unparse(st.value).startswith("Path(")
        for st in body
        if st.lineno < tries[0].lineno
    )
    uses_parent = "job_pkl.parent" in ast.unparse(tries[0])
    prep = _fn(_cls(_parse("pydra/workers/slurm.py"), "SlurmWorker"), "_prepare_runscripts")
    consts = "".join(n.value for n in ast.walk(prep) if isinstance(n, ast.Constant) and isinstance(n.value, str))
    if "load_and_run(" not in consts:
        raise ExtractError("SlurmWorker._prepare_runscripts: the load_and_run call of the batch script was not found")
    quoted = 'load_and_run("' in consts or "load_and_run('" in consts
    return {"kwargs": kwargs, "fields": fields, "mandatory": mandatory, "handlers": handlers, "converts": converts, "uses_parent": uses_parent, "quoted": quoted}


def py_space_codes() -> list[int]:
    return [c for c in range(sys.maxunicode + 1) if re.match(r"\s", chr(c))]


def extract_env_regexes(ctx=None):
    lm = read_lmod()
    ct = read_container()
    sl = read_slurm()
    sg = read_sge()
    rt = read_rc_tests()
    lr = read_load_and_run()
    L = []
    L.append("/- GENERATED by harness/extractors/env_regexes.py from /repo's working tree — do not edit. -/")
    L.append("import PydraModel.JobProto.RcTest")
    L.append("namespace PydraModel.Gen.EnvRegexes")
    L.append("open PydraModel.JobProto")
    L.append("")
    L.append("/-- code points matched by `\\s` in a CPython str pattern -/")
    L.append("def pySpaceCodes : List Nat := [" + ", ".join(str(c) for c in py_space_codes()) + "]")
    L.append("")
    L.append("/-! pydra/environments/lmod.py, native.py -/")
    L.append(f"def lmodRegex : String := {lean_str(lm['regex'])}")
    L.append(f"def lmodEnvInit : String := {lean_str(lm['env_init'])}")
    L.append(f"def lmodExecuteCall : String := {lean_str(lm['execute_call'])}")
    L.append(f"def lmodCmdArgs : String := {lean_str(lm['cmd_args'])}")
    L.append(f"def nativeCmdArgs : String := {lean_str(lm['native_cmd_args'])}")
    L.append("/-- state an Lmod object can carry between jobs: its attrs fields, what `execute` assigns on `self`, the first statement of `execute`, number of `run_lmod_cmd` calls in it -/")
    L.append(f"def lmodFields : List String := {lean_strs(lm['fields'])}")
    L.append(f"def lmodExecuteSelfWrites : List String := {lean_strs(lm['self_writes'])}")
    L.append(f"def lmodExecuteFirstStmt : String := {lean_str(lm['first_stmt'])}")
    L.append(f"def lmodExecuteLoadCalls : Nat := {lm['n_load']}")
    L.append("")
    L.append("/-! pydra/environments/base.py (Container.get_bindings), docker.py, singularity.py -/")
    L.append(f"def mapPathStmts : List String := {lean_strs(ct['map_path'])}")
    L.append(f"def singlePathTest : String := {lean_str(ct['single_test'])}")
    L.append(f"def seqPathTest : String := {lean_str(ct['seq_test'])}")
    L.append(f"def cacheRootStmt : String := {lean_str(ct['cache_stmt'])}")
    L.append(f"def copyFileStmt : String := {lean_str(ct['copy_stmt'])}")
    L.append(f"def dockerLists : List String := {lean_strs(ct['docker'])}")
    L.append(f"def dockerCall : String := {lean_str(ct['docker_call'])}")
    L.append(f"def singularityLists : List String := {lean_strs(ct['singularity'])}")
    L.append(f"def singularityCall : String := {lean_str(ct['singularity_call'])}")
    L.append("")
    L.append("/-! pydra/workers/slurm.py -/")
    for name, key in (("slurmJobNameRe", "jobname"), ("slurmOutputRe", "output"), ("slurmErrorRe", "error"), ("slurmJobIdRe", "jobid"), ("slurmSacctRe", "sacct")):
        L.append(f"def {name} : String := {lean_str(sl[key])}")
    L.append(f"def slurmRequeueStatesRun : List String := {lean_strs(sl['requeue_run'])}")
    L.append(f"def slurmRequeueStatesVerify : List String := {lean_strs(sl['requeue_verify'])}")
    L.append(f"def slurmPollingStatesVerify : List String := {lean_strs(sl['polling_verify'])}")
    L.append(f"def slurmNoRequeueFlag : String := {lean_str(sl['norequeue'])}")
    L.append(f"def slurmSuccessTest : String := {lean_str(sl['ok_test'])}")
    L.append(f"def slurmPollTest : String := {lean_str(sl['poll_test'])}")
    L.append(f"def slurmSqueueCmd : List String := {lean_strs(sl['squeue'])}")
    L.append(f"def slurmSacctCmd : List String := {lean_strs(sl['sacct_cmd'])}")
    L.append(f"def slurmScontrolCmd : List String := {lean_strs(sl['scontrol'])}")
    L.append(f"def slurmErrorLine : List String := {lean_strs(sl['error_line'])}")
    L.append(f"def slurmErrorMessages : List String := {lean_strs(sl['error_messages'])}")
    L.append("")
    L.append("/-! pydra/workers/sge.py, pydra/engine/job.py (load_job) -/")
    L.append(f"def sgeThreadsUsedFactory : String := {lean_str(sg['factory'])}")
    L.append(f"def sgeAugAssign : String := {lean_str(sg['aug_src'])}")
    L.append(f"def sgeAugAddBeforeSubmit : Bool := {'true' if sg['aug_before_submit'] else 'false'}")
    L.append(f"def loadJobParams : List String := {lean_strs(sg['load_job_params'])}")
    L.append(f"def loadJobHasVarKw : Bool := {'true' if sg['has_var_kw'] else 'false'}")
    L.append(f"def sgeLoadJobKwargsUsed : List String := {lean_strs(sg['load_job_kwargs_used'])}")
    L.append("")
    L.append("/-! the failure test on the command's return code (docker.py, singularity.py, lmod.py) -/")
    for mod in ("docker", "singularity", "lmod"):
        L.append(f"def {mod}RcTestSrc : String := {lean_str(rt[mod]['src'])}")
        L.append(f"def {mod}RcTest : RcTest := {rt[mod]['lean']}")
    L.append("")
    L.append("/-! pydra/engine/job.py (load_and_run), pydra/engine/result.py (Result) -/")
    L.append("def loadAndRunResultKwargs : List (List String) := [" + ", ".join(lean_strs(k) for k in lr["kwargs"]) + "]")
    L.append(f"def resultFields : List String := {lean_strs(lr['fields'])}")
    L.append(f"def resultMandatoryFields : List String := {lean_strs(lr['mandatory'])}")
    L.append("def loadAndRunHandlers : List (List String) := [" + ", ".join(lean_strs(h) for h in lr["handlers"]) + "]")
    L.append("/-- the first handler uses `job_pkl.parent`; load_and_run converts its argument with Path(...) first; the SLURM batch script passes a quoted string -/")
    L.append(f"def loadAndRunUsesParent : Bool := {'true' if lr['uses_parent'] else 'false'}")
    L.append(f"def loadAndRunConvertsPath : Bool := {'true' if lr['converts'] else 'false'}")
    L.append(f"def slurmPassesQuotedPath : Bool := {'true' if lr['quoted'] else 'false'}")
    L.append("")
    L.append("end PydraModel.Gen.EnvRegexes")
    out = core.LEAN / "PydraModel" / "Gen" / "EnvRegexes.lean"
    core.write_if_changed(out, "\n".join(L) + "\n")
    return [str(out)]


if __name__ == "__main__":
    print(extract_env_regexes())
