"""Regenerated tie for engine `Typing` (C20, C21).

Dumps FROM THE RUNNING INTERPRETER (pydra imported from the working tree under check):

  lean/PydraModel/Gen/TypeTables.lean
      * `Cls`                  the finite class universe (harness/engines/typing_eng.universe)
      * `supers` / `issub`     the `issubclass` matrix of the universe
      * `coercibleDefault`, `notCoercibleDefault`   TypeParser.COERCIBLE_DEFAULT / NOT_COERCIBLE_DEFAULT
        (entries naming classes outside the universe are dropped only after checking that no universe
         class is a subclass of the outside class, i.e. that the entry is inert on the universe)
      * facts read from the AST of pydra/compose/base/builder.py::make_converter and
        pydra/utils/typing.py (which exceptions the inner functions catch)
  lean/PydraModel/Gen/TypeCtorSamples.lean
      * one `rfl` theorem per observed constructor call `target(value)`: the hand-written `construct`
        of Typing/Model.lean must return exactly what the interpreter returned

An unexpected shape raises: the framework reports "tie broken".
"""

from __future__ import annotations

import ast
import inspect
import json
import typing as ty
from pathlib import PosixPath

from harness import core
from harness.engines import typing_eng as te

GEN = core.LEAN / "PydraModel" / "Gen"


def _lean_cls(n: str) -> str:
    return f".{n}"


def _norm_entry(c, uni):
    """table entry -> 'any' | universe name | ('outside', class)"""
    if c is ty.Any:
        return "any"
    o = ty.get_origin(c)
    if o is not None:
        if ty.get_args(c):
            raise ValueError(f"parametrised table entry {c!r}")
        c = o
    for n, k in uni.items():
        if k is c:
            return n
    if not inspect.isclass(c):
        raise ValueError(f"table entry is not a class: {c!r}")
    return ("outside", c)


def _table(entries, uni, dropped):
    rows = []
    for s, t in entries:
        ns, nt = _norm_entry(s, uni), _norm_entry(t, uni)
        outside = [x[1] for x in (ns, nt) if isinstance(x, tuple)]
        if outside:
            for oc in outside:
                below = [n for n, k in uni.items() if issubclass(k, oc)]
                if below:
                    raise ValueError(f"universe classes {below} are subclasses of table class {oc!r} outside the universe")
            dropped.append(f"{getattr(s, '__name__', s)}->{getattr(t, '__name__', t)}")
            continue
        rows.append((ns, nt))
    return rows


def _tt(n: str) -> str:
    return ".any" if n == "any" else f".cls .{n}"


# ------------------------------------------------------------------ AST facts


def _find_func(tree, name):
    for node in ast.walk(tree):
        if isinstance(node, ast.FunctionDef) and node.name == name:
            return node
    raise ValueError(f"function {name} not found")


def _except_names(func) -> list[list[str]]:
    out = []
    for node in ast.walk(func):
        if isinstance(node, ast.ExceptHandler):
            t = node.type
            if t is None:
                out.append(["*"])
            elif isinstance(t, ast.Tuple):
                out.append(sorted(ast.unparse(e) for e in t.elts))
            else:
                out.append([ast.unparse(t)])
    return out


def _ast_facts() -> dict:
    src_t = (core.REPO / "pydra" / "utils" / "typing.py").read_text()
    tree_t = ast.parse(src_t)
    coerce = _find_func(tree_t, "coerce")
    facts = {}
    want = {
        "coerce_obj": [["TypeError", "ValueError"]],
        "coerce_union": [["TypeError"]],
        "coerce_multi_input": [["TypeError"], ["TypeError"]],
        "coerce_mapping": [["AttributeError"]],
    }
    for fn, exp in want.items():
        got = _except_names(_find_func(coerce, fn))
        if got != exp:
            raise ValueError(f"typing.py::{fn} catches {got}, the model assumes {exp}")
    # expand_and_coerce: list(obj) guarded by `except TypeError`
    got = _except_names(_find_func(coerce, "expand_and_coerce"))
    if got != [["TypeError"]]:
        raise ValueError(f"expand_and_coerce catches {got}")
    call = _find_func(tree_t, "__call__")
    if ["TypeError"] not in _except_names(call):
        raise ValueError("TypeParser.__call__ no longer catches TypeError")

    src_b = (core.REPO / "pydra" / "compose" / "base" / "builder.py").read_text()
    tree_b = ast.parse(src_b)
    mk = _find_func(tree_b, "make_converter")
    sac = None
    for node in ast.walk(mk):
        if isinstance(node, ast.Assign) and any(isinstance(t, ast.Name) and t.id == "type_checker" for t in node.targets):
            if not (isinstance(node.value, ast.Call) and "TypeParser" in ast.unparse(node.value.func)):
                raise ValueError("type_checker is not a TypeParser(...) call")
            for kw in node.value.keywords:
                if kw.arg == "superclass_auto_cast":
                    if not isinstance(kw.value, ast.Constant):
                        raise ValueError("superclass_auto_cast is not a constant")
                    sac = bool(kw.value.value)
                if kw.arg in ("coercible", "not_coercible"):
                    raise ValueError("make_converter overrides the coercion tables")
            if sac is None:
                sac = False
    if sac is None:
        raise ValueError("make_converter: type_checker assignment not found")
    # the type checker is the last stage of every pipeline, or the converter itself
    app_nodes = [n for n in ast.walk(mk) if isinstance(n, ast.Call) and ast.unparse(n.func) == "converters.append"]
    appends = [ast.unparse(n.args[0]) for n in sorted(app_nodes, key=lambda n: (n.lineno, n.col_offset))]
    if not appends or appends[-1] != "type_checker" or appends.count("type_checker") != 1:
        raise ValueError(f"make_converter: type_checker is not appended last: {appends}")
    conv_assign = [ast.unparse(n.value) for n in ast.walk(mk) if isinstance(n, ast.Assign) and ast.unparse(n.targets[0]) == "converter"]
    if sorted(conv_assign) != sorted(["attrs.converters.pipe(*converters)", "type_checker"]):
        raise ValueError(f"make_converter: unexpected converter assignments {conv_assign}")
    ret = [ast.unparse(n.value) for n in ast.walk(mk) if isinstance(n, ast.Return)]
    if ret != ["converter"]:
        raise ValueError(f"make_converter returns {ret}")
    # every attrs.field(...) built by the builder installs converter=make_converter(...)
    n_fields = 0
    for node in ast.walk(tree_b):
        if isinstance(node, ast.Call) and ast.unparse(node.func) == "attrs.field":
            kws = {kw.arg: kw.value for kw in node.keywords}
            if "converter" not in kws or not ast.unparse(kws["converter"]).startswith("make_converter("):
                raise ValueError("an attrs.field(...) in builder.py has no make_converter converter")
            n_fields += 1
    if n_fields < 2:
        raise ValueError("expected attrs.field(converter=make_converter(..)) for inputs and outputs")
    facts["sac"] = sac
    facts["n_fields"] = n_fields
    pre = [a for a in appends if a != "type_checker"]
    facts["pre_converters"] = pre
    return facts


# ------------------------------------------------------------------ constructor samples


def _lean_str(s: str) -> str:
    return json.dumps(s, ensure_ascii=False) + ".toList"


def lean_val(j) -> str:
    if j[0] == "a":
        c, p = j[1], j[2]
        if p is None:
            pl = ".unit"
        elif isinstance(p, bool):
            raise ValueError(j)
        elif isinstance(p, int):
            pl = f"(.int ({p}))"
        elif isinstance(p, str):
            pl = f"(.str {_lean_str(p)})"
        else:
            pl = "(.bytes [" + ", ".join(str(b) for b in p) + "])"
        return f"(.atom .{c} {pl})"
    if j[0] == "s":
        return f"(.seq .{j[1]} [" + ", ".join(lean_val(x) for x in j[2]) + "])"
    return f"(.map .{j[1]} [" + ", ".join(lean_val(x) for x in j[2]) + "] [" + ", ".join(lean_val(x) for x in j[3]) + "])"


def _sample_values():
    from fileformats import field
    from pydra.utils.typing import MultiInputObj

    I, D, T, B = field.Integer, field.Decimal, field.Text, field.Boolean
    return [
        I(3), I(0), I(-3), D(2.0), D(0.0), T("a"), T("a'b"), T(""), B(True), B(False), [I(3), T("a"), D(2.0), B(False)], {I(3), I(3)},
        None, True, False, 0, 5, -3, 300, 2.0, "", "abc", "a'b", "a/b", "a//b/", b"ab", b"", PosixPath("a/b"), PosixPath("."),
        [], [1, 2], ["a", "b"], [1, 300], [[1]], [1, True, 1.0, 2], [True, 0], [1.0], [PosixPath("x"), "it's", None, 2.0, b"q", (1, "a")],
        (1, 2), (), ("a",), {1, 2}, frozenset({1}), {"a": 1}, {}, {1: "x", 2: [1]}, MultiInputObj([1]), range(3),
        {1: 2}.keys(), {1: 2}.values(), [{1: [2]}.values(), {1: [2]}.values()], [{1: 2}.keys()], [range(2), range(2)], [(1, 2), (3, 4)], [frozenset({1}), frozenset({1})], [(1, 2), (1.0, 2)],
    ]  # fmt: skip


def _ctor_samples(uni, coerc, notc):
    """(target name, value JSON, result JSON or error tag)"""
    from pydra.utils.typing import TypeParser

    tp_sac = TypeParser(ty.Any, superclass_auto_cast=True)
    out = []
    seen = set()

    def observe(tname, v):
        try:
            vj = te.canon(v)
        except te.Uncodable:
            return
        key = (tname, json.dumps(vj))
        if key in seen:
            return
        seen.add(key)
        try:
            r = uni[tname](v)
        except (TypeError, ValueError):
            out.append((tname, vj, "type"))  # coerce_obj turns both into TypeError
            return
        except Exception as e:  # other classes escape coerce_obj
            out.append((tname, vj, "other:" + type(e).__name__))
            return
        try:
            if type(r) in (set, frozenset):
                # iteration order of a set is the interpreter's business: list the elements in the order of
                # their first `==` occurrence in the input (Python's own equality), which is what the model builds
                src = list(v)
                items = sorted(r, key=lambda e: next(i for i, x in enumerate(src) if x == e))
                out.append((tname, vj, ["s", te.cls_name(type(r), uni), [te.canon(x) for x in items]]))
            else:
                out.append((tname, vj, te.canon(r)))
        except te.Uncodable as e:
            raise ValueError(f"{tname}({v!r}) returned a value outside the universe: {e}")

    vals = _sample_values()
    list_samples = [v for v in vals if type(v) is list]
    dict_samples = [v for v in vals if type(v) is dict]
    import collections.abc as abc

    for tname, tcls in uni.items():
        # (1) basic coercion target(value), for pairs the live tables allow (superclass_auto_cast=True is the superset)
        for v in vals:
            if isinstance(v, tcls):
                continue
            try:
                tp_sac.check_coercible(v, tcls)
            except TypeError:
                continue
            observe(tname, v)
        # (2) re-building a container: type_(list) / type_(dict) with type_ = origin or type(obj)
        if issubclass(tcls, abc.Mapping):
            for d in dict_samples:
                observe(tname, d)
        elif issubclass(tcls, abc.Iterable):
            for l in list_samples:
                observe(tname, l)
    return out


# ------------------------------------------------------------------ the extractor


def typing_tables(ctx=None):
    core.assert_repo_loaded()
    from pydra.utils.typing import TypeParser

    uni = te.universe()
    names = list(uni)
    if len(set(map(id, uni.values()))) != len(uni):
        raise ValueError("universe maps two names to one class")
    dropped: list[str] = []
    coerc = _table(TypeParser.COERCIBLE_DEFAULT, uni, dropped)
    notc = _table(TypeParser.NOT_COERCIBLE_DEFAULT, uni, dropped)
    facts = _ast_facts()
    # default arguments of TypeParser.__init__ are the class tables
    sig = inspect.signature(TypeParser.__init__)
    if sig.parameters["coercible"].default is not TypeParser.COERCIBLE_DEFAULT and tuple(sig.parameters["coercible"].default) != tuple(
        TypeParser.COERCIBLE_DEFAULT
    ):
        raise ValueError("TypeParser.__init__ default `coercible` is not COERCIBLE_DEFAULT")
    if tuple(sig.parameters["not_coercible"].default) != tuple(TypeParser.NOT_COERCIBLE_DEFAULT):
        raise ValueError("TypeParser.__init__ default `not_coercible` is not NOT_COERCIBLE_DEFAULT")
    if sig.parameters["superclass_auto_cast"].default is not False or sig.parameters["match_any_of_union"].default is not False:
        raise ValueError("TypeParser.__init__ flag defaults changed")

    L = []
    L.append("/- GENERATED by harness/extractors/typing_tables.py from the running interpreter -- do not edit. -/")
    L.append("namespace PydraModel.Typing")
    L.append("")
    L.append("inductive Cls")
    for n in names:
        L.append(f"  | {n}")
    L.append("  deriving DecidableEq, Repr, Inhabited")
    L.append("")
    L.append("def Cls.all : List Cls := [" + ", ".join(_lean_cls(n) for n in names) + "]")
    L.append("")
    L.append("def Cls.name : Cls → String")
    for n in names:
        L.append(f'  | .{n} => "{n}"')
    L.append("")
    L.append("/-- `issubclass(a, b)` for every pair of the universe: `supers a` lists every `b` with `issubclass(a, b)`. -/")
    L.append("def supers : Cls → List Cls")
    for n in names:
        sup = [m for m in names if issubclass(uni[n], uni[m])]
        L.append(f"  | .{n} => [" + ", ".join(_lean_cls(m) for m in sup) + "]")
    L.append("")
    L.append("def issub (a b : Cls) : Bool := (supers a).contains b")
    L.append("")
    L.append("/-- a table entry: a class of the universe or `typing.Any` -/")
    L.append("inductive TT | any | cls (c : Cls)")
    L.append("  deriving DecidableEq, Repr")
    L.append("")
    L.append("/-- TypeParser.COERCIBLE_DEFAULT restricted to the universe (dropped inert entries: " + str(len([d for d in dropped])) + ") -/")
    L.append("def coercibleDefault : List (TT × TT) := [")
    L.append(",\n".join(f"  ({_tt(s)}, {_tt(t)})" for s, t in coerc))
    L.append("]")
    L.append("")
    L.append("/-- TypeParser.NOT_COERCIBLE_DEFAULT -/")
    L.append("def notCoercibleDefault : List (TT × TT) := [")
    L.append(",\n".join(f"  ({_tt(s)}, {_tt(t)})" for s, t in notc))
    L.append("]")
    L.append("")
    L.append("/-- builder.py::make_converter: `TypeParser(field_type, ..., superclass_auto_cast=<this>)` -/")
    L.append(f"def fieldParserSac : Bool := {'true' if facts['sac'] else 'false'}")
    L.append("/-- converters that may run before the type checker in the attrs pipeline (the checker is always last) -/")
    L.append("def fieldPreConverters : List String := [" + ", ".join(json.dumps(p) for p in facts["pre_converters"]) + "]")
    L.append("")
    L.append("end PydraModel.Typing")
    f1 = GEN / "TypeTables.lean"
    core.write_if_changed(f1, "\n".join(L) + "\n")

    samples = _ctor_samples(uni, coerc, notc)
    S = []
    S.append("import PydraModel.Typing.Model")
    S.append("/- GENERATED by harness/extractors/typing_tables.py: constructor calls observed in the running interpreter.")
    S.append("   Each theorem re-checks the hand-written `construct` against the interpreter's answer. -/")
    S.append("namespace PydraModel.Typing.CtorSamples")
    S.append("open PydraModel.Typing")
    S.append("")
    for i, (tname, vj, r) in enumerate(samples):
        if isinstance(r, str):
            if r == "type":
                rhs = ".error (.type false)"
            else:
                rhs = f'.error (.other "{r.split(":", 1)[1]}")'
        else:
            rhs = f".ok {lean_val(r)}"
        S.append(f"theorem s{i} : construct .{tname} {lean_val(vj)} = {rhs} := by with_unfolding_all rfl")
    S.append("")
    S.append(f"def count : Nat := {len(samples)}")
    S.append("end PydraModel.Typing.CtorSamples")
    f2 = GEN / "TypeCtorSamples.lean"
    core.write_if_changed(f2, "\n".join(S) + "\n")
    if ctx is not None:
        ctx.extra["typing_tables"] = {
            "classes": len(names),
            "coercible_rows": len(coerc),
            "not_coercible_rows": len(notc),
            "dropped_inert_rows": dropped,
            "ctor_samples": len(samples),
            "field_parser_sac": facts["sac"],
        }
    return [str(f1), str(f2)]
