"""Engine `Rules` / `Roundtrip` (DESIGN §5.7, C31 + C32): generator of python/shell task definitions with
requirement sets and xor groups, builder through the public `python.define` / `shell.define` API, value domains,
canonicalisation of `_rule_violations()` messages, submission probes.

A definition is a JSON-able dict

  {"flavor": "python" | "shell", "name": <unique class name>,
   "fields": [{"name", "kind", "requires": [[ [field, allowed|None], ...], ...],          # C31
               "help", "argstr", "position", "sep", "allowed_values" (shell metadata, C32)}],
   "xor": [[name | None, ...], ...], "empty": bool (value domains contain "" instead of "y")}

Field kinds (all inside the property's "optional/bool/str fields"):
  optstr  `str | None`  default None      bool   `bool` default False      optbool `bool | None` default None
  str     `str` mandatory (no default)    strd   `str` default "d"
"""

from __future__ import annotations

import importlib.util
import itertools
import keyword
import re
import sys
from pathlib import Path

UNSET = "<unset>"  # JSON marker for "no value passed" (mandatory field left attrs.NOTHING / default used)

KINDS = ("optstr", "bool", "optbool", "str", "strd")
PY_TYPES = {"optstr": "str | None", "bool": "bool", "optbool": "bool | None", "str": "str", "strd": "str"}
DEFAULTS = {"optstr": None, "bool": False, "optbool": None, "strd": "d"}  # "str" has none: mandatory
NAME_POOL = [
    "alpha", "beta", "gamma", "delta", "in_x", "in_y", "flag", "mode", "level", "tag", "opt_a", "opt_b", "verbose",
    "quiet", "label", "prefix", "suffix", "kind", "fmt", "name_", "out_name", "requirements", "requires", "xor",
    "type_", "default", "help", "sep",
]  # fmt: skip
RESERVED = {"executable", "append_args", "function", "Outputs", "name", "type", "split", "combine", "cmdline"}


def valid_name(n: str) -> bool:
    return n.isidentifier() and not keyword.iskeyword(n) and n not in RESERVED and not n.startswith("_")


# --------------------------------------------------------------------------------------------------
# generator


def domain(kind: str, empty: bool) -> list:
    """Value domain (≤ 3 values) of a field; UNSET = no value passed."""
    s2 = "" if empty else "y"
    return {
        "optstr": [None, "x", s2],
        "bool": [False, True],
        "optbool": [None, False, True],
        "str": [UNSET, "x", s2],
        "strd": [UNSET, "x", s2],
    }[kind]


def gen_rules_def(rng, flavor: str, name: str, *, max_fields: int = 5, empty_p: float = 0.25, optbool_p: float = 0.15) -> dict:
    n = rng.choice([2, 3, 3, 4, 4, 5, 5][: max(1, max_fields + 2)])
    n = min(n, max_fields)
    names = rng.sample([x for x in NAME_POOL if valid_name(x)], n)
    fields = []
    for nm in names:
        r = rng.random()
        if r < optbool_p:
            kind = "optbool"
        elif r < optbool_p + 0.40:
            kind = "optstr"
        elif r < optbool_p + 0.62:
            kind = "bool"
        elif r < optbool_p + 0.76:
            kind = "str"
        else:
            kind = "strd"
        fields.append({"name": nm, "kind": kind, "requires": []})
    # requirement sets
    for f in fields:
        if rng.random() < 0.45:
            nsets = rng.choice([1, 1, 2])
            for _ in range(nsets):
                others = [g for g in fields if g is not f] or fields
                if rng.random() < 0.05:
                    others = fields  # self reference is accepted by _check_arg_refs
                k = min(len(others), rng.choice([1, 1, 2]))
                rs = []
                for g in rng.sample(others, k):
                    allowed = None
                    if rng.random() < 0.45:
                        allowed = rng.choice([["x"], ["y"], ["x", "y"], ["y", "z"], ["x", ""], ["d", "x"]])
                    rs.append([g["name"], allowed])
                f["requires"].append(rs)
    # xor groups
    xor = []
    if rng.random() < 0.7 and n >= 2:
        for _ in range(rng.choice([1, 1, 2])):
            k = rng.choice([2, 2, 3]) if n >= 3 else 2
            grp = list(rng.sample(names, min(k, n)))
            if rng.random() < 0.5:
                grp.append(None)
            if sorted(map(str, grp)) not in [sorted(map(str, g)) for g in xor]:
                xor.append(grp)
    return {"flavor": flavor, "name": name, "fields": fields, "xor": xor, "empty": rng.random() < empty_p}


def gen_meta_def(rng, name: str, *, with_requires: bool = False) -> dict:
    """Shell definition with argstr / position / sep / help / allowed_values metadata (C32)."""
    d = gen_rules_def(rng, "shell", name, empty_p=0.0)
    if not with_requires:
        for f in d["fields"]:
            f["requires"] = []
    n = len(d["fields"])
    pos_pool = rng.sample(list(range(1, n + 3)) + [-1, -2], n)
    for i, f in enumerate(d["fields"]):
        nm = f["name"]
        style = rng.choice(["flag", "flag", "long", "templ", "bare", "eq"])
        f["argstr"] = {
            "flag": f"-{nm[0]}{i}",
            "long": f"--{nm.replace('_', '-')}",
            "templ": f"--{nm}={{{nm}}}",
            "bare": "",
            "eq": f"-{nm[0]}{i}",
        }[style]
        if f["kind"] in ("bool", "optbool") and style in ("templ", "bare"):
            f["argstr"] = f"--{nm}"
        if rng.random() < 0.5:
            f["position"] = pos_pool[i]
        if rng.random() < 0.4:
            f["help"] = rng.choice(["the first option", "a flag", "input label, used twice", "x"])
        if rng.random() < 0.25:
            f["sep"] = rng.choice([",", ":", " "])
        if f["kind"] in ("optstr", "strd") and rng.random() < 0.2:
            f["allowed_values"] = ["d", "x", "y"]
    return d


def canon_def(d: dict) -> dict:
    """Canonical JSON of a definition as the model driver receives it."""
    return {
        "fields": [
            {
                "name": f["name"],
                "kind": f["kind"],
                "requires": [[[r[0], r[1]] for r in rs] for rs in f.get("requires", [])],
            }
            for f in d["fields"]
        ],
        "xor": [list(g) for g in d["xor"]],
    }


def assignments(d: dict) -> list[dict]:
    doms = [domain(f["kind"], d.get("empty", False)) for f in d["fields"]]
    return [dict(zip([f["name"] for f in d["fields"]], combo)) for combo in itertools.product(*doms)]


def effective(d: dict, a: dict) -> dict:
    """Value each field really holds under assignment `a` (UNSET on a defaulted field = its default)."""
    out = {}
    for f in d["fields"]:
        v = a[f["name"]]
        if v == UNSET and f["kind"] == "strd":
            v = DEFAULTS["strd"]
        out[f["name"]] = v
    return out


# --------------------------------------------------------------------------------------------------
# building the real task classes


def python_source(d: dict, marker_env: str = "VERIF_RULES_MARK") -> str:
    """Unique source text per task (class name and body mention the name: D4/D28)."""
    fl = sorted(d["fields"], key=lambda f: 0 if f["kind"] == "str" else 1)  # mandatory parameters first
    params = []
    for f in fl:
        if f["kind"] == "str":
            params.append(f"{f['name']}: {PY_TYPES[f['kind']]}")
        else:
            params.append(f"{f['name']}: {PY_TYPES[f['kind']]} = {DEFAULTS[f['kind']]!r}")
    names = ", ".join(f["name"] for f in d["fields"])
    return (
        f"def {d['name']}({', '.join(params)}):\n"
        f"    import os\n"
        f"    m = os.environ.get({marker_env!r})\n"
        f"    if m:\n"
        f"        with open(m, 'a') as fh:\n"
        f"            fh.write({d['name']!r} + '\\n')\n"
        f"    return repr(({d['name']!r}, {names}{',' if d['fields'] else ''}))\n"
    )


_modcount = itertools.count()


def load_function(d: dict, moddir: Path):
    moddir.mkdir(parents=True, exist_ok=True)
    modname = f"verif_rules_gen_{next(_modcount)}_{d['name']}"
    path = moddir / f"{modname}.py"
    path.write_text(python_source(d))
    spec = importlib.util.spec_from_file_location(modname, path)
    mod = importlib.util.module_from_spec(spec)
    sys.modules[modname] = mod
    spec.loader.exec_module(mod)
    return getattr(mod, d["name"])


def _requires_arg(f: dict):
    return [[(r[0], list(r[1])) if r[1] is not None else r[0] for r in rs] for rs in f.get("requires", [])]


def build(d: dict, moddir: Path):
    """The task class through the public API."""
    from pydra.compose import python, shell

    if d["flavor"] == "python":
        fn = load_function(d, moddir)
        inputs = {}
        for f in d["fields"]:
            kw = {}
            if f.get("requires"):
                kw["requires"] = _requires_arg(f)
            if f.get("help"):
                kw["help"] = f["help"]
            if f.get("allowed_values"):
                kw["allowed_values"] = f["allowed_values"]
            if kw:
                inputs[f["name"]] = python.arg(**kw)
        return python.define(fn, inputs=inputs or None, outputs=["out"], xor=[list(g) for g in d["xor"]])
    import typing as ty

    types = {"optstr": ty.Optional[str], "bool": bool, "optbool": ty.Optional[bool], "str": str, "strd": str}
    inputs = {}
    for i, f in enumerate(d["fields"]):
        kw = {"type": types[f["kind"]], "argstr": f.get("argstr", f"--{f['name']}")}
        if f["kind"] != "str":
            kw["default"] = DEFAULTS[f["kind"]]
        if f.get("requires"):
            kw["requires"] = _requires_arg(f)
        for k in ("help", "position", "sep", "allowed_values"):
            if f.get(k) is not None:
                kw[k] = f[k]
        inputs[f["name"]] = shell.arg(**kw)
    return shell.define("echo", inputs=inputs, name=d["name"], xor=[list(g) for g in d["xor"]])


def instantiate(cls, a: dict):
    return cls(**{k: v for k, v in a.items() if v != UNSET})


# --------------------------------------------------------------------------------------------------
# observing the implementation

_NAME_EQ = re.compile(r"(\w+)=")


def canon_violations(msgs: list[str]) -> list:
    """Map `_rule_violations()` messages to structured tags (wording-tolerant: keywords + quoted names)."""
    out = []
    for m in msgs:
        if m.startswith("Mandatory field"):
            out.append(["mandatory", re.search(r"'(\w+)'", m).group(1)])
        elif m.startswith("Mutually exclusive fields"):
            inner = m[m.index("(") + 1 : m.rindex(") are set")]
            out.append(["xor_many", sorted(_NAME_EQ.findall(_strip_reprs(inner)))])
        elif m.startswith("At least one of the mutually exclusive"):
            inner = m.split("should be set:", 1)[1]
            out.append(["xor_none", sorted(_NAME_EQ.findall(_strip_reprs(inner)))])
        elif " requires" in m and m.startswith("'"):
            out.append(["requires", re.match(r"'(\w+)'", m).group(1)])
        else:
            out.append(["other", m[:60]])
    return sorted(out, key=lambda x: (x[0], str(x[1])))


def _strip_reprs(s: str) -> str:
    """Remove quoted string reprs so that `name=` inside a value cannot be mistaken for a field."""
    return re.sub(r"'[^']*'", "''", s)


def probe_submission(cls, a: dict, root: Path, how: str, marker: Path) -> dict:
    """Submit the task; observe the exception class, whether the body ran, whether a job directory appeared."""
    import os

    from pydra.engine.job import Job
    from pydra.engine.submitter import Submitter

    root.mkdir(parents=True, exist_ok=True)
    if marker.exists():
        marker.unlink()
    os.environ["VERIF_RULES_MARK"] = str(marker)
    task = instantiate(cls, a)
    exc = None
    out = None
    try:
        if how == "call":
            out = task(cache_root=root)
        elif how == "submitter":
            with Submitter(cache_root=root, worker="debug") as sub:
                res = sub(task, raise_errors=True)
                out = res.outputs
        elif how == "job":
            with Submitter(cache_root=root, worker="debug") as sub:
                job = Job(task=task, submitter=sub, name="main")
                sub.submit(job)
                out = job.result().outputs
        else:
            raise AssertionError(how)
    except Exception as e:  # noqa: BLE001 - the class is the observable
        exc = type(e).__name__
    finally:
        os.environ.pop("VERIF_RULES_MARK", None)
    jobdirs = sorted(p.name.split("-")[0] for p in root.iterdir() if p.is_dir())
    ran_marker = marker.exists()
    res = {"exc": exc, "jobdir": bool(jobdirs)}
    if cls._task_type() == "python":
        res["ran"] = ran_marker
        res["out"] = getattr(out, "out", None) if out is not None else None
    else:
        res["ran"] = out is not None
        res["out"] = getattr(out, "stdout", None) if out is not None else None
    return res
