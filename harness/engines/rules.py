"""Engine `Rules` / `Roundtrip` (DESIGN §5.7, C31 + C32): generator of python/shell task definitions with
requirement sets and xor groups, builder through the public `python.define` / `shell.define` API, value domains,
canonicalisation of `_rule_violations()` messages, submission probes.

A definition is a JSON-able dict

  {"flavor": "python" | "shell", "name": <unique class name>,
   "fields": [{"name", "kind", "requires": [[ [field, allowed|None], ...], ...],          # C31
               "help", "argstr", "position", "sep", "allowed_values" (shell metadata, C32)}],
   "xor": [[name | None, ...], ...], "empty": bool (value domains contain "" instead of "y")}

Field kinds (all inside the property's "optional/bool/str fields"):
  optstr  `str | None`  default None      bool   `bool` default False      optbool `bool | None` default None
  str     `str` mandatory (no default)    strd   `str` default "d"
"""

from __future__ import annotations

import importlib.util
import itertools
import keyword
import re
import sys
from pathlib import Path

UNSET = "<unset>"  # JSON marker for "no value passed" (mandatory field left attrs.NOTHING / default used)
LAZY = "<lazy>"  # JSON marker for "connected to an upstream node's output" (workflow construction time)
EXT_KINDS = ("ro", "outopt")  # outside C31's quantifier: shell.arg(readonly=True) / shell.outarg(File | None, path_template)

KINDS = ("optstr", "bool", "optbool", "str", "strd")
PY_TYPES = {"optstr": "str | None", "bool": "bool", "optbool": "bool | None", "str": "str", "strd": "str"}
DEFAULTS = {"optstr": None, "bool": False, "optbool": None, "strd": "d"}  # "str" has none: mandatory
NAME_POOL = [
    "alpha", "beta", "gamma", "delta", "in_x", "in_y", "flag", "mode", "level", "tag", "opt_a", "opt_b", "verbose",
    "quiet", "label", "prefix", "suffix", "kind", "fmt", "name_", "out_name", "requirements", "requires", "xor",
    "type_", "default", "help", "sep",
]  # fmt: skip
RESERVED = {"executable", "append_args", "function", "Outputs", "name", "type", "split", "combine", "cmdline"}


def valid_name(n: str) -> bool:
    return n.isidentifier() and not keyword.iskeyword(n) and n not in RESERVED and not n.startswith("_")


# --------------------------------------------------------------------------------------------------
# generator


def domain(kind: str, empty: bool) -> list:
    """Value domain (≤ 3 values) of a field; UNSET = no value passed."""
    s2 = "" if empty else "y"
    return {
        "optstr": [None, "x", s2],
        "bool": [False, True],
        "optbool": [None, False, True],
        "str": [UNSET, "x", s2],
        "strd": [UNSET, "x", s2],
        "ro": [UNSET, "x"],
        "outopt": [None, True, False],
    }[kind]


def gen_ext_def(rng, name: str) -> dict:
    """Shell definition of the C31 generator with one or two fields turned into a `readonly` input / an optional
    `outarg` with a path template (model flags `exempt`, `optFileset`).  Outside the property's quantifier."""
    d = gen_rules_def(rng, "shell", name, empty_p=0.15)
    for f in rng.sample(d["fields"], min(len(d["fields"]), rng.choice([1, 1, 2]))):
        f["kind"] = rng.choice(EXT_KINDS)
    d["stream"] = "ext"
    return d


def lazy_assignments(rng, d: dict, limit: int = 120) -> list[dict]:
    """Assignments with at least one lazy value: one or two fields may (in addition to their domain) be connected to an
    upstream output."""
    names = [f["name"] for f in d["fields"]]
    lz = set(rng.sample(names, min(len(names), rng.choice([1, 2, 2]))))
    doms = [domain(f["kind"], d.get("empty", False)) + ([LAZY] if f["name"] in lz else []) for f in d["fields"]]
    out = [dict(zip(names, c)) for c in itertools.product(*doms) if LAZY in c]
    if len(out) > limit:
        out = rng.sample(out, limit)
    return out


def gen_rules_def(rng, flavor: str, name: str, *, max_fields: int = 5, empty_p: float = 0.25, optbool_p: float = 0.15) -> dict:
    n = rng.choice([2, 3, 3, 4, 4, 5, 5][: max(1, max_fields + 2)])
    n = min(n, max_fields)
    names = rng.sample([x for x in NAME_POOL if valid_name(x)], n)
    fields = []
    for nm in names:
        r = rng.random()
        if r < optbool_p:
            kind = "optbool"
        elif r < optbool_p + 0.40:
            kind = "optstr"
        elif r < optbool_p + 0.62:
            kind = "bool"
        elif r < optbool_p + 0.76:
            kind = "str"
        else:
            kind = "strd"
        fields.append({"name": nm, "kind": kind, "requires": []})
    # requirement sets
    for f in fields:
        if rng.random() < 0.45:
            nsets = rng.choice([1, 1, 2])
            for _ in range(nsets):
                others = [g for g in fields if g is not f] or fields
                if rng.random() < 0.05:
                    others = fields  # self reference is accepted by _check_arg_refs
                k = min(len(others), rng.choice([1, 1, 2]))
                rs = []
                for g in rng.sample(others, k):
                    allowed = None
                    if rng.random() < 0.45:
                        allowed = rng.choice([["x"], ["y"], ["x", "y"], ["y", "z"], ["x", ""], ["d", "x"]])
                    rs.append([g["name"], allowed])
                f["requires"].append(rs)
    # xor groups
    xor = []
    if rng.random() < 0.7 and n >= 2:
        for _ in range(rng.choice([1, 1, 2])):
            k = rng.choice([2, 2, 3]) if n >= 3 else 2
            grp = list(rng.sample(names, min(k, n)))
            if rng.random() < 0.5:
                grp.append(None)
            if sorted(map(str, grp)) not in [sorted(map(str, g)) for g in xor]:
                xor.append(grp)
    d = {"flavor": flavor, "name": name, "fields": fields, "xor": xor, "empty": rng.random() < empty_p}
    if flavor == "python" and rng.random() < 0.5:
        d["outputs"] = nonalphabetical(rng, [o for o in OUT_POOL if o not in names], rng.choice([2, 2, 3]))
        d["typed_outputs"] = rng.random() < 0.5
    return d


OUT_POOL = ["zeta", "omega", "result", "mid", "beta_out", "alpha_out", "count", "text", "aux", "y_out", "b_out"]


def nonalphabetical(rng, pool: list[str], k: int) -> list[str]:
    """k distinct names in a declaration order that is NOT the alphabetical one"""
    while True:
        pick = rng.sample(pool, k)
        if pick != sorted(pick):
            return pick


def gen_meta_def(rng, name: str, *, with_requires: bool = False) -> dict:
    """Shell definition with argstr / position / sep / help / allowed_values metadata (C32)."""
    d = gen_rules_def(rng, "shell", name, empty_p=0.0)
    if not with_requires:
        for f in d["fields"]:
            f["requires"] = []
    n = len(d["fields"])
    pos_pool = rng.sample(list(range(1, n + 3)), n)
    for i, f in enumerate(d["fields"]):
        nm = f["name"]
        style = rng.choice(["flag", "flag", "long", "templ", "bare", "eq"])
        f["argstr"] = {
            "flag": f"-{nm[0]}{i}",
            "long": f"--{nm.replace('_', '-')}",
            "templ": f"--{nm}={{{nm}}}",
            "bare": "",
            "eq": f"-{nm[0]}{i}",
        }[style]
        if f["kind"] in ("bool", "optbool") and style in ("templ", "bare"):
            f["argstr"] = f"--{nm}"
        if rng.random() < 0.5:
            f["position"] = pos_pool[i]
        if rng.random() < 0.4:
            f["help"] = rng.choice(["the first option", "a flag", "input label, used twice", "x"])
        if rng.random() < 0.25:
            f["sep"] = rng.choice([",", ":", " "])
        if f["kind"] in ("optstr", "strd") and rng.random() < 0.2:
            f["allowed_values"] = ["d", "x", "y"]
    if rng.random() < 0.4:  # two optional outargs (path templates) declared in non-alphabetical order
        taken = {f["name"] for f in d["fields"]}
        for i, o in enumerate(nonalphabetical(rng, [x for x in OUT_POOL if x not in taken], 2)):
            d["fields"].append({"name": o, "kind": "outopt", "requires": [], "argstr": f"--{o.replace('_', '-')}"})
    n = len(d["fields"])
    # at most one negative position; -1 is slot n (= number of user fields), which must then be free
    free = [f for f in d["fields"] if "position" not in f]
    if free and rng.random() < 0.4 and all(f.get("position") != n for f in d["fields"]):
        rng.choice(free)["position"] = -1
    return d


def canon_def(d: dict) -> dict:
    """Canonical JSON of a definition as the model driver receives it."""
    return {
        "fields": [
            {
                "name": f["name"],
                "kind": f["kind"],
                "requires": [[[r[0], r[1]] for r in rs] for rs in f.get("requires", [])],
            }
            for f in d["fields"]
        ],
        "xor": [list(g) for g in d["xor"]],
    }


def assignments(d: dict) -> list[dict]:
    doms = [domain(f["kind"], d.get("empty", False)) for f in d["fields"]]
    return [dict(zip([f["name"] for f in d["fields"]], combo)) for combo in itertools.product(*doms)]


def effective(d: dict, a: dict) -> dict:
    """Value each field really holds under assignment `a` (UNSET on a defaulted field = its default)."""
    out = {}
    for f in d["fields"]:
        v = a[f["name"]]
        if v == UNSET and f["kind"] == "strd":
            v = DEFAULTS["strd"]
        out[f["name"]] = v
    return out


# --------------------------------------------------------------------------------------------------
# building the real task classes


def python_source(d: dict, marker_env: str = "VERIF_RULES_MARK") -> str:
    """Unique source text per task (class name and body mention the name: D4/D28)."""
    fl = sorted(d["fields"], key=lambda f: 0 if f["kind"] == "str" else 1)  # mandatory parameters first
    params = []
    for f in fl:
        if f["kind"] == "str":
            params.append(f"{f['name']}: {PY_TYPES[f['kind']]}")
        else:
            params.append(f"{f['name']}: {PY_TYPES[f['kind']]} = {DEFAULTS[f['kind']]!r}")
    names = ", ".join(f["name"] for f in d["fields"])
    args = f"({d['name']!r}, {names}{',' if d['fields'] else ''})"
    outs = d.get("outputs", ["out"])
    if len(outs) == 1:
        ret = f"repr({args})"
    else:  # a tuple: python tasks bind its items to the outputs BY POSITION; item i has its own type and value
        items = []
        for i, o in enumerate(outs):
            items.append([f"repr(({i}, {o!r}) + {args})", f"{i}", f"[{i}, {o!r}]"][i % 3])
        ret = "(" + ", ".join(items) + ")"
    return (
        f"def {d['name']}({', '.join(params)}):\n"
        f"    import os\n"
        f"    m = os.environ.get({marker_env!r})\n"
        f"    if m:\n"
        f"        with open(m, 'a') as fh:\n"
        f"            fh.write({d['name']!r} + '\\n')\n"
        f"    return {ret}\n"
    )


_modcount = itertools.count()


def load_function(d: dict, moddir: Path):
    moddir.mkdir(parents=True, exist_ok=True)
    modname = f"verif_rules_gen_{next(_modcount)}_{d['name']}"
    path = moddir / f"{modname}.py"
    path.write_text(python_source(d))
    spec = importlib.util.spec_from_file_location(modname, path)
    mod = importlib.util.module_from_spec(spec)
    sys.modules[modname] = mod
    spec.loader.exec_module(mod)
    return getattr(mod, d["name"])


def _requires_arg(f: dict):
    return [[(r[0], list(r[1])) if r[1] is not None else r[0] for r in rs] for rs in f.get("requires", [])]


def build(d: dict, moddir: Path):
    """The task class through the public API."""
    from pydra.compose import python, shell

    if d["flavor"] == "python":
        fn = load_function(d, moddir)
        inputs = {}
        for f in d["fields"]:
            kw = {}
            if f.get("requires"):
                kw["requires"] = _requires_arg(f)
            if f.get("help"):
                kw["help"] = f["help"]
            if f.get("allowed_values"):
                kw["allowed_values"] = f["allowed_values"]
            if kw:
                inputs[f["name"]] = python.arg(**kw)
        outs = d.get("outputs", ["out"])
        if len(outs) > 1 and d.get("typed_outputs"):  # declared types: a swap of positions is then a type error too
            tys = [str, int, list]
            outs = {o: python.out(type=tys[i % 3]) for i, o in enumerate(outs)}
        else:
            outs = list(outs)
        return python.define(fn, inputs=inputs or None, outputs=outs, xor=[list(g) for g in d["xor"]])
    import typing as ty

    from fileformats.generic import File

    types = {"optstr": ty.Optional[str], "bool": bool, "optbool": ty.Optional[bool], "str": str, "strd": str, "ro": str,
             "outopt": ty.Optional[File]}  # fmt: skip
    inputs, outputs = {}, {}
    for i, f in enumerate(d["fields"]):
        kw = {"type": types[f["kind"]], "argstr": f.get("argstr", f"--{f['name']}")}
        if f["kind"] not in ("str", "ro"):
            kw["default"] = DEFAULTS.get(f["kind"])
        if f.get("requires"):
            kw["requires"] = _requires_arg(f)
        for k in ("help", "position", "sep", "allowed_values"):
            if f.get(k) is not None:
                kw[k] = f[k]
        if f["kind"] == "outopt":
            outputs[f["name"]] = shell.outarg(path_template=f"{f['name']}_out.txt", **kw)
        elif f["kind"] == "ro":
            inputs[f["name"]] = shell.arg(readonly=True, **kw)
        else:
            inputs[f["name"]] = shell.arg(**kw)
    return shell.define("echo", inputs=inputs, outputs=outputs or None, name=d["name"], xor=[list(g) for g in d["xor"]])


def instantiate(cls, a: dict):
    return cls(**{k: v for k, v in a.items() if v != UNSET})


# --------------------------------------------------------------------------------------------------
# observing the implementation

def _names_eq(s: str) -> list[str]:
    """field names of `n1=<repr>, n2=<repr>, …` (reprs may contain quotes, commas, parentheses and `=`)"""
    out, depth, quote, tok, i = [], 0, None, "", 0
    at_start = True
    while i < len(s):
        c = s[i]
        if quote:
            if c == "\\":
                i += 1
            elif c == quote:
                quote = None
        elif c in "'\"":
            quote = c
        elif c in "([{":
            depth += 1
        elif c in ")]}":
            depth -= 1
        elif depth == 0 and c == "," :
            at_start, tok = True, ""
        elif depth == 0 and at_start:
            if c == "=":
                out.append(tok.strip())
                at_start = False
            else:
                tok += c
        i += 1
    return out


def canon_violations(msgs: list[str]) -> list:
    """Map `_rule_violations()` messages to structured tags (wording-tolerant: keywords + field names)."""
    out = []
    for m in msgs:
        if m.startswith("Mandatory field"):
            out.append(["mandatory", re.search(r"'(\w+)'", m).group(1)])
        elif m.startswith("Mutually exclusive fields"):
            inner = m[m.index("(") + 1 : m.rindex(") are set")]
            out.append(["xor_many", sorted(_names_eq(inner))])
        elif m.startswith("At least one of the mutually exclusive"):
            inner = m.split("should be set:", 1)[1]
            out.append(["xor_none", sorted(_names_eq(inner))])
        elif " requires" in m and m.startswith("'"):
            out.append(["requires", re.match(r"'(\w+)'", m).group(1)])
        else:
            out.append(["other", m[:60]])
    return sorted(out, key=lambda x: (x[0], str(x[1])))


def probe_submission(cls, a: dict, root: Path, how: str, marker: Path) -> dict:
    """Submit the task; observe the exception class, whether the body ran, whether a job directory appeared."""
    import os

    from pydra.engine.job import Job
    from pydra.engine.submitter import Submitter

    root.mkdir(parents=True, exist_ok=True)
    if marker.exists():
        marker.unlink()
    os.environ["VERIF_RULES_MARK"] = str(marker)
    task = instantiate(cls, a)
    exc = None
    out = None
    try:
        if how == "call":
            out = task(cache_root=root)
        elif how == "submitter":
            with Submitter(cache_root=root, worker="debug") as sub:
                res = sub(task, raise_errors=True)
                out = res.outputs
        elif how == "job":
            with Submitter(cache_root=root, worker="debug") as sub:
                job = Job(task=task, submitter=sub, name="main")
                sub.submit(job)
                out = job.result().outputs
        else:
            raise AssertionError(how)
    except Exception as e:  # noqa: BLE001 - the class is the observable
        exc = type(e).__name__
    finally:
        os.environ.pop("VERIF_RULES_MARK", None)
    jobdirs = sorted(p.name.split("-")[0] for p in root.iterdir() if p.is_dir())
    ran_marker = marker.exists()
    res = {"exc": exc, "jobdir": bool(jobdirs)}
    if cls._task_type() == "python":
        from pydra.utils.general import get_fields

        res["ran"] = ran_marker
        res["out"] = {f.name: repr(getattr(out, f.name)) for f in get_fields(out)} if out is not None else None
    else:
        res["ran"] = out is not None
        res["out"] = getattr(out, "stdout", None) if out is not None else None
    return res


# --------------------------------------------------------------------------------------------------
# lazy values: the task as a workflow node sees it at construction time (outside C31's quantifier)

_LAZY_SRC = """import os
import typing as ty
from pydra.compose import python, workflow

CLS = None
ASGS = []
REC = []
RUN = None


@python.define(outputs=["out"])
def Up_{name}(x: ty.Any) -> ty.Any:
    m = os.environ.get("VERIF_RULES_MARK")
    if m:
        with open(m, "a") as fh:
            fh.write("upstream {name}\\n")
    return x


def _kw(a, up):
    return {{k: (up.out if v == "<lazy>" else v) for k, v in a.items() if v != "<unset>"}}


@workflow.define(outputs=["o"])
def W_{name}(x: ty.Any) -> ty.Any:
    up = workflow.add(Up_{name}(x=x))
    for a in ASGS:
        REC.append(list(CLS(**_kw(a, up))._rule_violations()))
    if RUN is not None:
        workflow.add(CLS(**_kw(RUN, up)), name="under_test")
    return up.out
"""


def lazy_module(d: dict, cls, moddir: Path):
    moddir.mkdir(parents=True, exist_ok=True)
    modname = f"verif_rules_lazy_{next(_modcount)}_{d['name']}"
    path = moddir / f"{modname}.py"
    path.write_text(_LAZY_SRC.format(name=d["name"]))
    spec = importlib.util.spec_from_file_location(modname, path)
    mod = importlib.util.module_from_spec(spec)
    sys.modules[modname] = mod
    spec.loader.exec_module(mod)
    mod.CLS = cls
    return mod


def lazy_violations(mod, d: dict, asgs: list[dict]) -> list[list]:
    """`_rule_violations()` of the task built with lazy inputs inside a workflow constructor, per assignment."""
    from pydra.engine.workflow import Workflow

    mod.ASGS, mod.RUN = list(asgs), None
    del mod.REC[:]
    Workflow.clear_cache()
    Workflow.construct(getattr(mod, f"W_{d['name']}")(x="q"))
    if len(mod.REC) != len(asgs):
        raise RuntimeError(f"workflow constructor recorded {len(mod.REC)} of {len(asgs)} assignments")
    return [canon_violations(v) for v in mod.REC]


def lazy_submission(mod, d: dict, a: dict, root: Path, marker: Path) -> dict:
    """Run a workflow with the task (lazy inputs) as a node: exception class, whether any node body ran."""
    import os

    from pydra.engine.workflow import Workflow

    mod.ASGS, mod.RUN = [], dict(a)
    del mod.REC[:]
    Workflow.clear_cache()
    if marker.exists():
        marker.unlink()
    os.environ["VERIF_RULES_MARK"] = str(marker)
    exc = None
    try:
        getattr(mod, f"W_{d['name']}")(x=f"q{next(_modcount)}")(cache_root=root, worker="debug")
    except Exception as e:  # noqa: BLE001
        exc = type(e).__name__
    finally:
        os.environ.pop("VERIF_RULES_MARK", None)
        mod.RUN = None
    return {"exc": exc, "ran": marker.exists()}


# --------------------------------------------------------------------------------------------------
# extractors (regenerated tie): call sites on the path to execution, Field-class defaults


def _lean_str(s: str) -> str:
    return '"' + s.replace("\\", "\\\\").replace('"', '\\"').replace("\n", "\\n") + '"'


def _function_events(src_file: Path, cls: str, fn: str) -> list[tuple[str, str, bool]]:
    """Ordered (receiver, attribute, guarded) triples of the calls in `cls.fn`, in evaluation order as far as
    the AST gives it (arguments before the call).  `guarded` = inside if/for/while/try/nested function/
    comprehension/boolean operator/conditional expression, i.e. not certain to have completed when a later
    statement runs.  A name bound by `with K(...) as v` and then called is reported as (K, "__call__").
    Assignments to attributes are reported as (receiver, attr + "=").  `raise` as ("", "raise")."""
    import ast

    tree = ast.parse(src_file.read_text())
    target = None
    for node in tree.body:
        if isinstance(node, ast.ClassDef) and node.name == cls:
            for sub in node.body:
                if isinstance(sub, (ast.FunctionDef, ast.AsyncFunctionDef)) and sub.name == fn:
                    target = sub
    if target is None:
        raise RuntimeError(f"{src_file}: {cls}.{fn} not found")
    events: list[tuple[str, str, bool]] = []
    with_bind: dict[str, str] = {}

    def callee(f) -> tuple[str, str]:
        if isinstance(f, ast.Name):
            if f.id in with_bind:
                return with_bind[f.id], "__call__"
            return "", f.id
        if isinstance(f, ast.Attribute):
            return ast.unparse(f.value), f.attr
        return ast.unparse(f), "()"

    def expr(e, guarded):
        if e is None:
            return
        if isinstance(e, ast.Call):
            expr(e.func.value if isinstance(e.func, ast.Attribute) else None, guarded)
            for x in e.args:
                expr(x, guarded)
            for k in e.keywords:
                expr(k.value, guarded)
            r, a = callee(e.func)
            events.append((r, a, guarded))
        elif isinstance(e, (ast.BoolOp,)):
            expr(e.values[0], guarded)
            for x in e.values[1:]:
                expr(x, True)
        elif isinstance(e, ast.IfExp):
            expr(e.test, guarded)
            expr(e.body, True)
            expr(e.orelse, True)
        elif isinstance(e, (ast.Lambda, ast.ListComp, ast.SetComp, ast.DictComp, ast.GeneratorExp)):
            for x in ast.iter_child_nodes(e):
                if isinstance(x, ast.expr):
                    expr(x, True)
                elif isinstance(x, ast.comprehension):
                    expr(x.iter, True)
                    for c in x.ifs:
                        expr(c, True)
        elif isinstance(e, ast.expr):
            for x in ast.iter_child_nodes(e):
                if isinstance(x, ast.expr):
                    expr(x, guarded)

    def stmts(body, guarded):
        for s in body:
            stmt(s, guarded)

    def stmt(s, guarded):
        if isinstance(s, (ast.FunctionDef, ast.AsyncFunctionDef, ast.ClassDef)):
            for d in s.decorator_list:
                expr(d, guarded)
            return  # the body of a nested definition does not run here
        if isinstance(s, ast.If):
            expr(s.test, guarded)
            stmts(s.body, True)
            stmts(s.orelse, True)
        elif isinstance(s, (ast.For, ast.AsyncFor)):
            expr(s.iter, guarded)
            stmts(s.body, True)
            stmts(s.orelse, True)
        elif isinstance(s, ast.While):
            expr(s.test, guarded)
            stmts(s.body, True)
            stmts(s.orelse, True)
        elif isinstance(s, ast.Try):
            stmts(s.body, True)
            for h in s.handlers:
                stmts(h.body, True)
            stmts(s.orelse, True)
            stmts(s.finalbody, True)
        elif isinstance(s, (ast.With, ast.AsyncWith)):
            for it in s.items:
                expr(it.context_expr, guarded)
                if isinstance(it.optional_vars, ast.Name) and isinstance(it.context_expr, ast.Call):
                    r, a = callee(it.context_expr.func)
                    with_bind[it.optional_vars.id] = a
            stmts(s.body, guarded)
        elif isinstance(s, ast.Raise):
            expr(s.exc, guarded)
            events.append(("", "raise", guarded))
        elif isinstance(s, (ast.Assign, ast.AnnAssign, ast.AugAssign)):
            expr(s.value, guarded)
            tgts = s.targets if isinstance(s, ast.Assign) else [s.target]
            for t in tgts:
                if isinstance(t, ast.Attribute):
                    events.append((ast.unparse(t.value), t.attr + "=", guarded))
        elif isinstance(s, ast.Return):
            expr(s.value, guarded)
            events.append(("", "return", guarded))
        elif isinstance(s, ast.Match):
            expr(s.subject, guarded)
            for c in s.cases:
                stmts(c.body, True)
        else:
            for x in ast.iter_child_nodes(s):
                if isinstance(x, ast.expr):
                    expr(x, guarded)

    stmts(target.body, False)
    return events


CALLSITE_FUNCS = [
    ("taskCall", "pydra/compose/base/task.py", "Task", "__call__"),
    ("checkRules", "pydra/compose/base/task.py", "Task", "_check_rules"),
    ("submitterCall", "pydra/engine/submitter.py", "Submitter", "__call__"),
    ("submitterSubmit", "pydra/engine/submitter.py", "Submitter", "submit"),
    ("jobInit", "pydra/engine/job.py", "Job", "__init__"),
    ("jobRun", "pydra/engine/job.py", "Job", "run"),
]


def extract_call_sites(ctx=None):
    """lean/PydraModel/Gen/RulesCallSites.lean: ordered call events of the functions between `Task.__call__` and the
    task body, read from the current source."""
    from harness import core

    lines = [
        "/- GENERATED by harness/engines/rules.py:extract_call_sites from the working tree of the repository. Do not edit. -/",
        "namespace PydraModel.Gen.RulesCallSites",
        "",
        "/-- (receiver, attribute, guarded): see `_function_events` in harness/engines/rules.py -/",
        "abbrev RawEv := String × String × Bool",
        "",
    ]
    for lean_name, rel, cls, fn in CALLSITE_FUNCS:
        evs = _function_events(core.REPO / rel, cls, fn)
        if not evs:
            raise RuntimeError(f"no events extracted from {cls}.{fn}")
        lines.append(f"/-- `{cls}.{fn}` ({rel}) -/")
        lines.append(f"def {lean_name} : List RawEv := [")
        lines.append(",\n".join(f"  ({_lean_str(r)}, {_lean_str(a)}, {'true' if g else 'false'})" for r, a, g in evs))
        lines.append("]")
        lines.append("")
    lines.append("end PydraModel.Gen.RulesCallSites")
    out = core.LEAN / "PydraModel" / "Gen" / "RulesCallSites.lean"
    core.write_if_changed(out, "\n".join(lines) + "\n")
    return [out]


# --------------------------------------------------------------------------------------------------
# C32: attribute values as the Roundtrip model sees them

FIELD_CLASSES = [
    ("shell.arg", "pydra.compose.shell", "arg"),
    ("shell.out", "pydra.compose.shell", "out"),
    ("shell.outarg", "pydra.compose.shell", "outarg"),
    ("python.arg", "pydra.compose.python", "arg"),
    ("python.out", "pydra.compose.python", "out"),
]

_ADDR = re.compile(r" at 0x[0-9a-fA-F]+")


def encode_val(attr: str, v):
    """JSON form of an attribute value: null / bool / int / str / {"strs": […]} / {"reqs": […]} / {"atom": tag}.
    Types, callables, enums and sentinels are opaque atoms identified by a stable tag."""
    import enum
    import inspect

    import attrs

    from pydra.compose.base.field import NO_DEFAULT, Requirement, RequirementSet

    if isinstance(v, attrs.Factory):
        v = v.factory()
    if v is None or isinstance(v, (bool, int, str)) and not isinstance(v, enum.Enum):
        return v
    if v is NO_DEFAULT:
        return {"atom": "NO_DEFAULT"}
    if v is attrs.NOTHING:
        return {"atom": "NOTHING"}
    if attr == "requires":
        out = []
        for rs in v:
            if not isinstance(rs, RequirementSet) or not all(isinstance(r, Requirement) for r in rs.requirements):
                raise RuntimeError(f"requires holds {rs!r}")
            out.append([[r.name, None if r.allowed_values is None else [str(x) for x in r.allowed_values]] for r in rs.requirements])
        return {"reqs": out}
    if isinstance(v, (list, tuple, set, frozenset)) and all(isinstance(x, str) for x in v):
        return {"strs": sorted(v) if isinstance(v, (set, frozenset)) else list(v)}
    if isinstance(v, enum.Enum):
        return {"atom": f"enum:{type(v).__qualname__}.{v.name}"}
    if isinstance(v, type) or getattr(v, "__module__", None) in ("typing", "types") or hasattr(v, "__origin__"):
        return {"atom": "type:" + str(v)}
    if inspect.isfunction(v) or inspect.isclass(v) or inspect.ismethod(v):
        return {"atom": f"fn:{v.__module__}.{v.__qualname__}"}
    return {"atom": "obj:" + _ADDR.sub("", repr(v))}


def _lean_val(j) -> str:
    if j is None:
        return ".none"
    if isinstance(j, bool):
        return f".bool {'true' if j else 'false'}"
    if isinstance(j, int):
        return f".int ({j})"
    if isinstance(j, str):
        return f".str {_lean_str(j)}"
    if "atom" in j:
        return f".atom {_lean_str(j['atom'])}"
    if "strs" in j:
        return ".strs [" + ", ".join(_lean_str(s) for s in j["strs"]) + "]"
    if "reqs" in j:
        if j["reqs"]:
            raise RuntimeError("non-empty requires default")
        return ".reqs []"
    raise RuntimeError(f"cannot render {j!r}")


def extract_field_defaults(ctx=None):
    """lean/PydraModel/Gen/FieldDefaults.lean: attribute names and class defaults of the field classes, read from the
    running interpreter (`attrs.fields`)."""
    import importlib

    import attrs

    from harness import core

    core.assert_repo_loaded()
    lines = [
        "/- GENERATED by harness/engines/rules.py:extract_field_defaults from the running interpreter (attrs.fields of the",
        "   field classes of the repository's working tree). Do not edit. -/",
        "namespace PydraModel.Gen.FieldDefaults",
        "",
        "inductive RawVal where",
        "  | atom (tag : String) | none | bool (b : Bool) | int (i : Int) | str (s : String)",
        "  | strs (l : List String) | reqs (r : List (List (String × Option (List String))))",
        "  deriving DecidableEq, Repr",
        "",
        "/-- (class, [(attribute, default)]) in `attrs.fields` order -/",
        "def classes : List (String × List (String × RawVal)) := [",
    ]
    blocks = []
    for tag, modname, clsname in FIELD_CLASSES:
        cls = getattr(importlib.import_module(modname), clsname)
        rows = []
        for a in attrs.fields(cls):
            rows.append(f"    ({_lean_str(a.name)}, {_lean_val(encode_val(a.name, a.default))})")
        if not rows:
            raise RuntimeError(f"{tag}: no attributes")
        blocks.append(f"  ({_lean_str(tag)}, [\n" + ",\n".join(rows) + "])")
    lines.append(",\n".join(blocks))
    lines.append("]")
    lines.append("")
    # defaults of the nested requirement classes (what `attrs.asdict(recurse=True)` filters inside `requires`)
    from pydra.compose.base.field import Requirement, RequirementSet

    ra = {a.name: a for a in attrs.fields(Requirement)}
    rsa = {a.name: a for a in attrs.fields(RequirementSet)}
    if set(ra) != {"name", "allowed_values"} or set(rsa) != {"requirements"}:
        raise RuntimeError(f"Requirement / RequirementSet attributes changed: {sorted(ra)} {sorted(rsa)}")
    lines.append("/-- attribute names of `RequirementSet` and `Requirement` (keys of the nested dictionaries) -/")
    lines.append(f"def requirementSetKeys : List String := [{', '.join(_lean_str(k) for k in rsa)}]")
    lines.append(f"def requirementKeys : List String := [{', '.join(_lean_str(a.name) for a in attrs.fields(Requirement))}]")
    lines.append(f"def requirementAllowedDefault : RawVal := {_lean_val(encode_val('allowed_values', ra['allowed_values'].default))}")
    lines.append("")
    lines.append("end PydraModel.Gen.FieldDefaults")
    out = core.LEAN / "PydraModel" / "Gen" / "FieldDefaults.lean"
    core.write_if_changed(out, "\n".join(lines) + "\n")
    return [out]
