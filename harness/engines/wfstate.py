"""Engine WfState (C03): build a real pydra workflow from a JSON case, run it with the debug worker,
and return canonical observables.

Case format (all JSON):

  {"nodes": [{"name": "N0",
              "in": {"x": SRC, "y": SRC},        # fields x, y, z, u, v of the encoder task; absent field = default None
              "split": None | ["x"] | ["outer","x","y"] | ["inner","x","y"],
              "combine": ["N0.x", "N1.y", ...]   # dotted axis names (own fields are given dotted too)
              "wf": false | true                 # the node is a nested workflow: ia = Enc5(tag, x, …, v); ib = Enc5(tag, ia.out)
             }, ...],
   "out": ["N2", ...]}                           # workflow outputs: out of these nodes, in this order

  SRC = {"c": value}            constant
      | {"l": [values]}         list the node splits over (field must be in "split")
      | {"l": [values], "w": 1} same, but passed through a workflow input (lazy at construction)
      | {"n": "N0"}             output `out` of an earlier node

Every node is the python task `Enc5(tag, x, y, z, u, v) -> [tag, x, y, z, u, v]`, so the routing of upstream outputs is visible in the
outputs.  Each case gets its own generated module with unique function names (pydra hashes classes by source, D28).
"""

from __future__ import annotations

import importlib.util
import itertools
import json
import os
import sys
import tempfile
import typing as ty
from pathlib import Path

from pydra.compose import python, workflow


@python.define(outputs=["out"])
def Enc(tag: ty.Any, x: ty.Any = None, y: ty.Any = None, z: ty.Any = None) -> ty.Any:
    return [tag, x, y, z]  # the encoder of engine WfCache (C30)


@python.define(outputs=["out"])
def Enc5(tag: ty.Any, x: ty.Any = None, y: ty.Any = None, z: ty.Any = None, u: ty.Any = None, v: ty.Any = None) -> ty.Any:
    return [tag, x, y, z, u, v]  # the encoder of engine WfState (C03): five input fields, so that a node can be fed by four
    # independently split upstream nodes and still have an own splitter


FIELDS = ("x", "y", "z", "u", "v")


_uid = itertools.count()


def _src_expr(src, wf_inputs: dict) -> str | None:
    if "n" in src:
        return f"{src['n']}.out"
    if "l" in src:
        if src.get("w"):
            nm = f"w{len(wf_inputs)}"
            wf_inputs[nm] = src["l"]
            return nm
        return repr(src["l"])
    if src.get("w"):
        nm = f"w{len(wf_inputs)}"
        wf_inputs[nm] = src["c"]
        return nm
    return repr(src["c"])


def gen_source(case: dict, uid: str) -> tuple[str, dict]:
    """Python source of a module defining the workflow class `W_<uid>`; returns (source, workflow input values)."""
    wf_inputs: dict = {}
    body = []
    inner: list[str] = []
    for nd in case["nodes"]:
        name = nd["name"]
        split = nd.get("split")
        sfields = [f for f in (split or []) if f not in ("outer", "inner")]
        kw, skw = [f"tag={name!r}"], []
        for f, src in nd["in"].items():
            e = _src_expr(src, wf_inputs)
            (skw if f in sfields else kw).append(f"{f}={e}")
        if nd.get("wf"):
            inner.append(
                f"@workflow.define(outputs=['out'])\n"
                f"def I_{uid}_{name}(x=None, y=None, z=None, u=None, v=None):\n"
                f"    ia = workflow.add(Enc5(tag={name!r}, x=x, y=y, z=z, u=u, v=v), name='ia')\n"
                f"    ib = workflow.add(Enc5(tag={name!r}, x=ia.out), name='ib')\n"
                f"    return ib.out\n"
            )
            expr = f"I_{uid}_{name}({', '.join(kw[1:])})"
        else:
            expr = f"Enc5({', '.join(kw)})"
        if split:
            if split[0] == "outer":
                spl = repr(list(split[1:]))
            elif split[0] == "inner":
                spl = repr(tuple(split[1:]))
            else:
                spl = repr(split[0])
            expr += f".split({spl}, {', '.join(skw)})"
        comb = nd.get("combine") or []
        if comb:
            cl = [c.split(".", 1)[1] if c.startswith(name + ".") else c for c in comb]
            expr += f".combine({cl!r})"
        body.append(f"    {name} = workflow.add({expr}, name={name!r})")
    outs = case["out"]
    ret = ", ".join(f"{o}.out" for o in outs)
    args = ", ".join(wf_inputs)
    outnames = [f"o{i}" for i in range(len(outs))]
    src = (
        "import typing as ty\n"
        "from pydra.compose import workflow\n"
        "from harness.engines.wfstate import Enc5\n\n" + "\n".join(inner) + "\n"
        f"@workflow.define(outputs={outnames!r})\n"
        f"def W_{uid}({args}):\n" + "\n".join(body) + f"\n    return {ret}\n"
    )
    return src, wf_inputs


def load_module(src: str, scratch: Path, uid: str):
    p = Path(scratch) / f"wfgen_{uid}.py"
    p.write_text(src)
    spec = importlib.util.spec_from_file_location(f"wfgen_{uid}", p)
    mod = importlib.util.module_from_spec(spec)
    sys.modules[spec.name] = mod
    spec.loader.exec_module(mod)
    return mod


def canon(v):
    """JSON-able canonical form of a task output (lists/tuples -> lists)."""
    if isinstance(v, (list, tuple)):
        return [canon(e) for e in v]
    if v is None or isinstance(v, (int, str, bool)):
        return v
    return repr(type(v).__name__)


def run_case(case: dict, scratch: Path, keep_exc: bool = False, rerun: bool = False) -> dict:
    """Run the case on the implementation.  Returns {"out": [...], "jobs": {node: n}} or {"error": ExcName, "phase": ...}.
    With `rerun`, a successful run is followed by a second `Submitter` call on the same task object (same constructed
    workflow, same node and `State` objects, fresh cache root); its observation is returned under "rerun"."""
    from pydra.engine.submitter import Submitter
    from pydra.engine.workflow import Workflow
    from harness import core

    uid = f"{next(_uid)}"
    src, wf_inputs = gen_source(case, uid)
    Workflow.clear_cache()
    Path(scratch).mkdir(parents=True, exist_ok=True)
    cache_root = Path(tempfile.mkdtemp(prefix=f"cache_{uid}_", dir=scratch))  # always fresh: job dirs are counted
    phase = "define"
    # pydra's persistent *file-hash* cache (~/.cache/pydra/hashes by default) is scanned by every Submitter call; point it
    # at the scratch directory so that the run neither depends on nor pollutes the user's cache (env var read at call time)
    hash_dir = Path(scratch) / "hash-cache"
    hash_dir.mkdir(exist_ok=True)
    old_env = os.environ.get("PYDRA_HASH_CACHE")
    os.environ["PYDRA_HASH_CACHE"] = str(hash_dir)
    try:
        mod = load_module(src, scratch, uid)
        W = getattr(mod, f"W_{uid}")
        wf = W(**wf_inputs)
        phase = "construct"
        constructed = Workflow.construct(wf)
        phase = "run"
        with Submitter(worker="debug", cache_root=cache_root) as sub:
            res = sub(wf, raise_errors=True)
        if res.errored:
            return {"error": "Errored", "phase": "run"}
        outs = [canon(getattr(res.outputs, f"o{i}")) for i in range(len(case["out"]))]
        jobs, jobins = count_jobs(cache_root, case)
        first = {"out": outs, "jobs": jobs, "jobins": jobins}
        if rerun:
            cache2 = Path(tempfile.mkdtemp(prefix=f"cache_{uid}_again_", dir=scratch))
            try:
                with Submitter(worker="debug", cache_root=cache2) as sub:
                    res2 = sub(wf, raise_errors=True)
                if res2.errored:
                    first["rerun"] = {"error": "Errored"}
                else:
                    j2, ji2 = count_jobs(cache2, case)
                    first["rerun"] = {
                        "out": [canon(getattr(res2.outputs, f"o{i}")) for i in range(len(case["out"]))],
                        "jobs": j2,
                        "jobins": ji2,
                    }
            except Exception as e2:  # noqa: BLE001
                first["rerun"] = {"error": core.exc_tag(e2)}
        return first
    except Exception as e:  # noqa: BLE001  (every exception is an observable here)
        root = e  # the Submitter re-raises the original exception (with a note), no wrapping
        r = {"error": core.exc_tag(root), "phase": phase}
        if keep_exc:
            import traceback

            tb = traceback.extract_tb(root.__traceback__)
            r["where"] = f"{tb[-1].name}:{tb[-1].lineno}" if tb else ""
            r["msg"] = str(root)[:200]
        return r
    finally:
        if old_env is None:
            os.environ.pop("PYDRA_HASH_CACHE", None)
        else:
            os.environ["PYDRA_HASH_CACHE"] = old_env
        Workflow.clear_cache()
        sys.modules.pop(f"wfgen_{uid}", None)


def count_jobs(cache_root: Path, case: dict) -> tuple[dict, dict]:
    """Per node: the number of job results in the cache root and the sorted list of the jobs' inputs `[x, y, z, u, v]` (as
    canonical JSON strings), read from the saved jobs.  Jobs of the outer workflow's nodes carry the node's name; the inner
    jobs of a nested-workflow node are called `ia`/`ib` and are not counted."""
    import cloudpickle as cp

    names = {nd["name"] for nd in case["nodes"]}
    counts = {n: 0 for n in names}
    ins: dict[str, list[str]] = {n: [] for n in names}
    for d in sorted(Path(cache_root).iterdir()):
        jf = d / "_job.pklz"
        if not d.is_dir() or not jf.exists() or not (d / "_result.pklz").exists():
            continue
        try:
            with open(jf, "rb") as f:
                job = cp.load(f)
            name = job.name
            t = job.task
            vals = [canon(getattr(t, fld, None)) for fld in FIELDS]
        except Exception:  # noqa: BLE001
            continue
        if name in names:
            counts[name] += 1
            ins[name].append(json.dumps(vals, sort_keys=True))
    return counts, {n: sorted(v) for n, v in ins.items()}
