"""Engine `Argv` (core part: C22, C23, C24) — shared by harness/props/C22.py, C23.py, C24.py.

* generator of shell task definitions built through the public API (`shell.define`, `shell.arg`, `shell.outarg`)
  and of value assignments over a safe / an adversarial alphabet;
* implementation runner: builds the class, instantiates it, reads `task.cmdline`, runs the task with the debug
  worker while the `subprocess` module object used by `pydra.environments.base` (`sp`) is replaced by a recorder,
  so the argv handed to `sp.run` is observed without starting a process (thorough tier: a real child that dumps
  its argv NUL-separated is started as well);
* model queries for `lean/Drivers/Argv.lean`;
* straightforward spec oracles written from the property texts.

A case is plain JSON:
  {"exe": [str..], "fields": [FIELD..], "values": [VALUE..], "append": [str..]}
  FIELD = {"name", "kind", "optional", "argstr": str|None, "position": int|None, "sep": str, "out": bool}
  kind  = bool | str | int | float | path | list_str | list_int | list_path | multi_str | out
  VALUE = None | bool | str | int | float | [..]         ("out" fields: None | True)
Fields with "out": true are `shell.outarg`s (they come after the inputs in definition order, as in a class
definition where they live in `Outputs`).
"""

from __future__ import annotations

import contextlib
import itertools
import json
import keyword
import os
import shlex
import subprocess
from pathlib import Path

from harness import core

_uid = itertools.count()

SAFE = "abcxyzABZ0189_-./=:+@%"
ADV_SPECIAL = [" ", "\t", "\n", "'", '"', "\\", "$", "*", ";", "&", "|", "<", ">", "(", ")", "#", "~", "\u00e9", "\u65e5", "\U0001f600", "\u00a0", "\r"]
SHLEX_ACTIVE = set(" \t\r\n'\"\\")
PY_SPACE = {c for c in map(chr, range(0x3001)) if c.isspace()}
SEPS = [" ", " ", ",", ":", ";", "+"]
OUT_TAG = "<OUT>"


# --------------------------------------------------------------------------------------
# generator


def safe_word(rng, lo=1, hi=5):
    return "".join(rng.choice(SAFE) for _ in range(rng.randint(lo, hi)))


def adv_word(rng, lo=0, hi=5, p_special=0.4):
    n = rng.randint(lo, hi)
    return "".join(rng.choice(ADV_SPECIAL) if rng.random() < p_special else rng.choice(SAFE) for _ in range(n))


def gen_scalar(rng, kind, word):
    if kind == "str":
        return word(rng)
    if kind == "path":
        w = word(rng) or "p"
        return ("/" if rng.random() < 0.3 else "") + w + (("/" + (word(rng) or "q")) if rng.random() < 0.4 else "")
    if kind == "int":
        return rng.choice([0, 1, 2, -3, 42, 100000, 7])
    if kind == "float":
        return rng.choice([0.0, 1.5, -2.25, 1e-07, 3.0, 12.125])
    raise ValueError(kind)


ELEM = {"list_str": "str", "list_int": "int", "list_path": "path", "multi_str": "str"}


def assign_positions(rng, fields):
    """distinct slots 1..n for the explicit positions, written as a non-negative position or, counted from the end
    (num_args = n + 1 with the executable), as a negative one; now and then a position outside 0..n"""
    n = len(fields)
    slots = list(range(1, n + 1))
    rng.shuffle(slots)
    far_pos = [n + 1, n + 2, n + 7]
    far_neg = [-(n + 2), -(n + 3), -(n + 9)]
    for f in fields:
        r = rng.random()
        if r < 0.45:
            f["position"] = None
        elif r < 0.52 and far_pos and far_neg:
            f["position"] = far_pos.pop() if rng.random() < 0.6 else far_neg.pop()
        else:
            sl = slots.pop()
            f["position"] = sl if rng.random() < 0.6 else sl - (n + 1)


def gen_case(rng, *, word, n_max=6, allow_bad_def=0.07, blank_sep_templated=True, blank_sep_dots=False, outargs=True, class_form=0.0) -> dict:
    n = rng.choice([0, 1, 2, 2, 3, 3, 4, 4, 5, n_max])
    fields = []
    names = [f"f{chr(ord('a') + i)}" for i in range(n + 2)]
    if rng.random() < 0.6:  # definition order must not coincide with name order (the class form sorts by name)
        rng.shuffle(names)
    for i in range(n):
        is_out = outargs and i >= max(1, n - 2) and rng.random() < 0.15
        kind = "out" if is_out else rng.choice(
            ["bool", "bool", "str", "str", "str", "int", "float", "path", "list_str", "list_str", "list_int", "list_path", "multi_str"]
        )
        name = names[i]
        optional = rng.random() < (0.45 if kind != "bool" else 0.35)  # `T | None` variants of every kind, flags included
        # argstr
        r = rng.random()
        flag = rng.choice(["-", "--"]) + rng.choice(["a", "b", "v", "x", "opt", "long-name", "k2"])
        if kind == "bool":
            argstr = flag if r < 0.93 else ""
        elif r < 0.05:
            argstr = None
        elif r < 0.15:
            argstr = ""
        elif r < 0.55:
            argstr = flag
        elif r < 0.75:
            argstr = flag + rng.choice(["=", " ", ":"]) + "{" + name + "}"
        elif r < 0.8:
            argstr = "{" + name + "}"
        elif r < 0.85:
            argstr = flag + " {" + name + "} " + rng.choice(["--tail", "end", "-z"])
        else:
            argstr = flag  # cross reference added below
        if kind in ELEM and argstr is not None and rng.random() < 0.45:
            argstr = argstr + "..."
        sep = rng.choice(SEPS)
        fields.append({"name": name, "kind": kind, "optional": optional, "argstr": argstr, "position": None, "sep": sep, "out": is_out})
    fields.sort(key=lambda f: f["out"])  # outargs after the inputs: that is their place in the definition order
    # cross references to scalar str/int fields
    for f in fields:
        if f["argstr"] and "{" not in f["argstr"] and f["kind"] not in ("bool", "out") and rng.random() < 0.08:
            others = [g["name"] for g in fields if g is not f and g["kind"] in ("str", "int")]
            if others:
                dots = f["argstr"].endswith("...")
                base = f["argstr"][:-3] if dots else f["argstr"]
                f["argstr"] = base + "={" + f["name"] + "}_{" + rng.choice(others) + "}" + ("..." if dots else "")
    if blank_sep_dots:  # keep out of D42's region (C22's business)
        for f in fields:
            if f["argstr"] and f["argstr"].endswith("..."):
                f["sep"] = " "
    if not blank_sep_templated:
        for f in fields:
            if f["argstr"] and "{" in f["argstr"] and not f["argstr"].endswith("...") and f["kind"] in ELEM and not f["sep"].strip():
                f["sep"] = rng.choice([",", ":", "+"])
    assign_positions(rng, fields)
    if fields and rng.random() < allow_bad_def:
        f = rng.choice(fields)
        f["position"] = rng.choice([0, rng.choice(fields)["position"], 50, -50])
    # values
    values = []
    for f in fields:
        k = f["kind"]
        if f["optional"] and rng.random() < 0.3:
            values.append(None)
        elif k == "out":
            values.append(True)
        elif k == "bool":
            values.append(rng.random() < 0.6)
        elif k in ELEM:
            lo = 0 if k == "multi_str" else 1
            values.append([gen_scalar(rng, ELEM[k], word) for _ in range(rng.randint(lo, 3))])
        else:
            values.append(gen_scalar(rng, k, word))
    exe = rng.choice([["exe"], ["exe"], ["tool"], ["git", "commit"]])
    append = [word(rng) or "w" for _ in range(rng.choice([0, 0, 0, 1, 2]))]
    c = {"exe": exe, "fields": fields, "values": values, "append": append}
    if rng.random() < class_form:
        c["form"] = "class"
    return c


# --------------------------------------------------------------------------------------
# implementation


class _Recorder:
    """Stands in for the `subprocess` module object inside pydra.environments.base."""

    PIPE = subprocess.PIPE
    CompletedProcess = subprocess.CompletedProcess

    def __init__(self, real: bool):
        self.calls = []
        self.real = real

    def run(self, cmd, **kw):
        cwd = os.getcwd()
        self.calls.append((list(cmd), cwd))
        if self.real:
            return subprocess.run(cmd, **kw)
        for a in cmd:  # pretend the command wrote its output files
            if isinstance(a, str) and a.startswith(cwd + os.sep) and "\0" not in a:
                with contextlib.suppress(OSError):
                    Path(a).touch()
        return subprocess.CompletedProcess(cmd, 0, b"", b"")


@contextlib.contextmanager
def recording(real: bool = False):
    import pydra.environments.base as eb

    old = eb.sp
    rec = _Recorder(real)
    eb.sp = rec
    try:
        yield rec
    finally:
        eb.sp = old


def _py_type(f):
    from fileformats.generic import File
    from pydra.utils.typing import MultiInputObj

    t = {
        "bool": bool, "str": str, "int": int, "float": float, "path": Path, "list_str": list[str], "list_int": list[int],
        "list_path": list[Path], "multi_str": MultiInputObj[str], "out": File, "fbool": File | bool, "ro": str,
    }[f["kind"]]
    return (t | None) if f["optional"] else t


def is_nothing(v) -> bool:
    return isinstance(v, dict) and v.get("nothing") is True


def _py_value(f, v):
    if v is None:
        return None
    k = f["kind"]
    if k == "path":
        return Path(v)
    if k == "list_path":
        return [Path(x) for x in v]
    return v


def build_class(case):
    from pydra.compose import shell

    ins, outs = [], []
    for f in case["fields"]:
        assert not keyword.iskeyword(f["name"])
        kw = dict(name=f["name"], type=_py_type(f), argstr=f["argstr"], position=f["position"], sep=f["sep"])
        if f.get("allowed") is not None:
            kw["allowed_values"] = list(f["allowed"])
        if f.get("formatter"):
            kw["formatter"] = make_formatter(f["formatter"])
        if f.get("readonly"):
            kw["readonly"] = True
        if f["out"]:
            if f["optional"]:
                kw["default"] = None
            outs.append(shell.outarg(path_template=out_template(f), keep_extension=(f.get("template") or {}).get("keep", True), **kw))
        else:
            if f["optional"]:
                kw["default"] = None
            elif f["kind"] == "bool":
                kw["default"] = False
            ins.append(shell.arg(**kw))
    name = f"ArgvCase{next(_uid)}"
    if case.get("form") == "class":
        # canonical form: a class with the fields as attributes (fields are then collected with dir(klass))
        def members(flds):
            d = {"__annotations__": {}}
            for a in flds:
                d["__annotations__"][a.name] = a.type
                d[a.name] = a
            return d

        outputs_cls = type("Outputs", (shell.Outputs,), members(outs))
        klass = type(name, (shell.Task,), {"executable": case["exe"][0] if len(case["exe"]) == 1 else list(case["exe"]), "Outputs": outputs_cls, **members(ins)})
        return shell.define(klass)
    return shell.define(" ".join(case["exe"]), inputs=ins, outputs=outs, name=name)


def out_template(f) -> str:
    return (f.get("template") or {}).get("tmpl") or f"{f['name']}_out.txt"


def formatter_source(spec, fname="fmt") -> str:
    """Python source of a formatter function described by {"args": [...], "pieces": [...]}."""
    parts = []
    for pc in spec["pieces"]:
        if "lit" in pc:
            parts.append(repr(pc["lit"]))
        elif "arg" in pc:
            parts.append(f"str({spec['args'][pc['arg']]})")
        elif "field_name" in pc:
            parts.append(f"{spec['args'][pc['field_name']]}.name")
        else:
            i, n = pc["input"]
            parts.append(f"str({spec['args'][i]}[{n!r}])")
    return f"def {fname}({', '.join(spec['args'])}):\n    return " + (" + ".join(parts) or "''") + "\n"


def make_formatter(spec):
    ns = {}
    name = f"fmt_{next(_uid)}"
    exec(formatter_source(spec, name), ns)  # noqa: S102  (generated from case data, unique per case)
    return ns[name]


def dumper(scratch: Path) -> str:
    """A real executable that prints its argv NUL-separated (thorough tier)."""
    p = Path(scratch) / "dumpargv"
    if not p.exists():
        p.write_text('#!/bin/sh\nprintf \'%s\\0\' "$0" "$@"\n')
        p.chmod(0o755)
    return str(p)


def canon_args(args, roots):
    out = []
    for a in args:
        a = str(a)
        for r in roots:
            if r and a.find(r + os.sep) >= 0:
                a = a.replace(r + os.sep, OUT_TAG + "/")
        out.append(a)
    return out


def run_impl(case, scratch: Path, *, real_child: bool = False, want_cmdline: bool = True) -> dict:
    """Returns {"define": tag|None, "cmdline": str|{"error": tag}, "argv": [..]|{"error": tag}, "child": [..]|None}."""
    res = {"define": None, "cmdline": None, "argv": None, "child": None}
    # private persistent hash cache: the shared one under ~/.cache is scanned by every Submitter (clean_up)
    hc = Path(scratch) / "hashcache"
    hc.mkdir(exist_ok=True)
    os.environ["PYDRA_HASH_CACHE"] = str(hc)
    case = dict(case)
    exe_names = list(case["exe"])
    if real_child:
        d = dumper(scratch)
        case["exe"] = [d] + exe_names[1:]
    try:
        klass = build_class(case)
    except Exception as e:  # definition rejected
        res["define"] = core.exc_tag(e)
        return res
    kwargs = {
        f["name"]: _py_value(f, v)
        for f, v in zip(case["fields"], case["values"])
        if not (v is None and not f["optional"]) and not is_nothing(v)
    }
    if case["append"]:
        kwargs["append_args"] = list(case["append"])
    try:
        task = klass(**kwargs)
    except Exception as e:
        res["define"] = "init:" + core.exc_tag(e)
        return res
    cwd = str(Path.cwd())
    if want_cmdline:
        try:
            res["cmdline"] = task.cmdline.replace(cwd + os.sep, OUT_TAG + "/")
        except Exception as e:
            res["cmdline"] = {"error": core.exc_tag(e)}
    cache = Path(scratch) / f"c{next(_uid)}"
    with recording(real=real_child) as rec:
        try:
            outputs = task(cache_root=cache, worker="debug")
            err = None
        except Exception as e:
            err, outputs = e, None
    if rec.calls:
        argv, jobdir = rec.calls[-1]
        argv = canon_args(argv, [jobdir])
        if real_child:
            argv[0] = exe_names[0]
            if outputs is not None:
                got = outputs.stdout.split("\0")
                assert got[-1] == "", got
                child = canon_args(got[:-1], [jobdir])
                child[0] = exe_names[0]
                res["child"] = child
        res["argv"] = argv
    else:
        res["argv"] = {"error": core.exc_tag(err) if err is not None else "no-subprocess-call"}
    return res


# --------------------------------------------------------------------------------------
# model


def _scalar_json(kind, v):
    if isinstance(v, bool):
        return {"b": v}
    if kind == "str":
        return {"s": v}
    if kind == "path":
        return {"p": str(Path(v))}
    if kind == "int":
        return {"i": v}
    if kind == "float":
        return {"f": str(v), "z": v == 0}
    raise ValueError(kind)


def model_query(case) -> dict:
    fields, values = [], []
    for f, v in zip(case["fields"], case["values"]):
        k = f["kind"]
        fields.append(
            {"name": f["name"], "bool": k == "bool", "multi": k == "multi_str", "optional": bool(f["optional"]), "argstr": f["argstr"], "position": f["position"], "sep": f["sep"]}
        )
        if v is None:
            values.append(None)
        elif k == "out":
            values.append({"p": f"{OUT_TAG}/{f['name']}_out.txt"})
        elif k in ELEM:
            values.append([_scalar_json(ELEM[k], x) for x in v])
        else:
            values.append(_scalar_json(k, v))
    return {"op": "run", "exe": case["exe"], "fields": fields, "values": values, "append": case["append"]}


def model_obs(ans, key="argv"):
    """{"ok": x} / {"err": tag} of the driver -> observable comparable with run_impl's."""
    if ans is None:
        return None
    if "error" in ans:
        return {"model-error": ans["error"]}
    r = ans[key]
    return r["ok"] if "ok" in r else {"error": MODEL_ERR.get(r["err"], r["err"])}


# Python exception class raised where the model returns the tag
MODEL_ERR = {
    "noClosingQuote": "ValueError",
    "noEscapedChar": "ValueError",
    "overlap": "ValueError",
    "dupPosition": "Exception",
    "noSlot": "IndexError",
    "format": "format",
}


# --------------------------------------------------------------------------------------
# spec oracles (from the property texts; independent of the model)


def render(kind, v) -> str:
    if kind in ("path",):
        return str(Path(v))
    return str(v)


def is_set(f, v) -> bool:
    if f["argstr"] is None or v is None:
        return False
    if f["kind"] == "multi_str" and v == []:
        return False
    return True


def spec_order(case):
    """Indices of the set fields: explicit non-negative ascending, unpositioned in definition order, negative ascending."""
    idx = [i for i, (f, v) in enumerate(zip(case["fields"], case["values"])) if is_set(f, v)]
    pos = sorted((i for i in idx if (p := case["fields"][i]["position"]) is not None and p >= 0), key=lambda i: case["fields"][i]["position"])
    none = [i for i in idx if case["fields"][i]["position"] is None]
    neg = sorted((i for i in idx if (p := case["fields"][i]["position"]) is not None and p < 0), key=lambda i: case["fields"][i]["position"])
    return pos + none + neg


def _env(case):
    env = {}
    for f, v in zip(case["fields"], case["values"]):
        if v is None:
            env[f["name"]] = ""
        elif f["kind"] == "out":
            env[f["name"]] = f"{OUT_TAG}/{f['name']}_out.txt"
        elif f["kind"] in ELEM:
            env[f["name"]] = None  # never referenced by the generator
        else:
            env[f["name"]] = render(f["kind"], v)
    return env


def _subst(token: str, env: dict) -> str:
    out = token
    for n, val in env.items():
        if val is not None:
            out = out.replace("{" + n + "}", val)
    return out


def spec_field_args(case, i, *, atomic: bool) -> list[str]:
    """Documented arguments of field i.  atomic=False (C22): the field's text is cut at blanks;
    atomic=True (C23): values are atoms that are never cut (a list joined with a blank separator gives one
    argument per element)."""
    f, v = case["fields"][i], case["values"][i]
    k = f["kind"]
    argstr = f["argstr"]
    if k == "bool":
        return [argstr] if v is True else []
    dots = argstr.endswith("...")
    toks = argstr.replace("...", "").split()
    templated = "{" in argstr
    env = _env(case)

    def one(val: str) -> list[str]:
        if templated:
            e = dict(env)
            e[f["name"]] = val
            return [_subst(t, e) for t in toks]
        return toks + [val]

    if k == "out":
        return one(f"{OUT_TAG}/{f['name']}_out.txt")
    if k in ELEM:
        elems = [render(ELEM[k], x) for x in v]
        if dots or k == "multi_str":
            return [a for x in elems for a in one(x)]
        if atomic and not f["sep"].strip() and not templated:
            return toks + elems
        joined = f["sep"].join(elems)
        if atomic:
            return one(joined)
        return [a for t in one(joined) for a in t.split()] if templated else toks + joined.split()
    return one(render(k, v))


def spec_argv(case, *, atomic: bool = False) -> list[str]:
    out = list(case["exe"])
    for i in spec_order(case):
        out += spec_field_args(case, i, atomic=atomic)
    return out + list(case["append"])


# --------------------------------------------------------------------------------------
# match rules of the known findings (predicates on the case)


def parsed_order(case):
    """Indices of the fields in `parsed_inputs` order: as written for inputs=/outputs=, sorted by name (inputs, then
    outargs) for the class form, where the fields are collected with dir(klass)."""
    idx = list(range(len(case["fields"])))
    if case.get("form") != "class":
        return idx
    name = lambda i: case["fields"][i]["name"]
    return sorted((i for i in idx if not case["fields"][i]["out"]), key=name) + sorted((i for i in idx if case["fields"][i]["out"]), key=name)


def implicit_slots(case):
    """Positions after shell.define, per field index (re-implemented here for the match rules only)."""
    ps = [f["position"] for f in case["fields"]] + [0]
    n = len(ps)
    occ = {(p if p >= 0 else n + p) for p in ps if p is not None}
    free = [i for i in range(n) if i not in occ]
    out = list(ps[:-1])
    for i in parsed_order(case):
        if out[i] is None:
            out[i] = free.pop(0)
    return out


def rule_D45(case, is_set_fn=None) -> bool:
    """class form: two set unpositioned fields whose name order differs from their definition order"""
    if case.get("form") != "class":
        return False
    is_set_fn = is_set_fn or is_set
    un = [i for i, (f, v) in enumerate(zip(case["fields"], case["values"])) if is_set_fn(f, v) and f["position"] is None]
    po = [i for i in parsed_order(case) if i in un]
    return po != un


def rule_D26(case, is_set_fn=None) -> bool:
    """a set unpositioned field receives an implicit slot below the explicit non-negative position of another set field"""
    is_set_fn = is_set_fn or is_set
    try:
        filled = implicit_slots(case)
    except IndexError:
        return False
    live = [i for i, (f, v) in enumerate(zip(case["fields"], case["values"])) if is_set_fn(f, v)]
    for u in live:
        if case["fields"][u]["position"] is None:
            for e in live:
                p = case["fields"][e]["position"]
                if p is not None and p >= 0 and filled[u] < p:
                    return True
    return False


def rule_D41(case) -> bool:
    """a set non-bool field with a plain (untemplated) argstr whose value is falsy (0, 0.0; C23: empty string)"""
    for f, v in zip(case["fields"], case["values"]):
        if is_set(f, v) and not f.get("formatter") and f["kind"] in ("int", "float", "str") and "{" not in f["argstr"] and not v:
            return True
    return False


def rule_D42(case) -> bool:
    """a `...` argstr on a list of >= 2 elements with a separator that is not blank"""
    for f, v in zip(case["fields"], case["values"]):
        if is_set(f, v) and f["kind"] in ELEM and f["kind"] != "multi_str" and f["argstr"].endswith("...") and len(v) >= 2 and f["sep"].strip():
            return True
    return False


def str_elements(case):
    """(field index, element) for every str/path element supplied to a set field."""
    for i, (f, v) in enumerate(zip(case["fields"], case["values"])):
        if not is_set(f, v):
            continue
        k = f["kind"]
        if k in ("str", "path"):
            yield i, render(k, v)
        elif k in ELEM and ELEM[k] in ("str", "path"):
            for x in v:
                yield i, render(ELEM[k], x)


def rule_D14(case) -> bool:
    """some str/path element contains a shlex-active character (blank, quote, backslash), is empty, or — in a
    templated argstr — begins or ends with a character str.strip() removes; or an appended argument given ... (n/a)"""
    for i, e in str_elements(case):
        f = case["fields"][i]
        if e == "" or any(c in SHLEX_ACTIVE for c in e):
            return True
        if "{" in f["argstr"] and (e[0] in PY_SPACE or e[-1] in PY_SPACE):
            return True
    return False


def cmdline_safe_arg(a: str, first: bool) -> bool:
    """Is the argument rendered faithfully by `cmdline`'s quoting (single quotes iff it contains a space)?"""
    if first:
        return a != "" and not any(c in SHLEX_ACTIVE for c in a)
    if " " in a:
        return "'" not in a
    return a != "" and not any(c in SHLEX_ACTIVE for c in a)


def rule_D15(argv) -> bool:
    """some executed argument needs quoting that cmdline does not apply"""
    return any(not cmdline_safe_arg(a, i == 0) for i, a in enumerate(argv))


def load_corpus(name: str) -> list[dict]:
    p = core.VERIF / "corpus" / "argv" / name
    return [json.loads(l) for l in p.read_text().splitlines() if l.strip()]


# ======================================================================================
# extended features (model: lean/PydraModel/Argv/ModelX.lean, driver op "runx")
#   kinds fbool (File | bool) and ro (readonly str, value {"nothing": true}); field keys "allowed", "formatter",
#   "readonly", "template" (outargs); conversions / format specs in argstrs; values with [ ] , { }

import re as _re

BRACKETS = ["[", "]", ",", "[,", ",]", "a[,b", "x,]y"]
KEY_RX = _re.compile(r"\{([^{}]*)\}")


def _split_key(key: str):
    m = _re.match(r"^([A-Za-z_]\w*)(.*)$", key)
    return (m.group(1), m.group(2)) if m else (None, None)


def values_dict(case) -> dict:
    """The `values` dict of `_command_args` (Python objects), after the deletions at its top; outargs resolved."""
    out = {}
    for f, v in zip(case["fields"], case["values"]):
        if v is None:
            continue
        if is_nothing(v):
            out[f["name"]] = NOTHING_TEXT
            continue
        k = f["kind"]
        if k == "fbool" or (k == "multi_str" and v == []):
            continue
        if k == "out":
            if v is not True:
                continue
            out[f["name"]] = expected_out_path(case, f)
        elif k == "path":
            out[f["name"]] = Path(v)
        elif k == "list_path":
            out[f["name"]] = [Path(x) for x in v]
        else:
            out[f["name"]] = v
    return out


NOTHING_TEXT = "_Nothing.NOTHING"


def expected_out_path(case, f) -> str:
    """Documented value of an outarg left at True: the formatted template's file name inside the job directory."""
    tmpl = out_template(f)
    vals = {g["name"]: (render(g["kind"], v) if g["kind"] in ("str", "int", "path") and v is not None and not is_nothing(v) else v) for g, v in zip(case["fields"], case["values"])}
    return f"{OUT_TAG}/" + Path(tmpl.format(**vals)).name


def xenv_of(case) -> dict:
    """format() of the referenced values for every argstr key with a conversion or a format spec (the `xenv`
    parameter of the extended model = the contract "Python's str.format")."""
    vals = values_dict(case)
    env = {}
    for f in case["fields"]:
        for key in KEY_RX.findall(f["argstr"] or ""):
            name, rest = _split_key(key)
            if name is None or rest == "":
                continue
            try:
                env[key] = ("{" + key + "}").format(**{name: vals.get(name, "")})
            except Exception:
                pass
    return env


def model_query_x(case) -> dict:
    fields, values = [], []
    for f, v in zip(case["fields"], case["values"]):
        k = f["kind"]
        fields.append(
            {
                "name": f["name"], "bool": k == "bool", "multi": k == "multi_str", "optional": bool(f["optional"]), "argstr": f["argstr"], "position": f["position"], "sep": f["sep"],
                "out": bool(f["out"]), "readonly": bool(f.get("readonly")), "file_union": k in ("fbool", "out"), "allowed": None if f.get("allowed") is None else [_scalar_json(ELEM.get(k, k), x) for x in f["allowed"]],
                "formatter": f.get("formatter"), "template": {"tmpl": out_template(f), "keep": (f.get("template") or {}).get("keep", True)} if k == "out" else None,
            }
        )
        if v is None:
            values.append(None)
        elif is_nothing(v):
            values.append({"nothing": True})
        elif k in ("out", "fbool"):
            values.append({"b": bool(v)})
        elif k in ELEM:
            values.append([_scalar_json(ELEM[k], x) for x in v])
        else:
            values.append(_scalar_json("str" if k == "ro" else k, v))
    return {"op": "runx", "exe": case["exe"], "fields": fields, "values": values, "append": case["append"], "xenv": xenv_of(case), "cd": OUT_TAG, "class_form": case.get("form") == "class"}


MODEL_ERR_X = dict(MODEL_ERR, notAllowed="init:ValueError", mandatory="ValueError", readonlyGiven="Exception", formatterArg="AttributeError", reformat="ValueError", template="template")
FORMAT_ERRORS = {"ValueError", "IndexError", "KeyError", "format"}


def canon_error(tag: str, braces: bool) -> str:
    """With braces in values, `str.format` fails with ValueError / IndexError / KeyError depending on the text; the model
    only says that it fails."""
    return "format-or-ValueError" if braces and tag in FORMAT_ERRORS else tag


def model_obs_x(ans, key="argv", braces=False):
    if ans is None:
        return None
    if "error" in ans:
        return {"model-error": ans["error"]}
    r = ans[key]
    return r["ok"] if "ok" in r else {"error": canon_error(MODEL_ERR_X.get(r["err"], r["err"]), braces)}


def has_brace_values(case) -> bool:
    return any("{" in e or "}" in e for _, e in str_elements(case))


def is_set_x(f, v) -> bool:
    if v is None or f["kind"] == "fbool":
        return False
    if f["kind"] == "out" and v is not True:
        return False
    if f["argstr"] is None and not f.get("formatter"):
        return False
    if f["kind"] == "multi_str" and v == []:
        return False
    return True


def spec_field_args_x(case, i) -> list[str]:
    """Documented arguments of field i with the extended features (safe alphabet: the text is cut at blanks)."""
    f, v = case["fields"][i], case["values"][i]
    vals = values_dict(case)
    if f.get("formatter"):
        spec = f["formatter"]
        fn = make_formatter(spec)
        kw = {}
        for n in spec["args"]:
            if n == "field":
                kw[n] = type("F", (), {"name": f["name"]})()
            elif n == "inputs":
                kw[n] = vals
            else:
                kw[n] = vals[n]  # KeyError = the documented "has to be in inputs": the caller expects an error
        return fn(**kw).split()
    argstr = f["argstr"]
    keys = KEY_RX.findall(argstr)
    if f["kind"] not in ("ro", "out") and not any(_split_key(k)[1] for k in keys):
        return spec_field_args(case, i, atomic=False)
    toks = argstr.replace("...", "").split()

    def sub(tok, own):
        def rep(m):
            name, rest = _split_key(m.group(1))
            val = own if name == f["name"] and own is not None else vals.get(name, "")
            return ("{" + m.group(1) + "}").format(**{name: val}) if rest else str(val)
        return KEY_RX.sub(rep, tok)

    own = vals.get(f["name"])
    if f["kind"] in ELEM and (argstr.endswith("...") or f["kind"] == "multi_str"):
        return [a for x in own for t in toks for a in ([sub(t, x)] if keys else [t])] if keys else [a for x in own for a in toks + [str(x)]]
    if keys:
        return [a for t in toks for a in sub(t, own).split()]
    return toks + [str(own)] if own not in (None, NOTHING_TEXT) else []


def spec_order_x(case):
    idx = [i for i, (f, v) in enumerate(zip(case["fields"], case["values"])) if is_set_x(f, v)]
    P = lambda i: case["fields"][i]["position"]
    return sorted((i for i in idx if P(i) is not None and P(i) >= 0), key=P) + [i for i in idx if P(i) is None] + sorted((i for i in idx if P(i) is not None and P(i) < 0), key=P)


def expected_error_x(case):
    """Errors the documentation promises for the extended features (None = a command is built)."""
    for f, v in zip(case["fields"], case["values"]):
        if f.get("allowed") is not None and v is not None and not is_nothing(v):
            if any(x not in f["allowed"] for x in (v if isinstance(v, list) else [v])):
                return "init:ValueError"
    vals = values_dict(case)
    for f, v in zip(case["fields"], case["values"]):
        if not is_set_x(f, v):
            continue
        if f.get("readonly") and not is_nothing(v):
            return "Exception"
        if f.get("formatter") and any(n not in ("field", "inputs") and n not in vals for n in f["formatter"]["args"]):
            return "AttributeError"
    return None


def spec_argv_x(case):
    out = list(case["exe"])
    for i in spec_order_x(case):
        out += spec_field_args_x(case, i)
    return out + list(case["append"])


def gen_case_x(rng, *, word=None) -> dict:
    """A C22 case (safe alphabet) decorated with extended features."""
    word = word or safe_word
    c = gen_case(rng, word=word, allow_bad_def=0.0)
    fields, values = c["fields"], c["values"]
    for f in fields:
        if f["kind"] == "out":  # outargs: explicit template, sometimes referring to a mandatory str/int field
            refs = [g["name"] for g in fields if g["kind"] in ("str", "int") and not g["optional"]]
            if refs and rng.random() < 0.6:
                f["template"] = {"tmpl": rng.choice(["{%s}_out.txt", "res_{%s}.dat", "dir/{%s}.nii"]) % rng.choice(refs), "keep": True}
            else:
                f["template"] = {"tmpl": f"{f['name']}_out.txt", "keep": True}
    scalars = [i for i, f in enumerate(fields) if f["kind"] in ("str", "int", "float", "path") and f["argstr"] is not None]
    for i in scalars:
        f, v = fields[i], values[i]
        r = rng.random()
        flag = rng.choice(["-", "--"]) + rng.choice(["q", "w", "fmt", "lvl"])
        if r < 0.18 and f["kind"] in ("int", "float") and not f["optional"]:
            spec = rng.choice([":03d", ":d", ":>4", "!r", "!s"]) if f["kind"] == "int" else rng.choice([":.2f", ":.0f", ":8.3f", "!r", ":g"])
            f["argstr"] = flag + rng.choice(["=", " "]) + "{" + f["name"] + spec + "}"
        elif r < 0.33 and f["kind"] in ("str", "int") and v is not None:
            pool = [v] + [gen_scalar(rng, f["kind"], word) for _ in range(2)]
            f["allowed"] = pool if rng.random() < 0.7 else pool[1:]
        elif r < 0.5:
            others = [g["name"] for g, w in zip(fields, values) if g is not f and g["kind"] in ("str", "int") and (w is not None or rng.random() < 0.15)]
            args = rng.sample(["field", "inputs", f["name"]] + others[:2], k=rng.randint(1, min(3, 3 + len(others[:2]))))
            pieces = [{"lit": rng.choice(["-F ", "--fm=", " x ", "  pre  "])}]
            for j, a in enumerate(args):
                if a == "field":
                    pieces.append({"field_name": j})
                elif a == "inputs":
                    present = [g["name"] for g, w in zip(fields, values) if g["kind"] in ("str", "int") and w is not None]
                    if present:
                        pieces.append({"input": [j, rng.choice(present)]})
                else:
                    pieces.append({"arg": j})
                pieces.append({"lit": rng.choice([" ", "_", "  ", "/"])})
            f["formatter"] = {"args": args, "pieces": pieces}
            if rng.random() < 0.5:
                f["argstr"] = None
    if rng.random() < 0.3:
        fields.append({"name": "fu", "kind": "fbool", "optional": False, "argstr": rng.choice(["-u", "--union"]), "position": None, "sep": " ", "out": False})
        values.append(rng.random() < 0.5)
    if rng.random() < 0.3:
        refs = [g["name"] for g in fields if g["kind"] in ("str", "int")]
        body = "_".join("{" + n + "}" for n in rng.sample(refs, k=min(len(refs), rng.randint(1, 2)))) if refs else "const"
        fields.append({"name": "fr", "kind": "ro", "optional": False, "argstr": rng.choice(["-r ", "--ro="]) + body, "position": rng.choice([None, -len(fields) - 5]), "sep": " ", "out": False, "readonly": True})
        values.append({"nothing": True} if rng.random() < 0.9 else "given")
    order = sorted(range(len(fields)), key=lambda i: fields[i]["out"])  # outargs last (stable)
    c["fields"], c["values"] = [fields[i] for i in order], [values[i] for i in order]
    assign_positions(rng, c["fields"])
    return c


def field_value_texts(case, i):
    """The texts `_format_arg` substitutes for field i's own `{name}`: the value, the joined list, or each element."""
    f, v = case["fields"][i], case["values"][i]
    k = f["kind"]
    if k in ELEM:
        elems = [render(ELEM[k], x) for x in v]
        return elems if (f["argstr"].endswith("...") or k == "multi_str") else [f["sep"].join(elems)]
    return [render(k, v)]


def rule_D43(case) -> bool:
    """the text of a templated argstr with a str/Path value (or joined list) substituted for its own `{name}` contains
    "[ ", " ]", "[," or ",]" touching the value (argstr_formatting's bracket clean-up rewrites it)"""
    pats = ("[ ", " ]", "[,", ",]")
    for i in sorted({i for i, _ in str_elements(case)}):
        f = case["fields"][i]
        if "{" not in f["argstr"]:
            continue
        text = f["argstr"].replace("...", "")
        if any(p in text for p in pats):
            continue  # the argstr itself asks for the clean-up: not about the value
        for t in field_value_texts(case, i):
            if any(p in text.replace("{" + f["name"] + "}", t) for p in pats):
                return True
    return False


def rule_D44(case) -> bool:
    """a str/Path value (or joined list) containing "{" or "}" is substituted into the TEXT of a templated argstr before
    str.format runs (scalar fields, MultiInputObj elements, lists without '...')"""
    for i in sorted({i for i, _ in str_elements(case)}):
        f = case["fields"][i]
        if "{" not in f["argstr"]:
            continue
        if f["kind"] in ELEM and f["kind"] != "multi_str" and f["argstr"].endswith("..."):
            continue  # `...` lists are formatted by str.format directly: braces in the elements are data
        if any("{" in t or "}" in t for t in field_value_texts(case, i)):
            return True
    return False


BRACKET_WORDS = ["a[,b", "x,]y", "[", "]", ",", "[,", ",]", "[x]", "a[", "],", "[,]"]


def decorate_brackets_braces(rng, case, p=0.5):
    """Replace some str elements by texts with brackets / commas / braces."""
    names = [f["name"] for f in case["fields"] if f["kind"] in ("str", "int")]

    def word(f):
        if rng.random() < 0.5:
            return rng.choice(BRACKET_WORDS) + (safe_word(rng, 0, 2) if rng.random() < 0.5 else "")
        if f["kind"] == "multi_str" and f["argstr"] and "{" in f["argstr"]:
            return safe_word(rng)
        inj = "{" + rng.choice(names + ["zz"]) + "}"
        return rng.choice(["{", "}", "{}", "a{b", "x}y", inj, "p" + inj + "q", "{0}"])

    for j, (f, v) in enumerate(zip(case["fields"], case["values"])):
        if v is None or rng.random() > p:
            continue
        if f["kind"] == "str":
            case["values"][j] = word(f)
        elif f["kind"] in ("list_str", "multi_str") and v:
            case["values"][j] = [word(f) if rng.random() < 0.6 else x for x in v]
    return case
